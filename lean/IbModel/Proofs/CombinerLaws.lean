import IbModel.Model.Combiners
/-!
# Helper lemmas for C06: the generic merge-tree theory

`Mergeable c R` = `LawfulCombiner c R` + `add_input` respects `R` + `merge` is commutative on
accumulators obtained by folding. Everything about merge trees follows from it, once and for all.
-/
namespace IB
open IB.Combiners

/-- A lawful combiner whose `add_input` respects `R` and whose `merge` is commutative (on folds). -/
structure Mergeable {V A O : Type} (c : Combiner V A O) (R : A → A → Prop) : Prop
    extends LawfulCombiner c R where
  add_congr : ∀ {a b} (v : V), R a b → R (c.add a v) (c.add b v)
  merge_comm : ∀ xs ys, R (c.merge (c.foldAdd c.create xs) (c.foldAdd c.create ys))
                          (c.merge (c.foldAdd c.create ys) (c.foldAdd c.create xs))

namespace Mergeable
variable {V A O : Type} {c : Combiner V A O} {R : A → A → Prop}

theorem foldAdd_congr (h : Mergeable c R) {a b : A} (xs : List V) (hab : R a b) :
    R (c.foldAdd a xs) (c.foldAdd b xs) := by
  induction xs generalizing a b with
  | nil => exact hab
  | cons x xs ih => exact ih (h.add_congr x hab)

theorem fold_from (h : Mergeable c R) {a : A} {ys : List V} (xs : List V)
    (ha : R a (c.foldAdd c.create ys)) : R (c.foldAdd a xs) (c.foldAdd c.create (ys ++ xs)) := by
  rw [Combiner.foldAdd_append]
  exact h.foldAdd_congr xs ha

/-- every merge tree evaluates to (an accumulator equivalent to) the plain fold of its leaves -/
theorem eval_fold (h : Mergeable c R) (t : MergeTree V) :
    R (t.eval c) (c.foldAdd c.create t.leaves) := by
  induction t with
  | leaf xs => exact h.refl _
  | built xs => exact h.build_fold xs
  | node l r ihl ihr => exact h.trans (h.merge_congr ihl ihr) (h.merge_fold _ _)
  | more t xs ih => exact h.fold_from xs ih

/-- the fold does not depend on the order of the values -/
theorem fold_perm (h : Mergeable c R) {xs ys : List V} (p : xs.Perm ys) :
    R (c.foldAdd c.create xs) (c.foldAdd c.create ys) := by
  induction p with
  | nil => exact h.refl _
  | @cons x l l' _ ih =>
    have e1 := h.merge_fold [x] l
    have e2 := h.merge_fold [x] l'
    exact h.trans (h.symm e1) (h.trans (h.merge_congr (h.refl _) ih) e2)
  | swap x y l =>
    -- fold (y :: x :: l) ≈ merge (merge (fold [y]) (fold [x])) (fold l), commute the inner merge
    have a1 := h.merge_fold [y, x] l
    have a2 := h.merge_fold [x, y] l
    have b1 := h.merge_fold [y] [x]
    have b2 := h.merge_fold [x] [y]
    have hc := h.merge_comm [y] [x]
    have inner : R (c.foldAdd c.create [y, x]) (c.foldAdd c.create [x, y]) :=
      h.trans (h.symm b1) (h.trans hc b2)
    exact h.trans (h.symm a1) (h.trans (h.merge_congr inner (h.refl _)) a2)
  | trans _ _ ih1 ih2 => exact h.trans ih1 ih2

theorem eval_perm (h : Mergeable c R) (s t : MergeTree V) (p : s.leaves.Perm t.leaves) :
    R (s.eval c) (t.eval c) :=
  h.trans (h.eval_fold s) (h.trans (h.fold_perm p) (h.symm (h.eval_fold t)))

end Mergeable

theorem MergeTree.leaves_eq_flatten {V : Type} (t : MergeTree V) : t.leaves = t.parts.flatten := by
  induction t with
  | leaf xs => simp [MergeTree.leaves, MergeTree.parts]
  | built xs => simp [MergeTree.leaves, MergeTree.parts]
  | node l r ihl ihr => simp [MergeTree.leaves, MergeTree.parts, ihl, ihr]
  | more t xs ih => simp [MergeTree.leaves, MergeTree.parts, ih]

/-- For `R = Eq` only the three real laws have to be shown. -/
theorem Mergeable.ofEq {V A O : Type} (c : Combiner V A O)
    (merge_fold : ∀ xs ys, c.merge (c.foldAdd c.create xs) (c.foldAdd c.create ys)
                    = c.foldAdd c.create (xs ++ ys))
    (build_fold : ∀ xs, c.build xs = c.foldAdd c.create xs)
    (merge_comm : ∀ xs ys, c.merge (c.foldAdd c.create xs) (c.foldAdd c.create ys)
                    = c.merge (c.foldAdd c.create ys) (c.foldAdd c.create xs)) :
    Mergeable c Eq where
  refl _ := rfl
  symm h := h.symm
  trans h1 h2 := h1.trans h2
  merge_congr h1 h2 := by rw [h1, h2]
  finish_congr h := by rw [h]
  merge_fold := merge_fold
  build_fold := build_fold
  add_congr _ h := by rw [h]
  merge_comm := merge_comm

/-- A combiner whose `merge` is a commutative monoid operation with unit `create` and whose
    `add_input a v` is `merge a (inj v)` is mergeable with `R = Eq`. -/
theorem Mergeable.ofMonoid {V A O : Type} (c : Combiner V A O) (inj : V → A)
    (h_add : ∀ a v, c.add a v = c.merge a (inj v))
    (h_assoc : ∀ a b d, c.merge (c.merge a b) d = c.merge a (c.merge b d))
    (h_idl : ∀ a, c.merge c.create a = a)
    (h_comm : ∀ a b, c.merge a b = c.merge b a)
    (h_build : ∀ xs, c.build xs = c.foldAdd c.create xs) :
    Mergeable c Eq := by
  have key : ∀ (ys : List V) (a : A), c.foldAdd a ys = c.merge a (c.foldAdd c.create ys) := by
    intro ys
    induction ys with
    | nil => intro a; simp [h_comm a, h_idl]
    | cons y ys ih =>
      intro a
      simp only [Combiner.foldAdd_cons]
      rw [ih (c.add a y), ih (c.add c.create y), h_add, h_add, h_idl, h_assoc]
  refine Mergeable.ofEq c ?_ h_build (fun _ _ => h_comm _ _)
  intro xs ys
  rw [Combiner.foldAdd_append, key ys (c.foldAdd c.create xs)]

end IB
