import IbModel.Model.Window
/-!
# Helper lemmas for C13 (window arithmetic, association-list group-by). Core Lean only.
-/
namespace IB.Window

/-! ## arithmetic -/

theorem divFloor_eq' {a b : Nat} (hb : 0 < b) : divFloor a b = some (a / b) := by
  have hb' : b ≠ 0 := by omega
  simp only [divFloor, ckDiv, ckMod, hb', if_false]
  by_cases hr : a % b = 0
  · simp [hr]
  · have : a % b > 0 := by omega
    simp [this, hb]

/-- the window property of C13 for one timestamp (all four clauses) -/
def Good (w : Window) (ts size off : Nat) : Prop :=
  w.start ≤ ts ∧ ts < w.stop ∧ w.stop - w.start = size ∧ ∃ k : Int, (w.start : Int) = off + k * size

/-- closed form of the window start the current code computes -/
def startOf (ts size off : Nat) : Nat := (ts - off % size) / size * size + off % size

theorem tumble_eq_some_iff (ts size off : Nat) (w : Window) :
    tumble ts size off = some w ↔
      0 < size ∧ off % size ≤ ts ∧ startOf ts size off + size < U64 ∧
      w = ⟨startOf ts size off, startOf ts size off + size⟩ := by
  unfold tumble startOf
  by_cases hs : size = 0
  · simp [hs]
  have hpos : 0 < size := by omega
  simp only [hs, if_false, ckMod, ckSub]
  by_cases ho : off % size ≤ ts
  · simp only [ho, if_true, divFloor_eq' hpos, ckMul, ckAdd]
    by_cases h3 : (ts - off % size) / size * size + off % size + size < U64
    · have h1 : (ts - off % size) / size * size < U64 := by omega
      have h2 : (ts - off % size) / size * size + off % size < U64 := by omega
      simp only [h1, h2, h3, if_true, Option.some.injEq]
      constructor
      · intro h; exact ⟨hpos, trivial, trivial, h.symm⟩
      · intro h; exact h.2.2.2.symm
    · simp only [h3, false_and, and_false, iff_false]
      by_cases h1 : (ts - off % size) / size * size < U64
      · by_cases h2 : (ts - off % size) / size * size + off % size < U64
        · simp [h1, h2, h3]
        · simp [h1, h2]
      · simp [h1]
  · simp [ho]

theorem legacy_tumble_eq_some_iff (ts size off : Nat) (w : Window) :
    Legacy.tumble ts size off = some w ↔
      0 < size ∧ off ≤ ts ∧ (ts - off) / size * size + off + size < U64 ∧
      w = ⟨(ts - off) / size * size + off, (ts - off) / size * size + off + size⟩ := by
  unfold Legacy.tumble
  by_cases hs : size = 0
  · simp [hs]
  have hpos : 0 < size := by omega
  simp only [hs, if_false, ckSub]
  by_cases ho : off ≤ ts
  · simp only [ho, if_true, divFloor_eq' hpos, ckMul, ckAdd]
    by_cases h3 : (ts - off) / size * size + off + size < U64
    · have h1 : (ts - off) / size * size < U64 := by omega
      have h2 : (ts - off) / size * size + off < U64 := by omega
      simp only [h1, h2, h3, if_true, Option.some.injEq]
      constructor
      · intro h; exact ⟨hpos, trivial, trivial, h.symm⟩
      · intro h; exact h.2.2.2.symm
    · simp only [h3, false_and, and_false, iff_false]
      by_cases h1 : (ts - off) / size * size < U64
      · by_cases h2 : (ts - off) / size * size + off < U64
        · simp [h1, h2, h3]
        · simp [h1, h2]
      · simp [h1]
  · simp [ho]

/-- floor-division bracket: `q*b ≤ a < q*b + b` for `q = a / b` -/
theorem div_bracket (a b : Nat) (hb : 0 < b) : a / b * b ≤ a ∧ a < a / b * b + b := by
  have h1 := Nat.div_add_mod a b
  have h2 := Nat.mod_lt a hb
  have h3 : b * (a / b) = a / b * b := Nat.mul_comm _ _
  omega

/-- any start `s = o + n*size` (n natural) with `s ≤ ts < s + size` is the computed one -/
theorem start_unique_nat (ts size o n : Nat) (h1 : o + n * size ≤ ts) (h2 : ts < o + n * size + size) :
    (ts - o) / size = n := by
  have hpos : 0 < size := by omega
  have e : ts - o = (ts - (o + n * size)) + n * size := by omega
  rw [e, Nat.add_mul_div_right _ _ hpos, Nat.div_eq_of_lt (by omega)]
  omega

/-- an aligned start `off + k*size ≥ 0` (k an integer) is `off % size + n*size` for a natural `n` -/
theorem aligned_nat (s size off : Nat) (hpos : 0 < size) (k : Int) (h : (s : Int) = off + k * size) :
    ∃ n : Nat, s = off % size + n * size := by
  have hd := Nat.div_add_mod off size
  have hm := Nat.mod_lt off hpos
  -- s = off % size + (k + off / size) * size
  have e : (s : Int) = (off % size : Nat) + (k + (off / size : Nat)) * size := by
    have : (off : Int) = (size : Int) * ((off / size : Nat) : Int) + ((off % size : Nat) : Int) := by
      exact_mod_cast hd.symm
    rw [h, Int.add_mul]
    conv => lhs; rw [this]
    rw [Int.mul_comm (size : Int)]
    omega
  have hk : 0 ≤ k + ((off / size : Nat) : Int) := by
    apply Decidable.byContradiction
    intro hneg
    have h1 : k + ((off / size : Nat) : Int) ≤ -1 := by omega
    have h2 : (k + ((off / size : Nat) : Int)) * (size : Int) ≤ -1 * (size : Int) :=
      Int.mul_le_mul_of_nonneg_right h1 (by omega)
    have h3 : ((off % size : Nat) : Int) < size := by exact_mod_cast hm
    have h4 : (0 : Int) ≤ s := by omega
    omega
  obtain ⟨n, hn⟩ := Int.eq_ofNat_of_zero_le hk
  refine ⟨n, ?_⟩
  rw [hn] at e
  exact_mod_cast e

theorem good_start (w : Window) (ts size off : Nat) (h : Good w ts size off) :
    0 < size ∧ off % size ≤ ts ∧ w.start = startOf ts size off ∧ w.stop = w.start + size := by
  obtain ⟨h1, h2, h3, k, hk⟩ := h
  have hpos : 0 < size := by omega
  obtain ⟨n, hn⟩ := aligned_nat w.start size off hpos k hk
  have hq := start_unique_nat ts size (off % size) n (by omega) (by omega)
  refine ⟨hpos, by omega, ?_, by omega⟩
  unfold startOf
  rw [hq]; omega

theorem startOf_good (ts size off : Nat) (hpos : 0 < size) (ho : off % size ≤ ts) :
    Good ⟨startOf ts size off, startOf ts size off + size⟩ ts size off := by
  have hb := div_bracket (ts - off % size) size hpos
  unfold Good startOf
  refine ⟨by simp only; omega, by simp only; omega, by simp only; omega, ?_⟩
  refine ⟨((ts - off % size) / size : Nat) - (off / size : Nat), ?_⟩
  have hd := Nat.div_add_mod off size
  have : (off : Int) = (size : Int) * ((off / size : Nat) : Int) + ((off % size : Nat) : Int) := by
    exact_mod_cast hd.symm
  simp only [Int.sub_mul]
  rw [Int.mul_comm (size : Int)] at this
  push_cast
  push_cast at this
  omega

/-! ## association-list group-by -/

section GroupBy
variable {κ : Type} [DecidableEq κ] {β : Type}

def keys (m : List (κ × List β)) : List κ := m.map Prod.fst

theorem keys_upsert_mem (k0 : κ) (vs : List β) (m : List (κ × List β)) (k : κ) :
    k ∈ keys (upsert k0 vs m) ↔ k = k0 ∨ k ∈ keys m := by
  induction m with
  | nil => simp [upsert, keys]
  | cons g m ih =>
    obtain ⟨k', ws⟩ := g
    unfold upsert
    by_cases h : k' = k0
    · subst h; simp only [if_true]; simp [keys]
    · simp only [h, if_false]
      simp only [keys, List.map_cons, List.mem_cons] at ih ⊢
      rw [ih]; constructor <;> (intro h'; rcases h' with h' | h' | h' <;> simp [h'])

theorem keys_upsert_nodup (k0 : κ) (vs : List β) (m : List (κ × List β)) (h : (keys m).Nodup) :
    (keys (upsert k0 vs m)).Nodup := by
  induction m with
  | nil => simp [upsert, keys]
  | cons g m ih =>
    obtain ⟨k', ws⟩ := g
    unfold upsert
    by_cases hk : k' = k0
    · subst hk; simpa [keys] using h
    · simp only [hk, if_false]
      simp only [keys, List.map_cons, List.nodup_cons] at h ⊢
      refine ⟨?_, ih h.2⟩
      intro hmem
      have := (keys_upsert_mem k0 vs m k').mp hmem
      rcases this with h' | h'
      · exact hk h'
      · exact h.1 h'

theorem groupOf_upsert (k k0 : κ) (vs : List β) (m : List (κ × List β)) :
    groupOf k (upsert k0 vs m) = if k = k0 then groupOf k m ++ vs else groupOf k m := by
  induction m with
  | nil =>
    by_cases h : k = k0
    · subst h; simp [upsert, groupOf]
    · have h' : ¬ k0 = k := fun e => h e.symm
      simp [upsert, groupOf, h, h']
  | cons g m ih =>
    obtain ⟨k', ws⟩ := g
    unfold upsert
    by_cases hk : k' = k0
    · subst hk
      by_cases h : k = k'
      · subst h; simp [groupOf]
      · have h' : ¬ k' = k := fun e => h e.symm
        simp [groupOf, h, h']
    · simp only [hk, if_false]
      by_cases h2 : k' = k
      · subst h2
        simp [groupOf, hk]
      · simp only [groupOf, h2, if_false]
        exact ih

theorem groupOf_of_not_mem (k : κ) (m : List (κ × List β)) (h : k ∉ keys m) : groupOf k m = [] := by
  induction m with
  | nil => rfl
  | cons g m ih =>
    obtain ⟨k', ws⟩ := g
    simp only [keys, List.map_cons, List.mem_cons, not_or] at h
    have h' : ¬ k' = k := fun e => h.1 e.symm
    simp only [groupOf, h', if_false]
    exact ih h.2

theorem groupOf_of_mem (k : κ) (vs : List β) (m : List (κ × List β)) (hnd : (keys m).Nodup)
    (h : (k, vs) ∈ m) : groupOf k m = vs := by
  induction m with
  | nil => simp at h
  | cons g m ih =>
    obtain ⟨k', ws⟩ := g
    simp only [keys, List.map_cons, List.nodup_cons] at hnd
    simp only [List.mem_cons, Prod.mk.injEq] at h
    rcases h with ⟨rfl, rfl⟩ | h
    · simp [groupOf]
    · have : k' ≠ k := by
        intro e; subst e
        exact hnd.1 (List.mem_map.mpr ⟨(k', vs), h, rfl⟩)
      simp only [groupOf, this, if_false]
      exact ih hnd.2 h

theorem ungroup_upsert (k0 : κ) (vs : List β) (m : List (κ × List β)) :
    (ungroup (upsert k0 vs m)).Perm (ungroup m ++ vs.map (fun v => (k0, v))) := by
  induction m with
  | nil => simp [upsert, ungroup]
  | cons g m ih =>
    obtain ⟨k', ws⟩ := g
    unfold upsert
    by_cases hk : k' = k0
    · subst hk
      simp only [if_true, ungroup, List.flatMap_cons, List.map_append, List.append_assoc]
      exact List.Perm.append_left _ List.perm_append_comm
    · simp only [hk, if_false, ungroup, List.flatMap_cons, List.append_assoc]
      exact List.Perm.append_left _ ih

/-! ### the local stage -/

def addAll (acc : List (κ × List β)) (kvs : List (κ × β)) : List (κ × List β) :=
  kvs.foldl (fun m kv => upsert kv.1 [kv.2] m) acc

theorem addAll_nodup (acc : List (κ × List β)) (kvs : List (κ × β)) (h : (keys acc).Nodup) :
    (keys (addAll acc kvs)).Nodup := by
  induction kvs generalizing acc with
  | nil => exact h
  | cons kv kvs ih => exact ih _ (keys_upsert_nodup _ _ _ h)

theorem addAll_mem (acc : List (κ × List β)) (kvs : List (κ × β)) (k : κ) :
    k ∈ keys (addAll acc kvs) ↔ k ∈ keys acc ∨ k ∈ kvs.map Prod.fst := by
  induction kvs generalizing acc with
  | nil => simp [addAll]
  | cons kv kvs ih =>
    simp only [addAll, List.foldl_cons] at ih ⊢
    rw [ih, keys_upsert_mem]
    simp only [List.map_cons, List.mem_cons]
    grind

theorem addAll_groupOf (acc : List (κ × List β)) (kvs : List (κ × β)) (k : κ) :
    groupOf k (addAll acc kvs) = groupOf k acc ++ (kvs.filter (fun kv => kv.1 = k)).map Prod.snd := by
  induction kvs generalizing acc with
  | nil => simp [addAll]
  | cons kv kvs ih =>
    simp only [addAll, List.foldl_cons] at ih ⊢
    rw [ih, groupOf_upsert]
    by_cases h : k = kv.1
    · subst h; simp
    · have h' : ¬ kv.1 = k := fun e => h e.symm
      simp [h, h']

theorem addAll_ungroup (acc : List (κ × List β)) (kvs : List (κ × β)) :
    (ungroup (addAll acc kvs)).Perm (ungroup acc ++ kvs) := by
  induction kvs generalizing acc with
  | nil => simp [addAll]
  | cons kv kvs ih =>
    simp only [addAll, List.foldl_cons] at ih ⊢
    refine (ih _).trans ?_
    have := ungroup_upsert kv.1 [kv.2] acc
    simp only [List.map_cons, List.map_nil] at this
    have e : ungroup acc ++ kv :: kvs = (ungroup acc ++ [kv]) ++ kvs := by simp
    rw [e]
    exact List.Perm.append_right _ this

/-! ### the merge stage -/

theorem mergeInto_nodup (acc m : List (κ × List β)) (h : (keys acc).Nodup) :
    (keys (mergeInto acc m)).Nodup := by
  induction m generalizing acc with
  | nil => exact h
  | cons g m ih => exact ih _ (keys_upsert_nodup _ _ _ h)

theorem mergeInto_mem (acc m : List (κ × List β)) (k : κ) :
    k ∈ keys (mergeInto acc m) ↔ k ∈ keys acc ∨ k ∈ keys m := by
  induction m generalizing acc with
  | nil => simp [mergeInto, keys]
  | cons g m ih =>
    simp only [mergeInto, List.foldl_cons] at ih ⊢
    rw [ih, keys_upsert_mem]
    simp only [keys, List.map_cons, List.mem_cons]
    grind

theorem mergeInto_groupOf (acc m : List (κ × List β)) (hm : (keys m).Nodup) (k : κ) :
    groupOf k (mergeInto acc m) = groupOf k acc ++ groupOf k m := by
  induction m generalizing acc with
  | nil => simp [mergeInto, groupOf]
  | cons g m ih =>
    obtain ⟨k', ws⟩ := g
    simp only [keys, List.map_cons, List.nodup_cons] at hm
    simp only [mergeInto, List.foldl_cons] at ih ⊢
    rw [ih _ hm.2, groupOf_upsert]
    by_cases h : k = k'
    · subst h
      have : groupOf k m = [] := groupOf_of_not_mem k m hm.1
      simp [groupOf, this]
    · have h' : ¬ k' = k := fun e => h e.symm
      simp [groupOf, h, h']

theorem mergeInto_ungroup (acc m : List (κ × List β)) :
    (ungroup (mergeInto acc m)).Perm (ungroup acc ++ ungroup m) := by
  induction m generalizing acc with
  | nil => simp [mergeInto, ungroup]
  | cons g m ih =>
    simp only [mergeInto, List.foldl_cons] at ih ⊢
    refine (ih _).trans ?_
    have := ungroup_upsert g.1 g.2 acc
    have e : ungroup (g :: m) = g.2.map (fun v => (g.1, v)) ++ ungroup m := by
      simp [ungroup]
    rw [e, ← List.append_assoc]
    exact List.Perm.append_right _ this

def mergeAll (acc : List (κ × List β)) (ms : List (List (κ × List β))) : List (κ × List β) :=
  ms.foldl mergeInto acc

theorem mergeAll_nodup (acc : List (κ × List β)) (ms : List (List (κ × List β)))
    (h : (keys acc).Nodup) : (keys (mergeAll acc ms)).Nodup := by
  induction ms generalizing acc with
  | nil => exact h
  | cons m ms ih => exact ih _ (mergeInto_nodup _ _ h)

theorem mergeAll_mem (acc : List (κ × List β)) (ms : List (List (κ × List β))) (k : κ) :
    k ∈ keys (mergeAll acc ms) ↔ k ∈ keys acc ∨ ∃ m ∈ ms, k ∈ keys m := by
  induction ms generalizing acc with
  | nil => simp [mergeAll]
  | cons m ms ih =>
    simp only [mergeAll, List.foldl_cons] at ih ⊢
    rw [ih, mergeInto_mem]
    simp only [List.mem_cons, exists_eq_or_imp, or_assoc]

theorem mergeAll_groupOf (acc : List (κ × List β)) (ms : List (List (κ × List β)))
    (hms : ∀ m ∈ ms, (keys m).Nodup) (k : κ) :
    groupOf k (mergeAll acc ms) = groupOf k acc ++ ms.flatMap (groupOf k) := by
  induction ms generalizing acc with
  | nil => simp [mergeAll]
  | cons m ms ih =>
    simp only [mergeAll, List.foldl_cons] at ih ⊢
    rw [ih _ (fun m' hm' => hms m' (List.mem_cons_of_mem _ hm')),
      mergeInto_groupOf _ _ (hms m (List.mem_cons_self ..))]
    simp [List.flatMap_cons]

theorem mergeAll_ungroup (acc : List (κ × List β)) (ms : List (List (κ × List β))) :
    (ungroup (mergeAll acc ms)).Perm (ungroup acc ++ ms.flatMap ungroup) := by
  induction ms generalizing acc with
  | nil => simp [mergeAll]
  | cons m ms ih =>
    simp only [mergeAll, List.foldl_cons] at ih ⊢
    refine (ih _).trans ?_
    rw [List.flatMap_cons, ← List.append_assoc]
    exact List.Perm.append_right _ (mergeInto_ungroup acc m)

/-! ### `group_by_key` over any partition list -/

theorem groupLocal_eq (kvs : List (κ × β)) : groupLocal kvs = addAll [] kvs := rfl
theorem groupMerge_eq (ms : List (List (κ × List β))) : groupMerge ms = mergeAll [] ms := rfl

theorem gbk_nodup (parts : List (List (κ × β))) : (keys (groupByKeyPar parts)).Nodup := by
  unfold groupByKeyPar
  rw [groupMerge_eq]
  exact mergeAll_nodup _ _ (by simp [keys])

theorem gbk_groupOf (parts : List (List (κ × β))) (k : κ) :
    groupOf k (groupByKeyPar parts) = (parts.flatten.filter (fun kv => kv.1 = k)).map Prod.snd := by
  unfold groupByKeyPar
  rw [groupMerge_eq, mergeAll_groupOf]
  · simp only [groupOf, List.nil_append]
    induction parts with
    | nil => simp
    | cons p ps ih =>
      simp only [List.map_cons, List.flatMap_cons, List.flatten_cons, List.filter_append,
        List.map_append, ih]
      rw [groupLocal_eq, addAll_groupOf]; simp [groupOf]
  · intro m hm
    obtain ⟨p, _, rfl⟩ := List.mem_map.mp hm
    rw [groupLocal_eq]; exact addAll_nodup _ _ (by simp [keys])

theorem gbk_mem (parts : List (List (κ × β))) (k : κ) :
    k ∈ keys (groupByKeyPar parts) ↔ k ∈ parts.flatten.map Prod.fst := by
  unfold groupByKeyPar
  rw [groupMerge_eq, mergeAll_mem]
  simp only [keys, List.map_nil, List.not_mem_nil, false_or, List.mem_map, List.mem_flatten]
  constructor
  · rintro ⟨m, ⟨p, hp, rfl⟩, hk⟩
    have := (addAll_mem [] p k).mp (by simpa [keys, groupLocal_eq] using hk)
    simp only [keys, List.map_nil, List.not_mem_nil, false_or, List.mem_map] at this
    obtain ⟨kv, hkv, rfl⟩ := this
    exact ⟨kv, ⟨p, hp, hkv⟩, rfl⟩
  · rintro ⟨kv, ⟨p, hp, hkv⟩, rfl⟩
    refine ⟨groupLocal p, ⟨p, hp, rfl⟩, ?_⟩
    have := (addAll_mem [] p kv.1).mpr (Or.inr (List.mem_map.mpr ⟨kv, hkv, rfl⟩))
    simpa [keys, groupLocal_eq] using this

theorem gbk_ungroup (parts : List (List (κ × β))) :
    (ungroup (groupByKeyPar parts)).Perm parts.flatten := by
  unfold groupByKeyPar
  rw [groupMerge_eq]
  refine (mergeAll_ungroup _ _).trans ?_
  simp only [ungroup, List.flatMap_nil, List.nil_append]
  induction parts with
  | nil => simp
  | cons p ps ih =>
    simp only [List.map_cons, List.flatMap_cons, List.flatten_cons]
    refine List.Perm.append ?_ ih
    have := addAll_ungroup ([] : List (κ × List β)) p
    simpa [ungroup, groupLocal_eq] using this

/-! ### a grouping with distinct keys is determined, up to the order of its rows, by `groupOf` -/

theorem groupOf_cons_ne (k k' : κ) (ws : List β) (m : List (κ × List β)) (h : k' ≠ k) :
    groupOf k ((k', ws) :: m) = groupOf k m := by
  simp [groupOf, h]

theorem eq_map_groupOf (m : List (κ × List β)) (h : (keys m).Nodup) :
    m = (keys m).map (fun k => (k, groupOf k m)) := by
  induction m with
  | nil => rfl
  | cons g m ih =>
    obtain ⟨k', ws⟩ := g
    simp only [keys, List.map_cons, List.nodup_cons] at h
    simp only [keys, List.map_cons, groupOf, if_true, List.cons.injEq, true_and]
    have := ih h.2
    simp only [keys] at this
    conv => lhs; rw [this]
    apply List.map_congr_left
    intro k hk
    have hne : k' ≠ k := by
      intro e; subst e; exact h.1 hk
    simp [hne]

/-- two groupings with distinct keys, the same key set and the same group for every key are the same
    rows in a possibly different order (the order a `HashMap` iteration happens to produce) -/
theorem groups_perm_of_groupOf_eq (gs gs' : List (κ × List β))
    (hn : (keys gs).Nodup) (hn' : (keys gs').Nodup)
    (hm : ∀ k, k ∈ keys gs ↔ k ∈ keys gs') (hg : ∀ k, groupOf k gs = groupOf k gs') :
    gs.Perm gs' := by
  have hp : (keys gs).Perm (keys gs') := (List.perm_ext_iff_of_nodup hn hn').mpr hm
  rw [eq_map_groupOf gs hn, eq_map_groupOf gs' hn']
  have hf : (fun k => (k, groupOf k gs)) = (fun k => (k, groupOf k gs')) := by
    funext k; rw [hg k]
  rw [hf]
  exact hp.map _

end GroupBy

/-- in an association list with distinct keys, the rows carrying the key of a member are that member alone -/
theorem filter_key_of_nodup {κ : Type} [DecidableEq κ] {γ : Type} (gs : List (κ × γ)) (h : (gs.map Prod.fst).Nodup) (a : κ × γ) (ha : a ∈ gs) :
    gs.filter (fun b => b.1 = a.1) = [a] := by
  induction gs with
  | nil => cases ha
  | cons g rest ih =>
    simp only [List.map_cons, List.nodup_cons] at h
    rcases List.mem_cons.mp ha with rfl | ha'
    · have hnone : rest.filter (fun b => decide (b.1 = a.1)) = [] := by
        rw [List.filter_eq_nil_iff]
        intro b hb hk
        exact h.1 (List.mem_map.mpr ⟨b, hb, of_decide_eq_true hk⟩)
      simp [hnone]
    · have hne : g.1 ≠ a.1 := fun e => h.1 (e ▸ List.mem_map.mpr ⟨a, ha', rfl⟩)
      simp [hne, ih h.2 ha']

theorem flatMap_eq_map_of_singleton {α β : Type} (l : List α) (f : α → List β) (g : α → β)
    (h : ∀ a ∈ l, f a = [g a]) : l.flatMap f = l.map g := by
  induction l with
  | nil => rfl
  | cons a l ih =>
    rw [List.flatMap_cons, List.map_cons, h a List.mem_cons_self, ih (fun b hb => h b (List.mem_cons_of_mem _ hb))]
    rfl

/-! ## maps that may panic, keyed maps -/

section MapAll
variable {α κ β : Type}

theorem mapAll_eq_none_iff {α β : Type} (f : α → Option β) (xs : List α) :
    mapAll f xs = none ↔ ∃ x ∈ xs, f x = none := by
  induction xs with
  | nil => simp [mapAll]
  | cons x xs ih =>
    unfold mapAll
    cases hx : f x with
    | none => simp [hx]
    | some y =>
      cases hm : mapAll f xs with
      | none => simp only [List.mem_cons, exists_eq_or_imp, hx]; simpa [hm] using ih
      | some ys => simp only [List.mem_cons, exists_eq_or_imp, hx]; simpa [hm] using ih

theorem mapAll_flatten {α β : Type} (f : α → Option β) (parts : List (List α)) (kparts : List (List β))
    (h : mapAll (mapAll f) parts = some kparts) : mapAll f parts.flatten = some kparts.flatten := by
  induction parts generalizing kparts with
  | nil => simp only [mapAll, Option.some.injEq] at h; subst h; simp [mapAll]
  | cons p ps ih =>
    unfold mapAll at h
    cases hp : mapAll f p with
    | none => simp [hp] at h
    | some kp =>
      cases hps : mapAll (mapAll f) ps with
      | none => simp [hp, hps] at h
      | some kps =>
        simp only [hp, hps, Option.some.injEq] at h; subst h
        have ih' := ih kps hps
        simp only [List.flatten_cons]
        clear hps ih
        induction p generalizing kp with
        | nil => simp only [mapAll, Option.some.injEq] at hp; subst hp; simpa using ih'
        | cons x xs ihx =>
          unfold mapAll at hp
          cases hx : f x with
          | none => simp [hx] at hp
          | some y =>
            cases hxs : mapAll f xs with
            | none => simp [hx, hxs] at hp
            | some ys =>
              simp only [hx, hxs, Option.some.injEq] at hp; subst hp
              simp only [List.cons_append, mapAll, hx, ihx ys hxs]

/-- `mapAll f xs` returns `ys` iff `f` returns on every element and `ys` is the list of results,
    position by position -/
theorem mapAll_eq_some_iff {α β : Type} (f : α → Option β) (xs : List α) (ys : List β) :
    mapAll f xs = some ys ↔ xs.map f = ys.map some := by
  induction xs generalizing ys with
  | nil =>
    cases ys with
    | nil => simp [mapAll]
    | cons y ys => simp [mapAll]
  | cons x xs ih =>
    unfold mapAll
    cases hx : f x with
    | none =>
      cases ys with
      | nil => simp
      | cons y ys => simp [hx]
    | some y' =>
      cases hm : mapAll f xs with
      | none =>
        cases ys with
        | nil => simp
        | cons y ys =>
          have hno : ¬ xs.map f = ys.map some := fun e => by
            have := (ih ys).mpr e
            rw [hm] at this; cases this
          simp only [List.map_cons, List.cons.injEq, hx, Option.some.injEq, reduceCtorEq, false_iff, not_and]
          intro _; exact hno
      | some ys' =>
        cases ys with
        | nil => simp
        | cons y ys =>
          have := ih ys
          rw [hm] at this
          simp only [Option.some.injEq] at this
          simp only [Option.some.injEq, List.cons.injEq, List.map_cons, hx, this]

/-- running a possibly panicking map on every partition and concatenating = running it on the
    concatenation (both panic, or both return the same list) -/
theorem mapAll_parts_flatten {α β : Type} (f : α → Option β) (parts : List (List α)) :
    (mapAll (mapAll f) parts).map List.flatten = mapAll f parts.flatten := by
  cases h : mapAll (mapAll f) parts with
  | some kparts => rw [Option.map_some, mapAll_flatten f parts kparts h]
  | none =>
    rw [Option.map_none]
    obtain ⟨p, hp, hnone⟩ := (mapAll_eq_none_iff _ _).mp h
    obtain ⟨x, hx, hfx⟩ := (mapAll_eq_none_iff _ _).mp hnone
    exact ((mapAll_eq_none_iff _ _).mpr ⟨x, List.mem_flatten.mpr ⟨p, hp, hx⟩, hfx⟩).symm

theorem mapAll_keyed_filter [DecidableEq κ] (g : α → Option κ) (v : α → β) (xs : List α) (ys : List (κ × β))
    (h : mapAll (keyed g v) xs = some ys) (k : κ) :
    (ys.filter (fun kv => kv.1 = k)).map Prod.snd = (xs.filter (fun x => g x = some k)).map v := by
  induction xs generalizing ys with
  | nil => simp only [mapAll, Option.some.injEq] at h; subst h; simp
  | cons x xs ih =>
    unfold mapAll at h
    cases hx : keyed g v x with
    | none => simp [hx] at h
    | some y =>
      cases hxs : mapAll (keyed g v) xs with
      | none => simp [hx, hxs] at h
      | some ys' =>
        simp only [hx, hxs, Option.some.injEq] at h; subst h
        unfold keyed at hx
        cases hg : g x with
        | none => simp [hg] at hx
        | some k' =>
          simp only [hg, Option.map_some, Option.some.injEq] at hx; subst hx
          by_cases hk : k' = k
          · subst hk; simp [hg, ih ys' hxs]
          · simp [hg, hk, ih ys' hxs]

theorem mapAll_keyed_keys (g : α → Option κ) (v : α → β) (xs : List α) (ys : List (κ × β))
    (h : mapAll (keyed g v) xs = some ys) :
    ys.map Prod.fst = xs.filterMap g ∧ ys.map Prod.snd = xs.map v ∧ ∀ x ∈ xs, (g x).isSome := by
  induction xs generalizing ys with
  | nil => simp only [mapAll, Option.some.injEq] at h; subst h; simp
  | cons x xs ih =>
    unfold mapAll at h
    cases hx : keyed g v x with
    | none => simp [hx] at h
    | some y =>
      cases hxs : mapAll (keyed g v) xs with
      | none => simp [hx, hxs] at h
      | some ys' =>
        simp only [hx, hxs, Option.some.injEq] at h; subst h
        unfold keyed at hx
        cases hg : g x with
        | none => simp [hg] at hx
        | some k' =>
          simp only [hg, Option.map_some, Option.some.injEq] at hx; subst hx
          obtain ⟨i1, i2, i3⟩ := ih ys' hxs
          refine ⟨by simp [hg, i1], by simp [i2], ?_⟩
          intro x' hx'
          rcases List.mem_cons.mp hx' with rfl | hx'
          · simp [hg]
          · exact i3 x' hx'

/-- a map that returns wherever `f` returns (and the same value) returns on every list `f` returns on -/
theorem mapAll_mono {α β : Type} (f f' : α → Option β) (h : ∀ x y, f x = some y → f' x = some y)
    (xs : List α) (ys : List β) (hm : mapAll f xs = some ys) : mapAll f' xs = some ys := by
  rw [mapAll_eq_some_iff] at hm ⊢
  induction xs generalizing ys with
  | nil => simpa using hm
  | cons x xs ih =>
    cases ys with
    | nil => simp at hm
    | cons y ys =>
      simp only [List.map_cons, List.cons.injEq] at hm ⊢
      exact ⟨h x y hm.1, ih ys hm.2⟩

end MapAll

end IB.Window
