import IbModel.Proofs.Elementwise
import IbModel.Proofs.PlannerSem
import IbModel.Proofs.ParSeq
/-!
# C02 helpers (2): the planned element-wise chain, sequentially and in parallel
-/
namespace IB
open Val

/-! ## shape of the fused element-wise chain -/

theorem fuse_map_toNode (steps : List EStep) (hne : steps ≠ []) :
    fuse (steps.map EStep.toNode) = [.stateless (steps.map EStep.toOp)] := by
  induction steps with
  | nil => exact absurd rfl hne
  | cons s rest ih =>
    cases rest with
    | nil => rfl
    | cons t rest' =>
      have := ih (by simp)
      show fuse (.stateless [s.toOp] :: (t :: rest').map EStep.toNode) = _
      rw [fuse, this]
      rfl

theorem fuse_elemChain (xs : List Val) (steps : List EStep) :
    fuse (elemChain xs steps)
      = vecSource xs :: (if steps = [] then [] else [.stateless (steps.map EStep.toOp)]) := by
  unfold elemChain vecSource
  rw [fuse_source]
  by_cases h : steps = []
  · subst h; rfl
  · rw [fuse_map_toNode steps h]; simp [h]

theorem elemChain_isElem (xs : List Val) (steps : List EStep) :
    ∀ n ∈ elemChain xs steps, Node.isElem n = true := by
  intro n hn
  rcases List.mem_cons.mp hn with rfl | hn
  · rfl
  · obtain ⟨s, _, rfl⟩ := List.mem_map.mp hn
    rfl

/-- for an element-wise program `ReorderInert` is a statement about ONE block: all its operators -/
theorem reorderInert_elemChain_iff (xs : List Val) (steps : List EStep) :
    ReorderInert (elemChain xs steps) ↔ BlockInert (steps.map EStep.toOp) := by
  unfold ReorderInert
  rw [fuse_elemChain]
  by_cases h : steps = []
  · subst h
    simp [vecSource, InertChain, BlockInert]
  · simp [h, vecSource, InertChain]

theorem commuting_elemChain_iff (xs : List Val) (steps : List EStep) :
    CommutingChain (fuse (elemChain xs steps)) ↔
      ∀ rows, applyOps (reorderBlock (steps.map EStep.toOp)) rows = interp steps rows := by
  rw [fuse_elemChain]
  by_cases h : steps = []
  · subst h
    simp [vecSource, CommutingChain, reorderBlock]
  · simp [h, vecSource, CommutingChain, applyOps_toOp]

/-! ## sequential: planned = literal = interp -/

theorem planned_seq_of_inert (xs : List Val) (steps : List EStep)
    (h : ReorderInert (elemChain xs steps)) :
    execSeq (optimise (elemChain xs steps)) = .ok (interp steps xs) := by
  rw [optimise_of_isElem_inert _ (elemChain_isElem xs steps) h, fuse_sem', execSeq_elemChain]

/-- the planner on an element-wise chain, without any hypothesis: source + one (possibly permuted) block -/
theorem optimise_elemChain (xs : List Val) (steps : List EStep) :
    optimise (elemChain xs steps)
      = vecSource xs ::
          (if steps = [] then [] else [.stateless (reorderBlock (steps.map EStep.toOp))]) := by
  unfold optimise
  rw [fuse_elemChain]
  by_cases h : steps = []
  · subst h; rfl
  · simp only [h, ↓reduceIte]
    rfl

theorem execSeq_source_block (xs : List Val) (ops : List (DynOp Part)) :
    execSeq [vecSource xs, .stateless ops] = .ok (applyOps ops xs) := rfl

/-- what the planned sequential run computes, for EVERY element-wise program: the whole block in
    the planner's order -/
theorem planned_seq_eq (xs : List Val) (steps : List EStep) :
    execSeq (optimise (elemChain xs steps))
      = .ok (applyOps (reorderBlock (steps.map EStep.toOp)) xs) := by
  rw [optimise_elemChain]
  by_cases h : steps = []
  · subst h; rfl
  · simp only [h, ↓reduceIte]; rfl

theorem planned_seq_of_commuting (xs : List Val) (steps : List EStep)
    (h : CommutingChain (fuse (elemChain xs steps))) :
    execSeq (optimise (elemChain xs steps)) = .ok (interp steps xs) := by
  rw [planned_seq_eq, (commuting_elemChain_iff xs steps).mp h]

/-! ## parallel: the partition-homomorphism contract -/

/-- the side condition on batch steps: the chunk function is element-wise (as the operator's
    documentation demands for partition-independent results); the six plain steps need nothing -/
def EStep.ParOK : EStep → Prop
  | .mapBatches _ f => ∃ g : Val → List Val, ∀ c, f c = c.flatMap g
  | .mapValuesBatches _ f => ∃ g : Val → Val, ∀ c, f c = c.map g
  | _ => True

theorem flatMap_flatten' {α β : Type} (g : α → List β) (ps : List (List α)) :
    ps.flatten.flatMap g = (ps.map (fun p => p.flatMap g)).flatten := by
  induction ps with
  | nil => rfl
  | cons p ps ih => simp [List.flatMap_append, ih]

theorem batch_elementwise (n : Nat) (hn : 1 ≤ n) (g : Val → List Val) (rows : List Val) :
    (chunks n rows).flatMap (fun c => c.flatMap g) = rows.flatMap g := by
  have h := chunksOf_flatten n hn rows.length rows (Nat.le_refl _)
  have := flatMap_flatten' g (chunks n rows)
  unfold chunks at *
  rw [h] at this
  rw [this, List.flatMap_def]

theorem zip_keys (g : Val → Val) (c : List Val) :
    List.zipWith (fun r o => Val.pair r.key o) c ((c.map Val.value).map g)
      = c.map (fun r => .pair r.key (g r.value)) := by
  induction c with
  | nil => rfl
  | cons r c ih =>
    simp only [List.map_cons, List.zipWith_cons_cons, List.cons.injEq, true_and]
    exact ih

/-- an element-wise chunk function keeps the chunk length, so the length assertion never fires -/
theorem rekeyChunk_map (g : Val → Val) (c : List Val) :
    rekeyChunk c ((c.map Val.value).map g) = c.map (fun r => .pair r.key (g r.value)) := by
  unfold rekeyChunk
  rw [if_pos (by simp), zip_keys]

theorem batchValues_elementwise (n : Nat) (hn : 1 ≤ n) (g : Val → Val) (rows : List Val) :
    (chunks n rows).flatMap
        (fun c => rekeyChunk c ((c.map Val.value).map g))
      = rows.map (fun r => .pair r.key (g r.value)) := by
  have h := chunksOf_flatten n hn rows.length rows (Nat.le_refl _)
  simp only [rekeyChunk_map]
  rw [List.flatMap_def, ← List.map_flatten]
  unfold chunks
  rw [h]

/-- every element-wise operator commutes with concatenation of partitions -/
theorem toOp_flatten (s : EStep) (h : s.ParOK) (ps : List Part) :
    s.toOp.apply ps.flatten = (ps.map s.toOp.apply).flatten := by
  cases s with
  | map f => exact List.map_flatten
  | filter p => exact List.filter_flatten
  | flatMap f => exact flatMap_flatten' f ps
  | keyBy f => exact List.map_flatten
  | mapValues f => exact List.map_flatten
  | filterValues p => exact List.filter_flatten
  | mapBatches n f =>
    obtain ⟨g, hg⟩ := h
    have hf : f = fun c => c.flatMap g := funext hg
    subst hf
    show (chunks (max n 1) ps.flatten).flatMap _ = (ps.map fun rows => (chunks (max n 1) rows).flatMap _).flatten
    rw [batch_elementwise _ (by omega)]
    simp only [batch_elementwise _ (show 1 ≤ max n 1 by omega)]
    exact flatMap_flatten' g ps
  | mapValuesBatches n f =>
    obtain ⟨g, hg⟩ := h
    have hf : f = fun c => c.map g := funext hg
    subst hf
    show (chunks (max n 1) ps.flatten).flatMap _ = (ps.map fun rows => (chunks (max n 1) rows).flatMap _).flatten
    rw [batchValues_elementwise _ (by omega)]
    simp only [batchValues_elementwise _ (show 1 ≤ max n 1 by omega)]
    exact List.map_flatten

theorem toNode_subNodeOK (s : EStep) (h : s.ParOK) : SubNodeOK List.flatten s.toNode := by
  intro op hop ps
  have : op = s.toOp := by simpa using hop
  subst this
  exact toOp_flatten s h ps

/-- `VecOpsImpl::split` loses and reorders nothing, for EVERY requested partition count -/
theorem vecSplit_flatten' (xs : List Val) (n : Nat) : (vecSplit xs n).flatten = xs := by
  unfold vecSplit
  split
  · simp
  · next h =>
    have h1 : 2 ≤ n := by omega
    have h2 : 2 ≤ xs.length := by omega
    have hk : 1 ≤ (xs.length + n - 1) / n := by
      apply (Nat.le_div_iff_mul_le (by omega)).mpr
      omega
    exact chunksOf_flatten _ hk xs.length xs (Nat.le_refl _)

theorem elemChain_nodeOK (steps : List EStep) (hp : ∀ s ∈ steps, s.ParOK) :
    ∀ nd ∈ steps.map EStep.toNode, NodeOK List.flatten nd := by
  intro nd hnd
  obtain ⟨s, hs, rfl⟩ := List.mem_map.mp hnd
  exact toNode_subNodeOK s (hp s hs)

/-- parallel = sequential on the FUSED chain, any partition count -/
theorem execPar_fuse_elemChain (xs : List Val) (steps : List EStep) (hp : ∀ s ∈ steps, s.ParOK)
    (n : Nat) :
    execPar List.flatten (fuse (elemChain xs steps)) n = .ok (interp steps xs) := by
  rw [fuse_sem_par']
  unfold elemChain vecSource
  rw [execPar_eq_execSeq List.flatten (by simp) xs xs.length (vecSplit xs) (vecSplit_flatten' xs)
    _ (elemChain_nodeOK steps hp) n]
  exact execSeq_elemChain xs steps

theorem planned_par_of_inert (xs : List Val) (steps : List EStep)
    (h : ReorderInert (elemChain xs steps)) (hp : ∀ s ∈ steps, s.ParOK) (n : Nat) :
    execPar List.flatten (optimise (elemChain xs steps)) n = .ok (interp steps xs) := by
  rw [optimise_of_isElem_inert _ (elemChain_isElem xs steps) h]
  exact execPar_fuse_elemChain xs steps hp n

/-! ## `List.mergeSort` on two elements (it does not reduce under `decide`) -/

theorem mergeSort_pair {α : Type} (le : α → α → Bool) (a b : α) :
    [a, b].mergeSort le = if le a b then [a, b] else [b, a] := by
  rw [List.mergeSort]
  simp [List.MergeSort.Internal.splitInTwo, List.merge]

theorem reorderBlock_pair_swap {P : Type} (a b : DynOp P) (ha : movable a = true)
    (hb : movable b = true) (hle : keyLe (sortKey a) (sortKey b) = false) :
    reorderBlock [a, b] = [b, a] := by
  simp [reorderBlock, ha, hb, mergeSort_pair, hle]

/-! ## which element-wise operators the planner may move -/

def EStep.isValueOnly : EStep → Bool
  | .mapValues _ | .filterValues _ | .mapValuesBatches _ _ => true
  | _ => false

theorem movable_toOp (s : EStep) : movable s.toOp = s.isValueOnly := by
  cases s <;> rfl

end IB

namespace IB

/-- the planned parallel run of EVERY element-wise program: the planner's block applied to each
    part of the split, parts appended in order -/
theorem planned_par_eq (xs : List Val) (steps : List EStep) (n : Nat) :
    execPar List.flatten (optimise (elemChain xs steps)) n
      = .ok (((vecSplit xs (clampParts n xs.length)).map
          (applyOps (reorderBlock (steps.map EStep.toOp)))).flatten) := by
  rw [optimise_elemChain]
  by_cases h : steps = []
  · subst h
    show (pure (coalesce List.flatten (vecSplit xs (clampParts n xs.length))) : M Part) = _
    rw [coalesce_eq List.flatten (by simp)]
    simp [reorderBlock, applyOps_nil']
    rfl
  · simp only [h, ↓reduceIte]
    show (pure (coalesce List.flatten _) : M Part) = _
    rw [coalesce_eq List.flatten (by simp)]
    rfl

/-- the movability contract read off a row of the generated table -/
def Generated.OpFlags.movable (fl : Generated.OpFlags) : Bool :=
  fl.valueOnly && fl.keyPreserving && fl.reorderSafe

theorem movable_withFlags (fl : Generated.OpFlags) (ap : Part → Part) :
    IB.movable (withFlags fl ap) = fl.movable := rfl

theorem sortKey_withFlags (fl : Generated.OpFlags) (ap : Part → Part) :
    sortKey (withFlags fl ap) = (if fl.cost != 1 then 1 else 0, fl.cost) := rfl

/-! ## functions used by the witnesses and the non-vacuity examples -/
namespace C02W

def add1 (v : Val) : Val := .int (v.toInt + 1)
def isEven (v : Val) : Bool := v.toInt % 2 == 0
/-- a chunk function that looks across its slice: every value becomes the sum of the chunk -/
def sumall (c : List Val) : List Val := c.map (fun _ => .int ((c.map Val.toInt).foldl (· + ·) 0))
def kv (k v : Int) : Val := .pair (.int k) (.int v)

end C02W
end IB
