import IbModel.Proofs.Validation
import IbModel.Model.Engine
/-!
Helper lemmas for C17: **C17's run functions are the shared engine model** (`Model/Engine.lean`, the
transliteration of `runner.rs::exec_seq / exec_par` every pipeline property uses) run on C17's chains.

The engine model is generic in the partition type `P` and its operators are pure functions `P → P`. A validator is
not pure: it pushes into the shared collector and may `panic!`. The bridge is the choice of `P`: an
*effect-carrying partition* `Run α ε` = what this partition holds now (`output`, `none` once a `panic!` unwound
it), what has been pushed on its behalf so far (`collector`) and the panics raised (`panics`). A step of a fused
block becomes the `DynOp` `dynOfStep s` (nothing more happens to a partition that has panicked; otherwise the
step's rows, pushes and panic are appended), the terminal concatenation of partitions is `concatRuns`, a barrier's
`merge` is `concatRuns` followed by the regrouping of the rows. With that `P`, `execSeq` / `execPar` of the chain
`Source → Stateless(block)` ARE `runSeq` / `runPar` of the block (`execSeq_chainOf`, `execPar_chainOf`), and with
barriers `runStages` (`execSeq_chainStages`, `execPar_chainStages`): same clamp of the partition count, same split,
every operator of the block applied in order to every partition, partitions concatenated in order, ONE partition
after a barrier.
-/
namespace IB.Validation

variable {α ε : Type}

/-- one partition's `Outcome` as an effect-carrying partition -/
def toRun (o : Outcome α ε) : Run α ε :=
  { output := if o.panic.isNone then some o.valid else none, collector := o.pushes, panics := o.panic.toList }

/-- a source partition: rows, nothing pushed, nothing panicked -/
def liftPart (rows : List α) : Run α ε := ⟨some rows, [], []⟩

/-- `r`, then the block `b` on the rows `r` holds (nothing when `r` has panicked) -/
def extend (r : Run α ε) (b : List α → Outcome α ε) : Run α ε :=
  match r.output with
  | none => r
  | some rows =>
    let o := b rows
    { output := if o.panic.isNone then some o.valid else none
      collector := r.collector ++ o.pushes
      panics := r.panics ++ o.panic.toList }

/-- a step of a fused block as an operator of the engine model -/
def dynOfStep (s : BlockOp α ε) : IB.DynOp (Run α ε) := { apply := fun r => extend r (blockOp [s]) }

/-- the terminal concatenation (`out.extend(v)` partition by partition) / the input of a barrier's `merge` -/
def concatRuns (ps : List (Run α ε)) : Run α ε :=
  { output := if ps.all (·.output.isSome) then some (ps.flatMap (fun p => p.output.getD [])) else none
    collector := ps.flatMap (·.collector)
    panics := ps.flatMap (·.panics) }

/-- the rows of a partition rearranged (what `group_by_key` + ungroup does to them) -/
def regroupRun (regroup : List α → List α) (r : Run α ε) : Run α ε := { r with output := r.output.map regroup }

/-- `Source(rows) → Stateless(ops)` -/
def chainOf (ops : List (BlockOp α ε)) (rows : List α) : List (IB.Node (Run α ε)) :=
  [.source (liftPart rows) rows.length (fun n => (split n rows).map liftPart), .stateless (ops.map dynOfStep)]

/-- `Source(rows) → Stateless(first) → (GroupByKey → Stateless(b))*` -/
def chainStages (regroup : List α → List α) (first : List (BlockOp α ε)) (later : List (List (BlockOp α ε)))
    (rows : List α) : List (IB.Node (Run α ε)) :=
  chainOf first rows ++ later.flatMap (fun b =>
    [.gbk id (fun ps => regroupRun regroup (concatRuns ps)), .stateless (b.map dynOfStep)])

/-! ### blocks -/

theorem applyBlock_prefix (b : List (BlockOp α ε)) (v : List α) (p : List (RecordError ε)) :
    applyBlock b ⟨v, p, none⟩
      = ⟨(blockOp b v).valid, p ++ (blockOp b v).pushes, (blockOp b v).panic⟩ := by
  unfold blockOp
  induction b generalizing v p with
  | nil => simp [applyBlock]
  | cons s b ih =>
    cases s with
    | map f => simp only [applyBlock, Option.isSome_none, Bool.false_eq_true, ↓reduceIte]; rw [ih, ih (p := [])]
    | filter q => simp only [applyBlock, Option.isSome_none, Bool.false_eq_true, ↓reduceIte]; rw [ih, ih (p := [])]
    | validator op =>
      simp only [applyBlock, Option.isSome_none, Bool.false_eq_true, ↓reduceIte, List.nil_append]
      cases hp : (op v).panic with
      | some e =>
        rw [applyBlock_of_panicked _ _ (by simp), applyBlock_of_panicked _ _ (by simp)]
      | none =>
        rw [ih, ih (p := (op v).pushes)]
        simp [List.append_assoc]

theorem extend_nil (r : Run α ε) : extend r (blockOp []) = r := by
  obtain ⟨o, c, p⟩ := r
  cases o <;> simp [extend, blockOp, applyBlock]

theorem extend_extend (r : Run α ε) (a b : List (BlockOp α ε)) :
    extend (extend r (blockOp a)) (blockOp b) = extend r (blockOp (a ++ b)) := by
  obtain ⟨o, c, p⟩ := r
  cases o with
  | none => simp [extend]
  | some rows =>
    have hab : blockOp (a ++ b) rows = applyBlock b (blockOp a rows) := by
      unfold blockOp; rw [applyBlock_append]
    cases hp : (blockOp a rows).panic with
    | some e =>
      have : blockOp (a ++ b) rows = blockOp a rows := by
        rw [hab, applyBlock_of_panicked _ _ (by simp [hp])]
      simp [extend, hp, this]
    | none =>
      have h2 : blockOp (a ++ b) rows
          = ⟨(blockOp b (blockOp a rows).valid).valid,
             (blockOp a rows).pushes ++ (blockOp b (blockOp a rows).valid).pushes,
             (blockOp b (blockOp a rows).valid).panic⟩ := by
        rw [hab, ← applyBlock_prefix]
        congr 1
        cases h : blockOp a rows
        simp_all
      simp [extend, hp, h2, List.append_assoc]

theorem applyOps_dyn (ops : List (BlockOp α ε)) (r : Run α ε) :
    IB.applyOps (ops.map dynOfStep) r = extend r (blockOp ops) := by
  unfold IB.applyOps
  induction ops generalizing r with
  | nil => simp [extend_nil]
  | cons s ops ih =>
    simp only [List.map_cons, List.foldl_cons]
    rw [ih]
    show extend (extend r (blockOp [s])) (blockOp ops) = _
    rw [extend_extend]; rfl

theorem extend_liftPart (b : List α → Outcome α ε) (rows : List α) : extend (liftPart rows) b = toRun (b rows) := by
  simp [extend, liftPart, toRun]

/-! ### concatenation -/

theorem concat_all (op : List α → Outcome α ε) (ps : List (List α)) :
    ((ps.map (fun p => toRun (op p))).all (·.output.isSome)) = ((ps.map op).all (fun o => o.panic.isNone)) := by
  induction ps with
  | nil => rfl
  | cons p ps ih =>
    simp only [List.map_cons, List.all_cons, ih]
    congr 1
    cases hp : (op p).panic <;> simp [toRun, hp]

theorem concat_out (op : List α → Outcome α ε) (ps : List (List α))
    (h : ((ps.map op).all (fun o => o.panic.isNone)) = true) :
    (ps.map (fun p => toRun (op p))).flatMap (fun p => p.output.getD []) = (ps.map op).flatMap (·.valid) := by
  induction ps with
  | nil => rfl
  | cons p ps ih =>
    simp only [List.map_cons, List.all_cons, Bool.and_eq_true] at h
    simp only [List.map_cons, List.flatMap_cons, ih h.2]
    congr 1
    have := h.1
    cases hp : (op p).panic <;> simp_all [toRun]

theorem concat_col (op : List α → Outcome α ε) (ps : List (List α)) :
    (ps.map (fun p => toRun (op p))).flatMap (·.collector) = (ps.map op).flatMap (·.pushes) := by
  induction ps with
  | nil => rfl
  | cons p ps ih => simp only [List.map_cons, List.flatMap_cons, ih]; rfl

theorem concat_pan (op : List α → Outcome α ε) (ps : List (List α)) :
    (ps.map (fun p => toRun (op p))).flatMap (·.panics) = (ps.map op).filterMap (·.panic) := by
  induction ps with
  | nil => rfl
  | cons p ps ih =>
    simp only [List.map_cons, List.flatMap_cons, ih]
    cases hp : (op p).panic <;> simp [toRun, hp]

theorem concatRuns_toRun (op : List α → Outcome α ε) (ps : List (List α)) :
    concatRuns (ps.map (fun p => toRun (op p))) = runParts op ps := by
  unfold concatRuns runParts
  rw [concat_all, concat_col, concat_pan]
  by_cases h : ((ps.map op).all (fun o => o.panic.isNone)) = true
  · simp only [h, ↓reduceIte, concat_out op ps h]
  · simp only [h, Bool.false_eq_true, ↓reduceIte]

theorem concatRuns_singleton (r : Run α ε) : concatRuns [r] = r := by
  obtain ⟨o, c, p⟩ := r
  cases o <;> simp [concatRuns]

theorem toRun_eq_runParts (op : List α → Outcome α ε) (rows : List α) : toRun (op rows) = runParts op [rows] := by
  rw [← concatRuns_toRun]; simp [concatRuns_singleton]

/-- the engine's terminal collection (`coalesce`: a single partition is taken as it is) -/
theorem coalesce_toRun (op : List α → Outcome α ε) (ps : List (List α)) :
    IB.coalesce concatRuns (ps.map (fun p => toRun (op p))) = runParts op ps := by
  cases ps with
  | nil => exact concatRuns_toRun op []
  | cons p ps =>
    cases ps with
    | nil => exact toRun_eq_runParts op p
    | cons q ps => exact concatRuns_toRun op (p :: q :: ps)

theorem clampParts_eq (n : Nat) (rows : List α) :
    split (IB.clampParts n rows.length) rows = sourcePartitions n rows := rfl

/-! ### `Source → Stateless(block)` -/

theorem execSeq_chainOf (ops : List (BlockOp α ε)) (rows : List α) :
    IB.execSeq (chainOf ops rows) = .ok (runSeq (blockOp ops) rows) := by
  have : IB.execSeq (chainOf ops rows) = .ok (IB.applyOps (ops.map dynOfStep) (liftPart rows)) := rfl
  rw [this, applyOps_dyn, extend_liftPart, toRun_eq_runParts]; rfl

theorem execPar_chainOf (ops : List (BlockOp α ε)) (n : Nat) (rows : List α) :
    IB.execPar concatRuns (chainOf ops rows) n = .ok (runPar (blockOp ops) n rows) := by
  have : IB.execPar concatRuns (chainOf ops rows) n
      = .ok (IB.coalesce concatRuns
          (((split (IB.clampParts n rows.length) rows).map liftPart).map (IB.applyOps (ops.map dynOfStep)))) := rfl
  rw [this, clampParts_eq, List.map_map]
  have : (IB.applyOps (ops.map dynOfStep) ∘ liftPart) = fun p => toRun (blockOp ops p) := by
    funext p; simp [applyOps_dyn, extend_liftPart]
  rw [this, coalesce_toRun]; rfl

/-! ### with barriers -/

theorem afterBarrier_eq_extend (regroup : List α → List α) (r : Run α ε) (b : List α → Outcome α ε) :
    afterBarrier regroup r b = extend (regroupRun regroup r) b := by
  obtain ⟨o, c, p⟩ := r
  cases o <;> simp [afterBarrier, extend, regroupRun]

/-- the nodes one later stage contributes -/
def stageNodes (regroup : List α → List α) (b : List (BlockOp α ε)) : List (IB.Node (Run α ε)) :=
  [.gbk id (fun ps => regroupRun regroup (concatRuns ps)), .stateless (b.map dynOfStep)]

theorem foldlM_stagesPar (regroup : List α → List α) (n : Nat) (later : List (List (BlockOp α ε)))
    (curr : List (Run α ε)) :
    (later.flatMap (stageNodes regroup)).foldlM (IB.stepPar n) curr
      = .ok (match later with
        | [] => curr
        | _ => [(later.map blockOp).foldl (afterBarrier regroup) (concatRuns curr)]) := by
  induction later generalizing curr with
  | nil => rfl
  | cons b bs ih =>
    simp only [List.flatMap_cons, stageNodes, List.cons_append, List.nil_append, List.foldlM_cons]
    show (do
      let c1 ← (pure [regroupRun regroup (concatRuns (curr.map id))] : IB.M (List (Run α ε)))
      let c2 ← (pure (c1.map (IB.applyOps (b.map dynOfStep))) : IB.M (List (Run α ε)))
      (bs.flatMap (stageNodes regroup)).foldlM (IB.stepPar n) c2) = _
    simp only [pure_bind, List.map_id, List.map_cons, List.map_nil, applyOps_dyn, ← afterBarrier_eq_extend]
    rw [ih]
    cases bs with
    | nil => rfl
    | cons b' bs' => simp [concatRuns_singleton]

theorem execPar_chainStages (regroup : List α → List α) (first : List (BlockOp α ε))
    (later : List (List (BlockOp α ε))) (n : Nat) (rows : List α) :
    IB.execPar concatRuns (chainStages regroup first later rows) n
      = .ok (runStages regroup (blockOp first) (later.map blockOp) (sourcePartitions n rows)) := by
  have h0 : IB.execPar concatRuns (chainStages regroup first later rows) n
      = (do
          let curr ← (later.flatMap (stageNodes regroup)).foldlM (IB.stepPar n)
            (((split (IB.clampParts n rows.length) rows).map liftPart).map (IB.applyOps (first.map dynOfStep)))
          pure (IB.coalesce concatRuns curr)) := by
    simp only [chainStages, chainOf, List.cons_append, List.nil_append, IB.execPar, List.foldlM_cons]
    rfl
  rw [h0, foldlM_stagesPar, clampParts_eq, List.map_map]
  have : (IB.applyOps (first.map dynOfStep) ∘ liftPart) = fun p => toRun (blockOp first p) := by
    funext p; simp [applyOps_dyn, extend_liftPart]
  rw [this]
  cases later with
  | nil =>
    show Except.ok (IB.coalesce concatRuns _) = _
    rw [coalesce_toRun]; rfl
  | cons b bs =>
    show Except.ok (IB.coalesce concatRuns [_]) = _
    simp only [IB.coalesce, concatRuns_toRun]
    rfl

theorem foldlM_stagesSeq (regroup : List α → List α) (later : List (List (BlockOp α ε))) (r : Run α ε) :
    (later.flatMap (stageNodes regroup)).foldlM
        (fun cur nd => do let b ← IB.stepSeq cur nd; pure (some b)) (some r)
      = (.ok (some ((later.map blockOp).foldl (afterBarrier regroup) r)) : IB.M (Option (Run α ε))) := by
  induction later generalizing r with
  | nil => rfl
  | cons b bs ih =>
    simp only [List.flatMap_cons, stageNodes, List.cons_append, List.nil_append, List.foldlM_cons]
    show (do
      let c1 ← (pure (some (regroupRun regroup (concatRuns [id r]))) : IB.M (Option (Run α ε)))
      let c2 ← (do let x ← IB.stepSeq c1 (.stateless (b.map dynOfStep)); pure (some x) : IB.M (Option (Run α ε)))
      (bs.flatMap (stageNodes regroup)).foldlM
        (fun cur nd => do let b ← IB.stepSeq cur nd; pure (some b)) c2) = _
    simp only [pure_bind, id, concatRuns_singleton]
    show (do
      let c2 ← (pure (some (IB.applyOps (b.map dynOfStep) (regroupRun regroup r))) : IB.M (Option (Run α ε)))
      (bs.flatMap (stageNodes regroup)).foldlM
        (fun cur nd => do let b ← IB.stepSeq cur nd; pure (some b)) c2) = _
    simp only [pure_bind, applyOps_dyn, ← afterBarrier_eq_extend]
    rw [ih]; rfl

theorem execSeq_chainStages (regroup : List α → List α) (first : List (BlockOp α ε))
    (later : List (List (BlockOp α ε))) (rows : List α) :
    IB.execSeq (chainStages regroup first later rows)
      = .ok (runStages regroup (blockOp first) (later.map blockOp) [rows]) := by
  have h0 : IB.execSeq (chainStages regroup first later rows)
      = (do
          let r ← (later.flatMap (stageNodes regroup)).foldlM
            (fun cur nd => do let b ← IB.stepSeq cur nd; pure (some b))
            (some (IB.applyOps (first.map dynOfStep) (liftPart rows)))
          IB.need r) := by
    simp only [chainStages, chainOf, List.cons_append, List.nil_append, IB.execSeq, List.foldlM_cons]
    rfl
  rw [h0, applyOps_dyn, extend_liftPart, foldlM_stagesSeq, toRun_eq_runParts]
  rfl

end IB.Validation
