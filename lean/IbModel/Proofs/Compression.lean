import IbModel.Model.Compression
import IbModel.Proofs.Io
import IbModel.Props.C09
/-!
# Helper lemmas for C10 (detection over a well-formed codec table)

Executable well-formedness checks of a codec table (decided on the generated table in
`Props/C10.lean`) and the lemmas that turn them into facts about `detectExt` / `detectMagic`.
-/
namespace IB.Compression

/-! ## executable table checks -/

/-- (T1) every codec's magic bytes are the true signature of its format (names and order included) -/
def tableMagicOK (tbl : List CodecEntry) : Bool :=
  tbl.map (fun c => (c.name, c.magic)) == specSignatures.map (fun r => (r.1, some r.2))

/-- (T2) the magic byte strings of different codecs are pairwise prefix-free -/
def magicPrefixFree (tbl : List CodecEntry) : Bool :=
  tbl.all fun c₁ => tbl.all fun c₂ =>
    match c₁.magic, c₂.magic with
    | some m₁, some m₂ => c₁ == c₂ || !(m₁.isPrefixOf m₂)
    | _, _ => true

/-- every codec has a non-empty magic that fits the peeked buffer -/
def magicSizesOK (tbl : List CodecEntry) : Bool :=
  tbl.all fun c => match c.magic with
    | some m => decide (0 < m.length) && decide (m.length ≤ bufCap)
    | none => false

def extChar (c : Char) : Bool :=
  (decide ('a' ≤ c) && decide (c ≤ 'z')) || (decide ('0' ≤ c) && decide (c ≤ '9')) || c == '.'

/-- (T3) extensions are lower-case ASCII (`a–z`, `0–9`, `.`) and begin with a dot: an extension with an
    upper-case letter could never match the lower-cased path -/
def extsWellFormed (tbl : List CodecEntry) : Bool :=
  tbl.all fun c => !c.exts.isEmpty &&
    c.exts.all fun e => e.toList.all extChar && e.toList.head? == some '.' && decide (2 ≤ e.toList.length)

/-- (T3') no extension of one codec is a suffix of an extension of another codec -/
def extsSuffixFree (tbl : List CodecEntry) : Bool :=
  tbl.all fun c₁ => tbl.all fun c₂ =>
    c₁ == c₂ || c₁.exts.all fun e₁ => c₂.exts.all fun e₂ => !(e₁.toList.isSuffixOf e₂.toList)

/-- (T4) the hard-coded chain of the cloud writer lists the same codecs / extensions, in order -/
def cloudChainOK (tbl : List CodecEntry) : Bool :=
  tbl.map (fun c => (c.name, c.exts)) == cloudChain

/-! ## generic list facts -/

theorem find?_eq_some_of_unique {α : Type} (p : α → Bool) (l : List α) (a : α) (ha : a ∈ l)
    (hp : p a = true) (huniq : ∀ b ∈ l, p b = true → b = a) : l.find? p = some a := by
  cases h : l.find? p with
  | none => exact absurd hp (List.find?_eq_none.mp h a ha)
  | some b => rw [huniq b (List.mem_of_find?_eq_some h) (List.find?_some h)]

/-! ## extension detection -/

theorem extsSuffixFree_spec {tbl : List CodecEntry} (h : extsSuffixFree tbl = true)
    {c₁ c₂ : CodecEntry} (h₁ : c₁ ∈ tbl) (h₂ : c₂ ∈ tbl) {e₁ e₂ : String} (he₁ : e₁ ∈ c₁.exts)
    (he₂ : e₂ ∈ c₂.exts) (hs : e₁.toList <:+ e₂.toList) : c₁ = c₂ := by
  have := List.all_eq_true.mp (List.all_eq_true.mp h c₁ h₁) c₂ h₂
  rcases Bool.or_eq_true _ _ |>.mp this with h | h
  · exact eq_of_beq h
  · have := List.all_eq_true.mp (List.all_eq_true.mp h e₁ he₁) e₂ he₂
    rw [Bool.not_eq_true', ← Bool.not_eq_true, List.isSuffixOf_iff_suffix] at this
    exact absurd hs this

/-- a path whose lower-cased form ends with an extension of `c` is detected as `c` -/
theorem detectExt_eq_some {tbl : List CodecEntry} (hsf : extsSuffixFree tbl = true)
    {c : CodecEntry} (hc : c ∈ tbl) {e : String} (he : e ∈ c.exts) {path : List Char}
    (h : e.toList <:+ lowerPath path) : detectExt tbl path = some c := by
  unfold detectExt
  apply find?_eq_some_of_unique _ _ _ hc
  · exact List.any_eq_true.mpr ⟨e, he, List.isSuffixOf_iff_suffix.mpr h⟩
  · intro b hb hpb
    obtain ⟨e₂, he₂, hs₂⟩ := List.any_eq_true.mp hpb
    have hs₂ := List.isSuffixOf_iff_suffix.mp hs₂
    rcases List.suffix_or_suffix_of_suffix h hs₂ with h' | h'
    · exact (extsSuffixFree_spec hsf hc hb he he₂ h').symm
    · exact extsSuffixFree_spec hsf hb hc he₂ he h'

theorem detectExt_mem {tbl : List CodecEntry} {path : List Char} {c : CodecEntry}
    (h : detectExt tbl path = some c) : c ∈ tbl := List.mem_of_find?_eq_some h

theorem detectExt_suffix {tbl : List CodecEntry} {path : List Char} {c : CodecEntry}
    (h : detectExt tbl path = some c) : ∃ e ∈ c.exts, e.toList <:+ lowerPath path := by
  unfold detectExt at h
  dsimp only at h
  have hp := List.find?_some h
  obtain ⟨e, he, hs⟩ := List.any_eq_true.mp hp
  exact ⟨e, he, List.isSuffixOf_iff_suffix.mp hs⟩

/-! ## magic-byte detection -/

theorem magicPrefixFree_spec {tbl : List CodecEntry} (h : magicPrefixFree tbl = true)
    {c₁ c₂ : CodecEntry} (h₁ : c₁ ∈ tbl) (h₂ : c₂ ∈ tbl) {m₁ m₂ : Bytes} (hm₁ : c₁.magic = some m₁)
    (hm₂ : c₂.magic = some m₂) (hp : m₁ <+: m₂) : c₁ = c₂ := by
  have := List.all_eq_true.mp (List.all_eq_true.mp h c₁ h₁) c₂ h₂
  simp only [hm₁, hm₂] at this
  rcases Bool.or_eq_true _ _ |>.mp this with h | h
  · exact eq_of_beq h
  · rw [Bool.not_eq_true', ← Bool.not_eq_true, List.isPrefixOf_iff_prefix] at h
    exact absurd hp h

theorem magicSizesOK_spec {tbl : List CodecEntry} (h : magicSizesOK tbl = true) {c : CodecEntry}
    (hc : c ∈ tbl) : ∃ m, c.magic = some m ∧ 0 < m.length ∧ m.length ≤ bufCap := by
  have := List.all_eq_true.mp h c hc
  cases hm : c.magic with
  | none => simp [hm] at this
  | some m =>
    simp only [hm, Bool.and_eq_true, decide_eq_true_eq] at this
    exact ⟨m, rfl, this.1, this.2⟩

theorem prefix_take_of_prefix {m y : Bytes} (n : Nat) (hp : m <+: y) (hl : m.length ≤ n) :
    m <+: y.take n := by
  obtain ⟨t, rfl⟩ := hp
  rw [List.take_append, List.take_of_length_le hl]
  exact List.prefix_append _ _

theorem magicMatches_iff {buf : Bytes} {c : CodecEntry} :
    magicMatches buf c = true ↔ ∃ m, c.magic = some m ∧ m <+: buf := by
  unfold magicMatches
  cases hm : c.magic with
  | none => simp
  | some m =>
    simp only [Bool.and_eq_true, decide_eq_true_eq, List.isPrefixOf_iff_prefix, Option.some.injEq,
      exists_eq_left']
    exact ⟨fun h => h.2, fun h => ⟨h.length_le, h⟩⟩

/-- a buffer that holds at least the first `n ≥ |magic c|` bytes of content starting with the magic
    bytes of `c` is detected as `c` (and as nothing else) -/
theorem detectMagic_take_eq_some {tbl : List CodecEntry} (hpf : magicPrefixFree tbl = true)
    {c : CodecEntry} (hc : c ∈ tbl) {m : Bytes} (hm : c.magic = some m) (hpos : 0 < m.length)
    {n : Nat} (hn : m.length ≤ n) {y : Bytes} (hp : m <+: y) : detectMagic tbl (y.take n) = some c := by
  have hbuf : m <+: y.take n := prefix_take_of_prefix n hp hn
  have hne : (y.take n).isEmpty = false := by
    rw [List.isEmpty_eq_false_iff]
    intro h0
    have := hbuf.length_le
    rw [h0, List.length_nil] at this
    omega
  unfold detectMagic
  simp only [hne, Bool.false_eq_true, if_false]
  apply find?_eq_some_of_unique _ _ _ hc (magicMatches_iff.mpr ⟨m, hm, hbuf⟩)
  intro b hb hpb
  obtain ⟨m₂, hm₂, hp₂⟩ := magicMatches_iff.mp hpb
  rcases List.prefix_or_prefix_of_prefix hbuf hp₂ with h' | h'
  · exact (magicPrefixFree_spec hpf hc hb hm hm₂ h').symm
  · exact magicPrefixFree_spec hpf hb hc hm₂ hm h'

/-- content that starts with no codec's magic bytes is not detected, whatever part of it was peeked -/
theorem detectMagic_take_eq_none {tbl : List CodecEntry} {y : Bytes} (n : Nat)
    (h : ∀ c ∈ tbl, ∀ m, c.magic = some m → ¬ m <+: y) : detectMagic tbl (y.take n) = none := by
  unfold detectMagic
  split
  · rfl
  · rw [List.find?_eq_none]
    intro c hc hmm
    obtain ⟨m, hm, hp⟩ := magicMatches_iff.mp hmm
    exact h c hc m hm (hp.trans (List.take_prefix _ _))

/-! ## sources: the peeked bytes do not depend on the read schedule -/

/-- the longest signature is non-empty and fits the `BufReader` -/
def headLenOK (tbl : List CodecEntry) : Bool := decide (0 < headLen tbl) && decide (headLen tbl ≤ bufCap)

theorem foldl_max_spec (l : List CodecEntry) : ∀ init : Nat,
    init ≤ l.foldl (fun m c => max m (magicLen c)) init ∧
      ∀ c ∈ l, magicLen c ≤ l.foldl (fun m c => max m (magicLen c)) init := by
  induction l with
  | nil => intro init; exact ⟨Nat.le_refl _, by simp⟩
  | cons a l ih =>
    intro init
    obtain ⟨h1, h2⟩ := ih (max init (magicLen a))
    rw [List.foldl_cons]
    refine ⟨by omega, ?_⟩
    intro c hc
    rcases List.mem_cons.mp hc with rfl | hc
    · omega
    · exact h2 c hc

theorem magic_le_headLen {tbl : List CodecEntry} {c : CodecEntry} (hc : c ∈ tbl) {m : Bytes}
    (hm : c.magic = some m) : m.length ≤ headLen tbl := by
  have := (foldl_max_spec tbl 0).2 c hc
  simpa [magicLen, hm, headLen] using this

theorem foldl_max_init (l : List CodecEntry) : ∀ init : Nat,
    l.foldl (fun m c => max m (magicLen c)) init = max init (l.foldl (fun m c => max m (magicLen c)) 0) := by
  induction l with
  | nil => intro init; simp
  | cons a l ih =>
    intro init
    rw [List.foldl_cons, List.foldl_cons, ih (max init (magicLen a)), ih (max 0 (magicLen a))]
    omega

/-- registering codecs can only lengthen the head `auto_detect_reader` collects -/
theorem headLen_append (a b : List CodecEntry) : headLen (a ++ b) = max (headLen a) (headLen b) := by
  unfold headLen
  rw [List.foldl_append, foldl_max_init b]

theorem bytesOf_map_byte (bs : Bytes) : bytesOf (bs.map Item.byte) = bs := by
  induction bs with
  | nil => rfl
  | cons b bs ih => simp [bytesOf, ih]

theorem bytesOf_append (a b : List Item) : bytesOf (a ++ b) = bytesOf a ++ bytesOf b := by
  induction a with
  | nil => rfl
  | cons i a ih => cases i <;> simp [bytesOf, ih]

theorem errorFree_map_byte (bs : Bytes) : errorFree (bs.map Item.byte) = true := by
  unfold errorFree
  rw [List.all_eq_true]
  intro i hi
  obtain ⟨b, _, rfl⟩ := List.mem_map.mp hi
  rfl

theorem Src.full_errorFree (bytes : Bytes) : (Src.full bytes).ErrorFree := errorFree_map_byte bytes

theorem Src.chunked_errorFree (bytes : Bytes) (sched : List Nat) : (Src.chunked bytes sched).ErrorFree :=
  errorFree_map_byte bytes

theorem Src.full_data (bytes : Bytes) : (Src.full bytes).data = bytes := bytesOf_map_byte bytes

theorem Src.chunked_data (bytes : Bytes) (sched : List Nat) : (Src.chunked bytes sched).data = bytes :=
  bytesOf_map_byte bytes

theorem errorFree_cons {i : Item} {is : List Item} (h : errorFree (i :: is) = true) :
    i ≠ .fault .error ∧ errorFree is = true := by
  unfold errorFree at h ⊢
  rw [List.all_cons, Bool.and_eq_true] at h
  exact ⟨by simpa using h.1, h.2⟩

theorem headScan_no_bytes : ∀ (is : List Item) (n : Nat), bytesOf is = [] → headScan is n = some ([], is)
  | is, 0, _ => by cases is <;> rfl
  | [], _ + 1, _ => rfl
  | .byte b :: r, _ + 1, h => by simp [bytesOf] at h
  | .fault f :: r, n + 1, h => by
    have hr : bytesOf r = [] := by simpa [bytesOf] using h
    simp [headScan, hr]

theorem headScan_zero (is : List Item) : headScan is 0 = some ([], is) := by cases is <;> rfl

/-- a successful read of at most `lim ≤ n` bytes, then `read_head` for the rest = `read_head` at once -/
theorem headScan_takeBytes : ∀ (lim n : Nat) (is : List Item), lim ≤ n →
    headScan is n = (headScan (takeBytes lim is).2 (n - (takeBytes lim is).1.length)).map
      fun t => ((takeBytes lim is).1 ++ t.1, t.2)
  | 0, n, is, _ => by
    simp only [takeBytes, List.length_nil, Nat.sub_zero, List.nil_append]
    cases headScan is n <;> rfl
  | lim + 1, n, [], _ => by
    simp only [takeBytes, List.length_nil, Nat.sub_zero, List.nil_append]
    cases headScan [] n <;> rfl
  | lim + 1, n, .fault f :: r, _ => by
    simp only [takeBytes, List.length_nil, Nat.sub_zero, List.nil_append]
    cases headScan (.fault f :: r) n <;> rfl
  | lim + 1, 0, .byte b :: r, h => by omega
  | lim + 1, n + 1, .byte b :: r, h => by
    have ih := headScan_takeBytes lim n r (by omega)
    simp only [takeBytes, headScan, List.length_cons, Nat.add_sub_add_right, List.cons_append]
    rw [ih]
    cases headScan (takeBytes lim r).2 (n - (takeBytes lim r).1.length) <;> rfl

theorem takeBytes_length : ∀ (lim : Nat) (is : List Item),
    (takeBytes lim is).1.length ≤ lim ∧ (takeBytes lim is).2.length + (takeBytes lim is).1.length = is.length
  | 0, is => by simp [takeBytes]
  | lim + 1, [] => by simp [takeBytes]
  | lim + 1, .fault f :: r => by simp [takeBytes]
  | lim + 1, .byte b :: r => by
    have := takeBytes_length lim r
    simp only [takeBytes, List.length_cons]
    omega

theorem takeBytes_pos (lim : Nat) (b : Nat) (r : List Item) :
    0 < (takeBytes (lim + 1) (.byte b :: r)).1.length := by simp [takeBytes]

/-- the four things one `read` call can do -/
theorem Src.read_cases (s : Src) (cap : Nat) (hcap : 1 ≤ cap) :
    (bytesOf s.items = [] ∧ s.read cap = (.ok [], s)) ∨
    (∃ r, s.items = .fault .interrupted :: r ∧ bytesOf r ≠ [] ∧ s.read cap = (.interrupted, ⟨r, s.sched⟩)) ∨
    (∃ r, s.items = .fault .error :: r ∧ bytesOf r ≠ [] ∧ s.read cap = (.error, ⟨r, s.sched⟩)) ∨
    (∃ b r lim, s.items = .byte b :: r ∧ 1 ≤ lim ∧ lim ≤ cap ∧
      s.read cap = (.ok (takeBytes lim s.items).1, ⟨(takeBytes lim s.items).2, s.sched.tail⟩)) := by
  rcases s with ⟨items, sched⟩
  by_cases hb : bytesOf items = []
  · left; exact ⟨hb, by simp [Src.read, hb]⟩
  · right
    match items, hb with
    | [], hb => simp [bytesOf] at hb
    | .fault .interrupted :: r, hb =>
      left
      exact ⟨r, rfl, by simpa [bytesOf] using hb, by simp [Src.read, hb]⟩
    | .fault .error :: r, hb =>
      right; left
      exact ⟨r, rfl, by simpa [bytesOf] using hb, by simp [Src.read, hb]⟩
    | .byte b :: r, hb =>
      right; right
      cases sched with
      | nil => exact ⟨b, r, cap, rfl, hcap, Nat.le_refl _, by simp [Src.read, hb]⟩
      | cons k ks => exact ⟨b, r, min cap (k + 1), rfl, by omega, Nat.min_le_left _ _, by simp [Src.read, hb]⟩

/-- `read_head` = its closed form, for EVERY read schedule (the schedule only decides how many `read`
    calls it takes) -/
theorem readHead_eq_scan : ∀ (fuel want : Nat) (acc : Bytes) (s : Src), acc.length ≤ want →
    s.items.length < fuel →
      (readHead fuel want acc s).map (fun r => (r.1, r.2.items)) =
        (headScan s.items (want - acc.length)).map fun t => (acc ++ t.1, t.2) := by
  intro fuel
  induction fuel with
  | zero => intro want acc s _ h; omega
  | succ fuel ih =>
    intro want acc s h1 h2
    simp only [readHead]
    by_cases hlt : acc.length < want
    · simp only [hlt, if_true]
      obtain ⟨k, hk⟩ : ∃ k, want - acc.length = k + 1 := ⟨want - acc.length - 1, by omega⟩
      rcases Src.read_cases s (want - acc.length) (by omega) with
        ⟨hnb, hread⟩ | ⟨r, hi, hr, hread⟩ | ⟨r, hi, hr, hread⟩ | ⟨b, r, lim, hi, hl1, hl2, hread⟩
      · rw [hread]
        simp only [List.isEmpty_nil, if_true, Option.map_some]
        rw [headScan_no_bytes _ _ hnb]
        simp
      · rw [hread]
        simp only
        have := ih want acc ⟨r, s.sched⟩ h1 (by rw [hi] at h2; simp only [List.length_cons] at h2 ⊢; omega)
        simp only at this
        rw [this, hk, hi]
        simp [headScan, hr]
      · rw [hread, hk, hi]
        simp [headScan, hr]
      · rw [hread]
        simp only
        obtain ⟨l, rfl⟩ : ∃ l, lim = l + 1 := ⟨lim - 1, by omega⟩
        rw [hi] at h2 ⊢
        have hpos := takeBytes_pos l b r
        have hlen := takeBytes_length (l + 1) (.byte b :: r)
        have hne : (takeBytes (l + 1) (.byte b :: r)).1.isEmpty = false := by
          cases h : (takeBytes (l + 1) (.byte b :: r)).1 with
          | nil => rw [h] at hpos; simp at hpos
          | cons x xs => rfl
        simp only [hne, Bool.false_eq_true, if_false]
        have := ih want (acc ++ (takeBytes (l + 1) (.byte b :: r)).1)
          ⟨(takeBytes (l + 1) (.byte b :: r)).2, s.sched.tail⟩
          (by rw [List.length_append]; omega)
          (by simp only [List.length_cons] at h2 hlen ⊢; omega)
        simp only at this
        rw [this, headScan_takeBytes (l + 1) (want - acc.length) (.byte b :: r) hl2]
        rw [List.length_append, Nat.sub_add_eq]
        cases headScan (takeBytes (l + 1) (.byte b :: r)).2
          (want - acc.length - (takeBytes (l + 1) (.byte b :: r)).1.length) with
        | none => rfl
        | some t => simp [List.append_assoc]
    · simp only [hlt, if_false]
      have : want - acc.length = 0 := by omega
      rw [this, headScan_zero]
      simp

/-- without `error` faults `read_head` returns exactly the first `n` bytes of the stream (all of it when
    it is shorter), skipping `Interrupted`, and loses nothing -/
theorem headScan_errorFree : ∀ (is : List Item) (n : Nat), errorFree is = true →
    ∃ rest, headScan is n = some ((bytesOf is).take n, rest) ∧ bytesOf rest = (bytesOf is).drop n ∧
      errorFree rest = true
  | is, 0, h => ⟨is, by rw [headScan_zero]; simp, by simp, h⟩
  | [], _ + 1, _ => ⟨[], rfl, rfl, rfl⟩
  | .byte b :: r, n + 1, h => by
    obtain ⟨rest, h1, h2, h3⟩ := headScan_errorFree r n (errorFree_cons h).2
    exact ⟨rest, by simp [headScan, h1, bytesOf], by simpa [bytesOf] using h2, h3⟩
  | .fault f :: r, n + 1, h => by
    have hf := (errorFree_cons h).1
    by_cases hb : bytesOf r = []
    · exact ⟨.fault f :: r, by simp [headScan, hb, bytesOf], by simp [bytesOf, hb], h⟩
    · cases f with
      | error => exact absurd rfl hf
      | interrupted =>
        obtain ⟨rest, h1, h2, h3⟩ := headScan_errorFree r (n + 1) (errorFree_cons h).2
        exact ⟨rest, by simp [headScan, hb, h1, bytesOf], by simpa [bytesOf] using h2, h3⟩

theorem drainItems_errorFree : ∀ (is : List Item), errorFree is = true → drainItems is = some (bytesOf is)
  | [], _ => rfl
  | .byte b :: r, h => by simp [drainItems, bytesOf, drainItems_errorFree r (errorFree_cons h).2]
  | .fault .interrupted :: r, h => by
    simp [drainItems, bytesOf, drainItems_errorFree r (errorFree_cons h).2]
  | .fault .error :: r, h => absurd rfl (errorFree_cons h).1

/-- an `error` fault in front of the `n`-th byte, with a byte behind it, makes `read_head` fail -/
theorem headScan_error : ∀ (pre post : List Item) (n : Nat), errorFree pre = true →
    (bytesOf pre).length < n → bytesOf post ≠ [] → headScan (pre ++ .fault .error :: post) n = none
  | [], post, n + 1, _, _, hp => by simp [headScan, hp]
  | [], post, 0, _, h, _ => by simp at h
  | .byte b :: pre, post, 0, _, h, _ => by simp at h
  | .byte b :: pre, post, n + 1, he, h, hp => by
    have := headScan_error pre post n (errorFree_cons he).2 (by simpa [bytesOf] using h) hp
    simp [headScan, this]
  | .fault f :: pre, post, 0, _, h, _ => by simp at h
  | .fault f :: pre, post, n + 1, he, h, hp => by
    have hf := (errorFree_cons he).1
    have hb : ¬ bytesOf (pre ++ .fault .error :: post) = [] := by
      rw [bytesOf_append]
      simp [bytesOf, hp]
    cases f with
    | error => exact absurd rfl hf
    | interrupted =>
      have := headScan_error pre post (n + 1) (errorFree_cons he).2 (by simpa [bytesOf] using h) hp
      simp [headScan, hb, this]

theorem readHead_none_of_scan {fuel want : Nat} {s : Src} (hf : s.items.length < fuel)
    (h : headScan s.items want = none) : readHead fuel want [] s = none := by
  have := readHead_eq_scan fuel want [] s (Nat.zero_le _) hf
  simp only [List.length_nil, Nat.sub_zero, h, Option.map_none, Option.map_eq_none_iff] at this
  exact this

/-- what `auto_detect_reader` has in hand when it decides, for a source without `error` faults: the buffer
    `detect_from_magic` sees = the first `peekLen tbl` bytes of the stream, and `pending ++ rest` is the
    whole stream — for EVERY read schedule and EVERY placement of `Interrupted` faults -/
theorem peek_spec {tbl : List CodecEntry} (hH : 0 < headLen tbl) (s : Src) (hs : s.ErrorFree) :
    ∃ p, peek tbl s = some p ∧ p.1 = some (s.data.take (peekLen tbl)) ∧
      p.2.1 ++ bytesOf p.2.2.items = s.data ∧ errorFree p.2.2.items = true := by
  obtain ⟨rest, h1, h2, h3⟩ := headScan_errorFree s.items (headLen tbl) hs
  have hr := readHead_eq_scan (s.items.length + 1) (headLen tbl) [] s (Nat.zero_le _) (Nat.lt_succ_self _)
  simp only [List.length_nil, Nat.sub_zero, h1, Option.map_some, List.nil_append] at hr
  cases hh : readHead (s.items.length + 1) (headLen tbl) [] s with
  | none => rw [hh] at hr; simp at hr
  | some hd =>
    rw [hh] at hr
    simp only [Option.map_some, Option.some.injEq, Prod.mk.injEq] at hr
    obtain ⟨e1, e2⟩ := hr
    unfold peek
    rw [hh]
    simp only [Option.map_some]
    by_cases hemp : hd.1.isEmpty = true
    · simp only [hemp, if_true]
      rw [e1, List.isEmpty_iff, List.take_eq_nil_iff] at hemp
      have hd0 : bytesOf s.items = [] := by
        rcases hemp with h | h
        · omega
        · exact h
      have hrest : bytesOf hd.2.items = [] := by rw [e2, h2, hd0, List.drop_nil]
      have hread : hd.2.read bufCap = (.ok [], hd.2) := by unfold Src.read; simp [hrest]
      rw [hread]
      refine ⟨_, rfl, ?_, ?_, ?_⟩
      · simp only [Src.data, hd0, List.take_nil]
      · simp only [Src.data, hd0, hrest, List.nil_append]
      · rw [e2]; exact h3
    · simp only [hemp, Bool.false_eq_true, if_false]
      refine ⟨_, rfl, ?_, ?_, ?_⟩
      · simp only [e1, Src.data, peekLen, List.take_take, Nat.min_comm]
      · simp only [e1, e2, h2, Src.data, List.take_append_drop]
      · simp only [e2, h3]

theorem readerCodecSrc_eq_spec {tbl : List CodecEntry} (hH : 0 < headLen tbl) (path : List Char)
    (s : Src) (hs : s.ErrorFree) : readerCodecSrc tbl path s = some (readerCodecSpec tbl path s.data) := by
  unfold readerCodecSrc readerCodecSpec
  cases detectExt tbl path with
  | some c => rfl
  | none =>
    obtain ⟨p, hp, h1, _, _⟩ := peek_spec hH s hs
    simp only [hp, Option.map_some, h1, Option.bind_some]

theorem autoReaderSrc_eq_spec (K : CodecImpl) {tbl : List CodecEntry} (hH : 0 < headLen tbl)
    (path : List Char) (s : Src) (hs : s.ErrorFree) :
    autoReaderSrc K tbl path s = autoReaderSpec K tbl path s.data := by
  unfold autoReaderSrc autoReaderSpec readerCodecSpec
  cases detectExt tbl path with
  | some c => simp only [drainItems_errorFree _ hs, Option.bind_some, Src.data]
  | none =>
    obtain ⟨p, hp, h1, h2, h3⟩ := peek_spec hH s hs
    simp only [hp, h1, Option.bind_some, drainItems_errorFree _ h3, Option.map_some, h2]

theorem autoReader_eq_spec (K : CodecImpl) {tbl : List CodecEntry} (hH : 0 < headLen tbl)
    (path : List Char) (bytes : Bytes) : autoReader K tbl path bytes = autoReaderSpec K tbl path bytes := by
  unfold autoReader
  rw [autoReaderSrc_eq_spec K hH path _ (Src.full_errorFree bytes), Src.full_data]

theorem readerCodec_eq_spec {tbl : List CodecEntry} (hH : 0 < headLen tbl)
    (path : List Char) (bytes : Bytes) : readerCodec tbl path bytes = readerCodecSpec tbl path bytes := by
  unfold readerCodec
  rw [readerCodecSrc_eq_spec hH path _ (Src.full_errorFree bytes), Src.full_data]
  rfl

theorem headLenOK_pos {tbl : List CodecEntry} (h : headLenOK tbl = true) : 0 < headLen tbl := by
  simp only [headLenOK, Bool.and_eq_true, decide_eq_true_eq] at h
  exact h.1

theorem headLenOK_peekLen {tbl : List CodecEntry} (h : headLenOK tbl = true) : peekLen tbl = headLen tbl := by
  simp only [headLenOK, Bool.and_eq_true, decide_eq_true_eq] at h
  unfold peekLen
  omega

/-! ## sources with `error` faults: the answer is never silently wrong -/

theorem headScan_some : ∀ (is : List Item) (n : Nat) (t : Bytes × List Item), headScan is n = some t →
    t.1 = (bytesOf is).take n ∧ bytesOf t.2 = (bytesOf is).drop n
  | is, 0, t, h => by
    rw [headScan_zero] at h
    cases h
    simp
  | [], _ + 1, t, h => by
    simp only [headScan, Option.some.injEq] at h
    subst h
    simp [bytesOf]
  | .byte b :: r, n + 1, t, h => by
    simp only [headScan, Option.map_eq_some_iff] at h
    obtain ⟨u, hu, rfl⟩ := h
    obtain ⟨h1, h2⟩ := headScan_some r n u hu
    simp [bytesOf, h1, h2]
  | .fault f :: r, n + 1, t, h => by
    by_cases hb : bytesOf r = []
    · simp only [headScan, hb, if_true, Option.some.injEq] at h
      subst h
      simp [bytesOf, hb]
    · cases f with
      | error => simp [headScan, hb] at h
      | interrupted =>
        simp only [headScan, hb, if_false] at h
        simpa [bytesOf] using headScan_some r (n + 1) t h

theorem drainItems_some : ∀ (is : List Item) (b : Bytes), drainItems is = some b → b = bytesOf is
  | [], b, h => by simp only [drainItems, Option.some.injEq] at h; subst h; rfl
  | .byte x :: r, b, h => by
    simp only [drainItems, Option.map_eq_some_iff] at h
    obtain ⟨u, hu, rfl⟩ := h
    simp [bytesOf, drainItems_some r u hu]
  | .fault .interrupted :: r, b, h => by
    simp only [drainItems] at h
    simpa [bytesOf] using drainItems_some r b h
  | .fault .error :: r, b, h => by
    by_cases hb : bytesOf r = []
    · simp only [drainItems, hb, if_true, Option.some.injEq] at h
      subst h
      simp [bytesOf, hb]
    · simp [drainItems, hb] at h

theorem drainItems_no_bytes : ∀ (is : List Item), bytesOf is = [] → drainItems is = some []
  | [], _ => rfl
  | .byte x :: r, h => by simp [bytesOf] at h
  | .fault .interrupted :: r, h => by
    have hr : bytesOf r = [] := by simpa [bytesOf] using h
    simp [drainItems, drainItems_no_bytes r hr]
  | .fault .error :: r, h => by
    have hr : bytesOf r = [] := by simpa [bytesOf] using h
    simp [drainItems, hr]

/-- whenever `auto_detect_reader` gets past `read_head` (for ANY source, faults included), what it has in
    hand is the first `peekLen tbl` bytes, and nothing of the stream is lost -/
theorem peek_some {tbl : List CodecEntry} (hH : 0 < headLen tbl) (s : Src)
    (p : Option Bytes × Bytes × Src) (h : peek tbl s = some p) :
    p.1 = some (s.data.take (peekLen tbl)) ∧ p.2.1 ++ bytesOf p.2.2.items = s.data := by
  have hr := readHead_eq_scan (s.items.length + 1) (headLen tbl) [] s (Nat.zero_le _) (Nat.lt_succ_self _)
  simp only [List.length_nil, Nat.sub_zero, List.nil_append] at hr
  unfold peek at h
  cases hh : readHead (s.items.length + 1) (headLen tbl) [] s with
  | none => rw [hh] at h; simp at h
  | some hd =>
    rw [hh] at h hr
    cases hsc : headScan s.items (headLen tbl) with
    | none => rw [hsc] at hr; simp at hr
    | some t =>
      rw [hsc] at hr
      simp only [Option.map_some, Option.some.injEq, Prod.mk.injEq] at hr
      obtain ⟨e1, e2⟩ := hr
      obtain ⟨h1, h2⟩ := headScan_some _ _ _ hsc
      rw [← e1] at h1
      rw [← e2] at h2
      simp only [Option.map_some, Option.some.injEq] at h
      by_cases hemp : hd.1.isEmpty = true
      · simp only [hemp, if_true] at h
        have hemp' := hemp
        rw [h1, List.isEmpty_iff, List.take_eq_nil_iff] at hemp'
        have hd0 : bytesOf s.items = [] := by
          rcases hemp' with h | h
          · omega
          · exact h
        have hrest : bytesOf hd.2.items = [] := by rw [h2, hd0, List.drop_nil]
        have hread : hd.2.read bufCap = (.ok [], hd.2) := by unfold Src.read; simp [hrest]
        rw [hread] at h
        subst h
        simp only [Src.data, hd0, hrest, List.take_nil, List.nil_append, and_self]
      · simp only [hemp, Bool.false_eq_true, if_false] at h
        subst h
        refine ⟨?_, ?_⟩
        · simp only [h1, Src.data, peekLen, List.take_take, Nat.min_comm]
        · simp only [h1, h2, Src.data, List.take_append_drop]

/-- **for EVERY source** — any read schedule, any faults anywhere — `auto_detect_reader` + reading to the
    end either reports an error or returns exactly what it returns on a `File` with the same bytes: a source
    fault can make the read FAIL, it can never make it silently return something else (e.g. a compressed
    stream passed through undecoded). -/
theorem autoReaderSrc_none_or_spec (K : CodecImpl) {tbl : List CodecEntry} (hH : 0 < headLen tbl)
    (path : List Char) (s : Src) :
    autoReaderSrc K tbl path s = none ∨ autoReaderSrc K tbl path s = autoReaderSpec K tbl path s.data := by
  unfold autoReaderSrc autoReaderSpec readerCodecSpec
  cases detectExt tbl path with
  | some c =>
    cases hd : drainItems s.items with
    | none => left; rfl
    | some b => right; rw [drainItems_some _ _ hd]; rfl
  | none =>
    cases hp : peek tbl s with
    | none => left; rfl
    | some p =>
      obtain ⟨h1, h2⟩ := peek_some hH s p hp
      cases hd : drainItems p.2.2.items with
      | none =>
        left
        simp only [hd, Option.map_none, Option.bind_none]
        cases p.1.bind (detectMagic tbl) <;> rfl
      | some b =>
        right
        have hb := drainItems_some _ _ hd
        simp only [h1, Option.bind_some, hd, Option.map_some, hb, h2]

/-! ## registering codecs: the built-in decisions are unchanged -/

theorem detectExt_append_left {tbl extra : List CodecEntry} {path : List Char} {c : CodecEntry}
    (h : detectExt tbl path = some c) : detectExt (tbl ++ extra) path = some c := by
  unfold detectExt at h ⊢
  simp only [List.find?_append, h, Option.some_or]

theorem detectExt_append_none {tbl extra : List CodecEntry} {path : List Char} :
    detectExt (tbl ++ extra) path = none ↔ detectExt tbl path = none ∧ detectExt extra path = none := by
  unfold detectExt
  simp only [List.find?_append, Option.or_eq_none_iff]

theorem detectMagic_append_left {tbl extra : List CodecEntry} {buf : Bytes} {c : CodecEntry}
    (h : detectMagic tbl buf = some c) : detectMagic (tbl ++ extra) buf = some c := by
  unfold detectMagic at h ⊢
  by_cases hne : buf.isEmpty = true
  · simp [hne] at h
  · simp only [hne, Bool.false_eq_true, if_false] at h ⊢
    simp only [List.find?_append, h, Option.some_or]

theorem detectMagic_append_none {tbl extra : List CodecEntry} {buf : Bytes}
    (h : detectMagic tbl buf = none) : detectMagic (tbl ++ extra) buf = detectMagic extra buf := by
  unfold detectMagic at h ⊢
  by_cases hne : buf.isEmpty = true
  · simp [hne]
  · simp only [hne, Bool.false_eq_true, if_false] at h ⊢
    simp only [List.find?_append, h, Option.none_or]

/-! ## the registry as state -/

/-- whatever a program did with the registry (any sequence of `get_registry` / `register_codec` calls from a
    fresh process), the table a later detection sees is the built-in codecs FIRST, followed by the registered
    codecs in registration order -/
theorem registry_run_get (init : List CodecEntry) : ∀ (ops : List RegOp) (r : Registry),
    ((Registry.run init r ops).get init).1 = (r.get init).1 ++ registeredBy ops
  | [], r => by simp [Registry.run, registeredBy]
  | .get :: ops, r => by
    have := registry_run_get init ops (r.get init).2
    simp only [Registry.run, List.foldl_cons, Registry.step, registeredBy] at this ⊢
    rw [this]
    cases r <;> rfl
  | .register c :: ops, r => by
    have := registry_run_get init ops (r.register init c)
    simp only [Registry.run, List.foldl_cons, Registry.step, registeredBy] at this ⊢
    rw [this]
    cases r <;> simp [Registry.register, Registry.get]

/-! ## table ↔ specification -/

theorem spec_of_mem_table {tbl : List CodecEntry} (h : tableMagicOK tbl = true) {c : CodecEntry}
    (hc : c ∈ tbl) : ∃ s, c.magic = some s ∧ (c.name, s) ∈ specSignatures := by
  have heq := eq_of_beq h
  have : (c.name, c.magic) ∈ tbl.map (fun c => (c.name, c.magic)) := List.mem_map.mpr ⟨c, hc, rfl⟩
  rw [heq] at this
  obtain ⟨r, hr, hre⟩ := List.mem_map.mp this
  simp only [Prod.mk.injEq] at hre
  exact ⟨r.2, hre.2.symm, by rw [← hre.1]; exact hr⟩

theorem table_of_mem_spec {tbl : List CodecEntry} (h : tableMagicOK tbl = true) {n : String}
    {s : Bytes} (hs : (n, s) ∈ specSignatures) : ∃ c ∈ tbl, c.name = n ∧ c.magic = some s := by
  have heq := eq_of_beq h
  have : (n, some s) ∈ specSignatures.map (fun r => (r.1, some r.2)) :=
    List.mem_map.mpr ⟨(n, s), hs, rfl⟩
  rw [← heq] at this
  obtain ⟨c, hc, hce⟩ := List.mem_map.mp this
  simp only [Prod.mk.injEq] at hce
  exact ⟨c, hc, hce.1, hce.2⟩

/-! ## the cloud writer's chain -/

theorem cloudWriterCodec_eq {tbl : List CodecEntry} (h : cloudChainOK tbl = true)
    (key : List Char) : cloudWriterCodec key = (detectExt tbl key).map (·.name) := by
  have heq := eq_of_beq h
  unfold cloudWriterCodec detectExt
  dsimp only
  rw [← heq, List.find?_map, Option.map_map]
  rfl

/-! ## the directory part of a path never matters -/

theorem find?_congr_mem {α : Type} {p q : α → Bool} : ∀ {l : List α}, (∀ a ∈ l, p a = q a) →
    l.find? p = l.find? q
  | [], _ => rfl
  | a :: l, h => by
    have ha := h a (List.mem_cons_self)
    have ih := find?_congr_mem (l := l) (fun b hb => h b (List.mem_cons_of_mem _ hb))
    simp only [List.find?_cons, ha, ih]

theorem any_congr_mem {α : Type} {p q : α → Bool} : ∀ {l : List α}, (∀ a ∈ l, p a = q a) →
    l.any p = l.any q
  | [], _ => rfl
  | a :: l, h => by
    have ha := h a (List.mem_cons_self)
    have ih := any_congr_mem (l := l) (fun b hb => h b (List.mem_cons_of_mem _ hb))
    simp only [List.any_cons, ha, ih]

theorem suffix_append_sep_iff {α : Type} {e a b : List α} {x : α} (hx : x ∉ e) :
    e <:+ a ++ x :: b ↔ e <:+ b := by
  constructor
  · intro he
    have hb : b <:+ a ++ x :: b := (List.suffix_cons x b).trans (List.suffix_append a (x :: b))
    by_cases hle : e.length ≤ b.length
    · exact List.suffix_of_suffix_length_le he hb hle
    · have hxb : x :: b <:+ a ++ x :: b := List.suffix_append a (x :: b)
      have : x :: b <:+ e := List.suffix_of_suffix_length_le hxb he (by simp only [List.length_cons]; omega)
      exact absurd (List.IsSuffix.mem (List.mem_cons_self) this) hx
  · intro he
    exact he.trans ((List.suffix_cons x b).trans (List.suffix_append a (x :: b)))

theorem extsWellFormed_no_slash {tbl : List CodecEntry} (h : extsWellFormed tbl = true) {c : CodecEntry}
    (hc : c ∈ tbl) {e : String} (he : e ∈ c.exts) : '/' ∉ e.toList := by
  have := List.all_eq_true.mp h c hc
  simp only [Bool.and_eq_true] at this
  have := List.all_eq_true.mp this.2 e he
  simp only [Bool.and_eq_true] at this
  intro hmem
  have := List.all_eq_true.mp this.1.1 '/' hmem
  revert this
  decide

/-- `detect_from_extension` applied to `dir/name` decides as on `name` alone -/
theorem detectExt_dir_irrelevant {tbl : List CodecEntry} (h : extsWellFormed tbl = true)
    (dir name : List Char) : detectExt tbl (dir ++ '/' :: name) = detectExt tbl name := by
  unfold detectExt
  dsimp only
  apply find?_congr_mem
  intro c hc
  apply any_congr_mem
  intro e he
  have hl : lowerPath (dir ++ '/' :: name) = lowerPath dir ++ '/' :: lowerPath name := by
    unfold lowerPath
    rw [List.flatMap_append, List.flatMap_cons]
    rfl
  rw [hl, Bool.eq_iff_iff, List.isSuffixOf_iff_suffix, List.isSuffixOf_iff_suffix]
  exact suffix_append_sep_iff (extsWellFormed_no_slash h hc he)


/-! ## writer entry points: each stores `autoWriter path (what the sequential writer emits)` -/

theorem jsonlPlain_flatten {ρ : Type} (ser : ρ → Bytes) (parts : List (List ρ)) :
    (parts.map (jsonlPlain ser)).flatten = jsonlPlain ser parts.flatten := by
  induction parts with
  | nil => simp [jsonlPlain]
  | cons p ps ih =>
    rw [List.map_cons, List.flatten_cons, ih]
    simp [jsonlPlain]

/-- `write_jsonl_par` stores exactly what `write_jsonl_vec` stores, for every shard count -/
theorem writeJsonlPar_eq {ρ : Type} (K : CodecImpl) (tbl : List CodecEntry) (ser : ρ → Bytes)
    (path : List Char) (rs : List ρ) (shards : Option Nat) (auto : Nat) :
    writeJsonlPar K tbl ser path rs shards auto = some (writeJsonlVec K tbl ser path rs) := by
  unfold writeJsonlPar writeJsonlVec
  split
  · next h =>
    have : rs = [] := List.eq_nil_of_length_eq_zero h
    subst this; rfl
  · have h := IB.Io.parWriteJsonl_concat rs shards auto
    unfold IB.Io.parWriteJsonl at h
    cases hp : IB.Io.parWriteWith IB.Io.jsonlShardBounds rs shards auto with
    | none => rw [hp] at h; simp at h
    | some parts =>
      rw [hp] at h
      simp only [Option.map_some, Option.some.injEq] at h ⊢
      rw [jsonlPlain_flatten, h]

/-- `write_csv_par` stores exactly what `write_csv_vec` stores, for every shard count and header flag -/
theorem writeCsvPar_eq {ρ : Type} (K : CodecImpl) (tbl : List CodecEntry) (hdr : Bool) (header : Bytes)
    (ser : ρ → Bytes) (path : List Char) (rs : List ρ) (shards : Option Nat) (auto : Nat) :
    writeCsvPar K tbl hdr header ser path rs shards auto = some (writeCsvVec K tbl hdr header ser path rs) := by
  unfold writeCsvPar writeCsvVec csvPlain
  split
  · next h =>
    have : rs = [] := List.eq_nil_of_length_eq_zero h
    subst this
    cases hdr <;> simp [IB.Io.csvWrite]
  · have h := IB.Io.parWriteCsv_eq_seq hdr header ser rs shards auto
    unfold IB.Io.parWriteCsv at h
    cases hp : IB.Io.parWriteCsvParts hdr header ser rs shards auto with
    | none => rw [hp] at h; simp at h
    | some bufs =>
      rw [hp] at h
      simp only [Option.map_some, Option.some.injEq] at h ⊢
      rw [← h, List.flatten_flatten]

theorem pcWriteCsvPar_eq {ρ : Type} (K : CodecImpl) (tbl : List CodecEntry) (hdr : Bool) (header : Bytes)
    (ser : ρ → Bytes) (path : List Char) (rs : List ρ) (sh : Option Nat) (a : Nat) :
    pcWriteCsvPar K tbl hdr header ser path rs sh a = writeCsvVec K tbl hdr header ser path rs := by
  unfold pcWriteCsvPar
  rw [IB.Io.collectParVec_eq]

theorem cloudWriter_eq_autoWriter (K : CodecImpl) {tbl : List CodecEntry} (h : cloudChainOK tbl = true)
    (key : List Char) (x : Bytes) : cloudWriter K key x = autoWriter K tbl key x := by
  unfold cloudWriter autoWriter
  rw [cloudWriterCodec_eq h]
  cases detectExt tbl key <;> rfl

/-! ## reader entry points: each parses `autoReader path file` with its format layer -/

section readers
variable {Line ρ : Type}

theorem mapM_congr_fun {α β : Type} {f g : α → Option β} (l : List α) (h : ∀ a ∈ l, f a = g a) :
    l.mapM f = l.mapM g := by
  induction l with
  | nil => rfl
  | cons a l ih =>
    rw [List.mapM_cons, List.mapM_cons, h a List.mem_cons_self,
      ih (fun b hb => h b (List.mem_cons_of_mem _ hb))]

theorem reader_decodes (K : CodecImpl) (tbl : List CodecEntry) (F : ReadFmt Line ρ) (r : Reader)
    (path : List Char) (file : Bytes) :
    r.run K tbl F path file = (autoReader K tbl path file).bind (r.plain F) := by
  cases r with
  | vec => rfl
  | helper => rfl
  | cloud => rfl
  | streaming per par =>
    simp only [Reader.run, readStreaming, buildShards, readShard]
    cases autoReader K tbl path file with
    | none => rfl
    | some plain =>
      simp only [Option.bind_some, Reader.plain]
      cases F.lines plain with
      | none => rfl
      | some ls =>
        simp only [Option.bind_some, Option.map_some, IB.Io.splitView, IB.Io.seqView]

/-- C09 (`streamed_eq_whole`, `seqView_eq_readAll`): on a plain stream every reader entry point
    returns what `read_*_vec` returns -/
theorem reader_plain_eq_readAll (F : ReadFmt Line ρ) (r : Reader) (plain : Bytes) :
    r.plain F plain = (F.lines plain).bind (IB.Io.readAll F.blank F.de) := by
  cases r with
  | vec => rfl
  | helper => rfl
  | cloud => rfl
  | streaming per par =>
    simp only [Reader.plain]
    cases F.lines plain with
    | none => rfl
    | some ls =>
      simp only [Option.bind_some]
      have h1 := IB.Io.streamed_eq_whole F.blank F.de ls per
      have h2 := IB.Io.seqView_eq_readAll F.blank F.de ls
      cases par with
      | false => simpa using h2
      | true =>
        simp only [if_true]
        cases hs : IB.Io.splitView F.blank F.de ls per with
        | none => simpa using h2
        | some parts => rw [hs] at h1; simpa using h1

end readers

end IB.Compression
