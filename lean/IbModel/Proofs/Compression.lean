import IbModel.Model.Compression
import IbModel.Proofs.Io
import IbModel.Props.C09
/-!
# Helper lemmas for C10 (detection over a well-formed codec table)

Executable well-formedness checks of a codec table (decided on the generated table in
`Props/C10.lean`) and the lemmas that turn them into facts about `detectExt` / `detectMagic`.
-/
namespace IB.Compression

/-! ## executable table checks -/

/-- (T1) every codec's magic bytes are the true signature of its format (names and order included) -/
def tableMagicOK (tbl : List CodecEntry) : Bool :=
  tbl.map (fun c => (c.name, c.magic)) == specSignatures.map (fun r => (r.1, some r.2))

/-- (T2) the magic byte strings of different codecs are pairwise prefix-free -/
def magicPrefixFree (tbl : List CodecEntry) : Bool :=
  tbl.all fun c₁ => tbl.all fun c₂ =>
    match c₁.magic, c₂.magic with
    | some m₁, some m₂ => c₁ == c₂ || !(m₁.isPrefixOf m₂)
    | _, _ => true

/-- every codec has a non-empty magic that fits the peeked buffer -/
def magicSizesOK (tbl : List CodecEntry) : Bool :=
  tbl.all fun c => match c.magic with
    | some m => decide (0 < m.length) && decide (m.length ≤ bufCap)
    | none => false

def extChar (c : Char) : Bool :=
  (decide ('a' ≤ c) && decide (c ≤ 'z')) || (decide ('0' ≤ c) && decide (c ≤ '9')) || c == '.'

/-- (T3) extensions are lower-case ASCII (`a–z`, `0–9`, `.`) and begin with a dot: an extension with an
    upper-case letter could never match the lower-cased path -/
def extsWellFormed (tbl : List CodecEntry) : Bool :=
  tbl.all fun c => !c.exts.isEmpty &&
    c.exts.all fun e => e.toList.all extChar && e.toList.head? == some '.' && decide (2 ≤ e.toList.length)

/-- (T3') no extension of one codec is a suffix of an extension of another codec -/
def extsSuffixFree (tbl : List CodecEntry) : Bool :=
  tbl.all fun c₁ => tbl.all fun c₂ =>
    c₁ == c₂ || c₁.exts.all fun e₁ => c₂.exts.all fun e₂ => !(e₁.toList.isSuffixOf e₂.toList)

/-- (T4) the hard-coded chain of the cloud writer lists the same codecs / extensions, in order -/
def cloudChainOK (tbl : List CodecEntry) : Bool :=
  tbl.map (fun c => (c.name, c.exts)) == cloudChain

/-! ## generic list facts -/

theorem find?_eq_some_of_unique {α : Type} (p : α → Bool) (l : List α) (a : α) (ha : a ∈ l)
    (hp : p a = true) (huniq : ∀ b ∈ l, p b = true → b = a) : l.find? p = some a := by
  cases h : l.find? p with
  | none => exact absurd hp (List.find?_eq_none.mp h a ha)
  | some b => rw [huniq b (List.mem_of_find?_eq_some h) (List.find?_some h)]

/-! ## extension detection -/

theorem extsSuffixFree_spec {tbl : List CodecEntry} (h : extsSuffixFree tbl = true)
    {c₁ c₂ : CodecEntry} (h₁ : c₁ ∈ tbl) (h₂ : c₂ ∈ tbl) {e₁ e₂ : String} (he₁ : e₁ ∈ c₁.exts)
    (he₂ : e₂ ∈ c₂.exts) (hs : e₁.toList <:+ e₂.toList) : c₁ = c₂ := by
  have := List.all_eq_true.mp (List.all_eq_true.mp h c₁ h₁) c₂ h₂
  rcases Bool.or_eq_true _ _ |>.mp this with h | h
  · exact eq_of_beq h
  · have := List.all_eq_true.mp (List.all_eq_true.mp h e₁ he₁) e₂ he₂
    rw [Bool.not_eq_true', ← Bool.not_eq_true, List.isSuffixOf_iff_suffix] at this
    exact absurd hs this

/-- a path whose lower-cased form ends with an extension of `c` is detected as `c` -/
theorem detectExt_eq_some {tbl : List CodecEntry} (hsf : extsSuffixFree tbl = true)
    {c : CodecEntry} (hc : c ∈ tbl) {e : String} (he : e ∈ c.exts) {path : List Char}
    (h : e.toList <:+ lowerPath path) : detectExt tbl path = some c := by
  unfold detectExt
  apply find?_eq_some_of_unique _ _ _ hc
  · exact List.any_eq_true.mpr ⟨e, he, List.isSuffixOf_iff_suffix.mpr h⟩
  · intro b hb hpb
    obtain ⟨e₂, he₂, hs₂⟩ := List.any_eq_true.mp hpb
    have hs₂ := List.isSuffixOf_iff_suffix.mp hs₂
    rcases List.suffix_or_suffix_of_suffix h hs₂ with h' | h'
    · exact (extsSuffixFree_spec hsf hc hb he he₂ h').symm
    · exact extsSuffixFree_spec hsf hb hc he₂ he h'

theorem detectExt_mem {tbl : List CodecEntry} {path : List Char} {c : CodecEntry}
    (h : detectExt tbl path = some c) : c ∈ tbl := List.mem_of_find?_eq_some h

theorem detectExt_suffix {tbl : List CodecEntry} {path : List Char} {c : CodecEntry}
    (h : detectExt tbl path = some c) : ∃ e ∈ c.exts, e.toList <:+ lowerPath path := by
  unfold detectExt at h
  dsimp only at h
  have hp := List.find?_some h
  obtain ⟨e, he, hs⟩ := List.any_eq_true.mp hp
  exact ⟨e, he, List.isSuffixOf_iff_suffix.mp hs⟩

/-! ## magic-byte detection -/

theorem magicPrefixFree_spec {tbl : List CodecEntry} (h : magicPrefixFree tbl = true)
    {c₁ c₂ : CodecEntry} (h₁ : c₁ ∈ tbl) (h₂ : c₂ ∈ tbl) {m₁ m₂ : Bytes} (hm₁ : c₁.magic = some m₁)
    (hm₂ : c₂.magic = some m₂) (hp : m₁ <+: m₂) : c₁ = c₂ := by
  have := List.all_eq_true.mp (List.all_eq_true.mp h c₁ h₁) c₂ h₂
  simp only [hm₁, hm₂] at this
  rcases Bool.or_eq_true _ _ |>.mp this with h | h
  · exact eq_of_beq h
  · rw [Bool.not_eq_true', ← Bool.not_eq_true, List.isPrefixOf_iff_prefix] at h
    exact absurd hp h

theorem magicSizesOK_spec {tbl : List CodecEntry} (h : magicSizesOK tbl = true) {c : CodecEntry}
    (hc : c ∈ tbl) : ∃ m, c.magic = some m ∧ 0 < m.length ∧ m.length ≤ bufCap := by
  have := List.all_eq_true.mp h c hc
  cases hm : c.magic with
  | none => simp [hm] at this
  | some m =>
    simp only [hm, Bool.and_eq_true, decide_eq_true_eq] at this
    exact ⟨m, rfl, this.1, this.2⟩

theorem prefix_take_of_prefix {m y : Bytes} (n : Nat) (hp : m <+: y) (hl : m.length ≤ n) :
    m <+: y.take n := by
  obtain ⟨t, rfl⟩ := hp
  rw [List.take_append, List.take_of_length_le hl]
  exact List.prefix_append _ _

theorem magicMatches_iff {buf : Bytes} {c : CodecEntry} :
    magicMatches buf c = true ↔ ∃ m, c.magic = some m ∧ m <+: buf := by
  unfold magicMatches
  cases hm : c.magic with
  | none => simp
  | some m =>
    simp only [Bool.and_eq_true, decide_eq_true_eq, List.isPrefixOf_iff_prefix, Option.some.injEq,
      exists_eq_left']
    exact ⟨fun h => h.2, fun h => ⟨h.length_le, h⟩⟩

/-- a buffer that holds at least the first `n ≥ |magic c|` bytes of content starting with the magic
    bytes of `c` is detected as `c` (and as nothing else) -/
theorem detectMagic_take_eq_some {tbl : List CodecEntry} (hpf : magicPrefixFree tbl = true)
    {c : CodecEntry} (hc : c ∈ tbl) {m : Bytes} (hm : c.magic = some m) (hpos : 0 < m.length)
    {n : Nat} (hn : m.length ≤ n) {y : Bytes} (hp : m <+: y) : detectMagic tbl (y.take n) = some c := by
  have hbuf : m <+: y.take n := prefix_take_of_prefix n hp hn
  have hne : (y.take n).isEmpty = false := by
    rw [List.isEmpty_eq_false_iff]
    intro h0
    have := hbuf.length_le
    rw [h0, List.length_nil] at this
    omega
  unfold detectMagic
  simp only [hne, Bool.false_eq_true, if_false]
  apply find?_eq_some_of_unique _ _ _ hc (magicMatches_iff.mpr ⟨m, hm, hbuf⟩)
  intro b hb hpb
  obtain ⟨m₂, hm₂, hp₂⟩ := magicMatches_iff.mp hpb
  rcases List.prefix_or_prefix_of_prefix hbuf hp₂ with h' | h'
  · exact (magicPrefixFree_spec hpf hc hb hm hm₂ h').symm
  · exact magicPrefixFree_spec hpf hb hc hm₂ hm h'

/-- content that starts with no codec's magic bytes is not detected, whatever part of it was peeked -/
theorem detectMagic_take_eq_none {tbl : List CodecEntry} {y : Bytes} (n : Nat)
    (h : ∀ c ∈ tbl, ∀ m, c.magic = some m → ¬ m <+: y) : detectMagic tbl (y.take n) = none := by
  unfold detectMagic
  split
  · rfl
  · rw [List.find?_eq_none]
    intro c hc hmm
    obtain ⟨m, hm, hp⟩ := magicMatches_iff.mp hmm
    exact h c hc m hm (hp.trans (List.take_prefix _ _))

/-! ## sources: the peeked bytes do not depend on the read schedule -/

/-- the longest signature is non-empty and fits the `BufReader` -/
def headLenOK (tbl : List CodecEntry) : Bool := decide (0 < headLen tbl) && decide (headLen tbl ≤ bufCap)

theorem foldl_max_spec (l : List CodecEntry) : ∀ init : Nat,
    init ≤ l.foldl (fun m c => max m (magicLen c)) init ∧
      ∀ c ∈ l, magicLen c ≤ l.foldl (fun m c => max m (magicLen c)) init := by
  induction l with
  | nil => intro init; exact ⟨Nat.le_refl _, by simp⟩
  | cons a l ih =>
    intro init
    obtain ⟨h1, h2⟩ := ih (max init (magicLen a))
    rw [List.foldl_cons]
    refine ⟨by omega, ?_⟩
    intro c hc
    rcases List.mem_cons.mp hc with rfl | hc
    · omega
    · exact h2 c hc

theorem magic_le_headLen {tbl : List CodecEntry} {c : CodecEntry} (hc : c ∈ tbl) {m : Bytes}
    (hm : c.magic = some m) : m.length ≤ headLen tbl := by
  have := (foldl_max_spec tbl 0).2 c hc
  simpa [magicLen, hm, headLen] using this

theorem Src.read_spec (s : Src) (cap : Nat) : ∃ m, m ≤ cap ∧ (0 < cap → 0 < m) ∧
    (s.read cap).1 = s.data.take m ∧ (s.read cap).2.data = s.data.drop m := by
  unfold Src.read
  cases s.sched with
  | nil => exact ⟨cap, Nat.le_refl _, id, rfl, rfl⟩
  | cons k ks => exact ⟨min cap (k + 1), Nat.min_le_left _ _, fun h => by omega, rfl, rfl⟩

/-- `read_head` returns exactly the first `want` bytes of the stream (all of it when it is shorter),
    whatever the read schedule, and loses nothing. -/
theorem readHead_spec : ∀ (fuel want : Nat) (acc : Bytes) (s : Src), acc.length ≤ want →
    want ≤ acc.length + fuel →
      (readHead fuel want acc s).1 = (acc ++ s.data).take want ∧
        (readHead fuel want acc s).1 ++ (readHead fuel want acc s).2.data = acc ++ s.data := by
  intro fuel
  induction fuel with
  | zero =>
    intro want acc s h1 h2
    have : acc.length = want := by omega
    simp only [readHead]
    refine ⟨?_, ?_⟩
    · rw [← this, List.take_left]
    · first | rfl | trivial
  | succ fuel ih =>
    intro want acc s h1 h2
    simp only [readHead]
    split
    · next hlt =>
      obtain ⟨m, hm1, hm2, hr1, hr2⟩ := Src.read_spec s (want - acc.length)
      have hmpos : 0 < m := hm2 (by omega)
      split
      · next hemp =>
        rw [hr1, List.isEmpty_iff, List.take_eq_nil_iff] at hemp
        have hd : s.data = [] := by rcases hemp with h | h; · omega
                                    · exact h
        refine ⟨?_, rfl⟩
        rw [hd, List.append_nil, List.take_of_length_le (by omega)]
      · next hne =>
        have hlen : 0 < (s.read (want - acc.length)).1.length := by
          cases h : (s.read (want - acc.length)).1 with
          | nil => rw [h] at hne; simp at hne
          | cons x xs => simp
        have hle : (s.read (want - acc.length)).1.length ≤ m := by rw [hr1, List.length_take]; omega
        obtain ⟨i1, i2⟩ := ih want (acc ++ (s.read (want - acc.length)).1) (s.read (want - acc.length)).2
          (by rw [List.length_append]; omega) (by rw [List.length_append]; omega)
        have hcat : acc ++ (s.read (want - acc.length)).1 ++ (s.read (want - acc.length)).2.data = acc ++ s.data := by
          rw [hr1, hr2, List.append_assoc, List.take_append_drop]
        rw [hcat] at i1 i2
        exact ⟨i1, i2⟩
    · next hge =>
      have : acc.length = want := by omega
      exact ⟨by rw [← this, List.take_left], rfl⟩

/-- the buffer `detect_from_magic` sees = the first `headLen tbl` bytes of the stream, and
    `head ++ rest` is the whole stream — for EVERY read schedule -/
theorem peek_spec {tbl : List CodecEntry} (hH : headLenOK tbl = true) (s : Src) :
    (peek tbl s).1 = s.data.take (headLen tbl) ∧ (peek tbl s).2.1 ++ (peek tbl s).2.2.data = s.data := by
  simp only [headLenOK, Bool.and_eq_true, decide_eq_true_eq] at hH
  obtain ⟨h1, h2⟩ := readHead_spec (headLen tbl) (headLen tbl) [] s (Nat.zero_le _) (by simp)
  simp only [List.nil_append] at h1 h2
  refine ⟨?_, h2⟩
  simp only [peek, chainFirstFill]
  split
  · next hemp =>
    rw [h1, List.isEmpty_iff, List.take_eq_nil_iff] at hemp
    have hd : s.data = [] := by rcases hemp with h | h; · omega
                                · exact h
    have hrest : (readHead (headLen tbl) (headLen tbl) [] s).2.data = [] :=
      (List.append_eq_nil_iff.mp (h2.trans hd)).2
    obtain ⟨m, _, _, hr1, _⟩ := Src.read_spec (readHead (headLen tbl) (headLen tbl) [] s).2 bufCap
    rw [hr1, hrest, hd]; simp
  · rw [h1, List.take_take]
    congr 1
    omega

theorem readerCodecSrc_eq_spec {tbl : List CodecEntry} (hH : headLenOK tbl = true) (path : List Char)
    (s : Src) : readerCodecSrc tbl path s = readerCodecSpec tbl path s.data := by
  unfold readerCodecSrc readerCodecSpec
  rw [(peek_spec hH s).1]

theorem autoReaderSrc_eq_spec (K : CodecImpl) {tbl : List CodecEntry} (hH : headLenOK tbl = true)
    (path : List Char) (s : Src) : autoReaderSrc K tbl path s = autoReaderSpec K tbl path s.data := by
  unfold autoReaderSrc autoReaderSpec readerCodecSpec
  cases detectExt tbl path with
  | some c => rfl
  | none =>
    simp only
    rw [(peek_spec hH s).1, (peek_spec hH s).2]

theorem autoReader_eq_spec (K : CodecImpl) {tbl : List CodecEntry} (hH : headLenOK tbl = true)
    (path : List Char) (bytes : Bytes) : autoReader K tbl path bytes = autoReaderSpec K tbl path bytes :=
  autoReaderSrc_eq_spec K hH path (Src.full bytes)

/-! ## table ↔ specification -/

theorem spec_of_mem_table {tbl : List CodecEntry} (h : tableMagicOK tbl = true) {c : CodecEntry}
    (hc : c ∈ tbl) : ∃ s, c.magic = some s ∧ (c.name, s) ∈ specSignatures := by
  have heq := eq_of_beq h
  have : (c.name, c.magic) ∈ tbl.map (fun c => (c.name, c.magic)) := List.mem_map.mpr ⟨c, hc, rfl⟩
  rw [heq] at this
  obtain ⟨r, hr, hre⟩ := List.mem_map.mp this
  simp only [Prod.mk.injEq] at hre
  exact ⟨r.2, hre.2.symm, by rw [← hre.1]; exact hr⟩

theorem table_of_mem_spec {tbl : List CodecEntry} (h : tableMagicOK tbl = true) {n : String}
    {s : Bytes} (hs : (n, s) ∈ specSignatures) : ∃ c ∈ tbl, c.name = n ∧ c.magic = some s := by
  have heq := eq_of_beq h
  have : (n, some s) ∈ specSignatures.map (fun r => (r.1, some r.2)) :=
    List.mem_map.mpr ⟨(n, s), hs, rfl⟩
  rw [← heq] at this
  obtain ⟨c, hc, hce⟩ := List.mem_map.mp this
  simp only [Prod.mk.injEq] at hce
  exact ⟨c, hc, hce.1, hce.2⟩

/-! ## the cloud writer's chain -/

theorem cloudWriterCodec_eq {tbl : List CodecEntry} (h : cloudChainOK tbl = true)
    (key : List Char) : cloudWriterCodec key = (detectExt tbl key).map (·.name) := by
  have heq := eq_of_beq h
  unfold cloudWriterCodec detectExt
  dsimp only
  rw [← heq, List.find?_map, Option.map_map]
  rfl

/-! ## the directory part of a path never matters -/

theorem find?_congr_mem {α : Type} {p q : α → Bool} : ∀ {l : List α}, (∀ a ∈ l, p a = q a) →
    l.find? p = l.find? q
  | [], _ => rfl
  | a :: l, h => by
    have ha := h a (List.mem_cons_self)
    have ih := find?_congr_mem (l := l) (fun b hb => h b (List.mem_cons_of_mem _ hb))
    simp only [List.find?_cons, ha, ih]

theorem any_congr_mem {α : Type} {p q : α → Bool} : ∀ {l : List α}, (∀ a ∈ l, p a = q a) →
    l.any p = l.any q
  | [], _ => rfl
  | a :: l, h => by
    have ha := h a (List.mem_cons_self)
    have ih := any_congr_mem (l := l) (fun b hb => h b (List.mem_cons_of_mem _ hb))
    simp only [List.any_cons, ha, ih]

theorem suffix_append_sep_iff {α : Type} {e a b : List α} {x : α} (hx : x ∉ e) :
    e <:+ a ++ x :: b ↔ e <:+ b := by
  constructor
  · intro he
    have hb : b <:+ a ++ x :: b := (List.suffix_cons x b).trans (List.suffix_append a (x :: b))
    by_cases hle : e.length ≤ b.length
    · exact List.suffix_of_suffix_length_le he hb hle
    · have hxb : x :: b <:+ a ++ x :: b := List.suffix_append a (x :: b)
      have : x :: b <:+ e := List.suffix_of_suffix_length_le hxb he (by simp only [List.length_cons]; omega)
      exact absurd (List.IsSuffix.mem (List.mem_cons_self) this) hx
  · intro he
    exact he.trans ((List.suffix_cons x b).trans (List.suffix_append a (x :: b)))

theorem extsWellFormed_no_slash {tbl : List CodecEntry} (h : extsWellFormed tbl = true) {c : CodecEntry}
    (hc : c ∈ tbl) {e : String} (he : e ∈ c.exts) : '/' ∉ e.toList := by
  have := List.all_eq_true.mp h c hc
  simp only [Bool.and_eq_true] at this
  have := List.all_eq_true.mp this.2 e he
  simp only [Bool.and_eq_true] at this
  intro hmem
  have := List.all_eq_true.mp this.1.1 '/' hmem
  revert this
  decide

/-- `detect_from_extension` applied to `dir/name` decides as on `name` alone -/
theorem detectExt_dir_irrelevant {tbl : List CodecEntry} (h : extsWellFormed tbl = true)
    (dir name : List Char) : detectExt tbl (dir ++ '/' :: name) = detectExt tbl name := by
  unfold detectExt
  dsimp only
  apply find?_congr_mem
  intro c hc
  apply any_congr_mem
  intro e he
  have hl : lowerPath (dir ++ '/' :: name) = lowerPath dir ++ '/' :: lowerPath name := by
    unfold lowerPath
    rw [List.flatMap_append, List.flatMap_cons]
    rfl
  rw [hl, Bool.eq_iff_iff, List.isSuffixOf_iff_suffix, List.isSuffixOf_iff_suffix]
  exact suffix_append_sep_iff (extsWellFormed_no_slash h hc he)


/-! ## writer entry points: each stores `autoWriter path (what the sequential writer emits)` -/

theorem jsonlPlain_flatten {ρ : Type} (ser : ρ → Bytes) (parts : List (List ρ)) :
    (parts.map (jsonlPlain ser)).flatten = jsonlPlain ser parts.flatten := by
  induction parts with
  | nil => simp [jsonlPlain]
  | cons p ps ih =>
    rw [List.map_cons, List.flatten_cons, ih]
    simp [jsonlPlain]

/-- `write_jsonl_par` stores exactly what `write_jsonl_vec` stores, for every shard count -/
theorem writeJsonlPar_eq {ρ : Type} (K : CodecImpl) (tbl : List CodecEntry) (ser : ρ → Bytes)
    (path : List Char) (rs : List ρ) (shards : Option Nat) (auto : Nat) :
    writeJsonlPar K tbl ser path rs shards auto = some (writeJsonlVec K tbl ser path rs) := by
  unfold writeJsonlPar writeJsonlVec
  split
  · next h =>
    have : rs = [] := List.eq_nil_of_length_eq_zero h
    subst this; rfl
  · have h := IB.Io.parWriteJsonl_concat rs shards auto
    unfold IB.Io.parWriteJsonl at h
    cases hp : IB.Io.parWriteWith IB.Io.jsonlShardBounds rs shards auto with
    | none => rw [hp] at h; simp at h
    | some parts =>
      rw [hp] at h
      simp only [Option.map_some, Option.some.injEq] at h ⊢
      rw [jsonlPlain_flatten, h]

/-- `write_csv_par` stores exactly what `write_csv_vec` stores, for every shard count and header flag -/
theorem writeCsvPar_eq {ρ : Type} (K : CodecImpl) (tbl : List CodecEntry) (hdr : Bool) (header : Bytes)
    (ser : ρ → Bytes) (path : List Char) (rs : List ρ) (shards : Option Nat) (auto : Nat) :
    writeCsvPar K tbl hdr header ser path rs shards auto = some (writeCsvVec K tbl hdr header ser path rs) := by
  unfold writeCsvPar writeCsvVec csvPlain
  split
  · next h =>
    have : rs = [] := List.eq_nil_of_length_eq_zero h
    subst this
    cases hdr <;> simp [IB.Io.csvWrite]
  · have h := IB.Io.parWriteCsv_eq_seq hdr header ser rs shards auto
    unfold IB.Io.parWriteCsv at h
    cases hp : IB.Io.parWriteCsvParts hdr header ser rs shards auto with
    | none => rw [hp] at h; simp at h
    | some bufs =>
      rw [hp] at h
      simp only [Option.map_some, Option.some.injEq] at h ⊢
      rw [← h, List.flatten_flatten]

theorem pcWriteCsvPar_eq {ρ : Type} (K : CodecImpl) (tbl : List CodecEntry) (hdr : Bool) (header : Bytes)
    (ser : ρ → Bytes) (path : List Char) (rs : List ρ) (n : Nat) :
    pcWriteCsvPar K tbl hdr header ser path rs n = writeCsvVec K tbl hdr header ser path rs := by
  unfold pcWriteCsvPar
  rw [IB.Io.collectParVec_eq]

theorem cloudWriter_eq_autoWriter (K : CodecImpl) {tbl : List CodecEntry} (h : cloudChainOK tbl = true)
    (key : List Char) (x : Bytes) : cloudWriter K key x = autoWriter K tbl key x := by
  unfold cloudWriter autoWriter
  rw [cloudWriterCodec_eq h]
  cases detectExt tbl key <;> rfl

/-! ## reader entry points: each parses `autoReader path file` with its format layer -/

section readers
variable {Line ρ : Type}

theorem mapM_congr_fun {α β : Type} {f g : α → Option β} (l : List α) (h : ∀ a ∈ l, f a = g a) :
    l.mapM f = l.mapM g := by
  induction l with
  | nil => rfl
  | cons a l ih =>
    rw [List.mapM_cons, List.mapM_cons, h a List.mem_cons_self,
      ih (fun b hb => h b (List.mem_cons_of_mem _ hb))]

theorem reader_decodes (K : CodecImpl) (tbl : List CodecEntry) (F : ReadFmt Line ρ) (r : Reader)
    (path : List Char) (file : Bytes) :
    r.run K tbl F path file = (autoReader K tbl path file).bind (r.plain F) := by
  cases r with
  | vec => rfl
  | helper => rfl
  | cloud => rfl
  | streaming per par =>
    simp only [Reader.run, readStreaming, buildShards, readShard]
    cases autoReader K tbl path file with
    | none => rfl
    | some plain =>
      simp only [Option.bind_some, Reader.plain]
      cases F.lines plain with
      | none => rfl
      | some ls =>
        simp only [Option.bind_some, Option.map_some, IB.Io.splitView, IB.Io.seqView]

/-- C09 (`streamed_eq_whole`, `seqView_eq_readAll`): on a plain stream every reader entry point
    returns what `read_*_vec` returns -/
theorem reader_plain_eq_readAll (F : ReadFmt Line ρ) (r : Reader) (plain : Bytes) :
    r.plain F plain = (F.lines plain).bind (IB.Io.readAll F.blank F.de) := by
  cases r with
  | vec => rfl
  | helper => rfl
  | cloud => rfl
  | streaming per par =>
    simp only [Reader.plain]
    cases F.lines plain with
    | none => rfl
    | some ls =>
      simp only [Option.bind_some]
      have h1 := IB.Io.streamed_eq_whole F.blank F.de ls per
      have h2 := IB.Io.seqView_eq_readAll F.blank F.de ls
      cases par with
      | false => simpa using h2
      | true =>
        simp only [if_true]
        cases hs : IB.Io.splitView F.blank F.de ls per with
        | none => simpa using h2
        | some parts => rw [hs] at h1; simpa using h1

end readers

end IB.Compression
