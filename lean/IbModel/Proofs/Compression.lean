import IbModel.Model.Compression
/-!
# Helper lemmas for C10 (detection over a well-formed codec table)

Executable well-formedness checks of a codec table (decided on the generated table in
`Props/C10.lean`) and the lemmas that turn them into facts about `detectExt` / `detectMagic`.
-/
namespace IB.Compression

/-! ## executable table checks -/

/-- (T1) every codec's magic bytes are the true signature of its format (names and order included) -/
def tableMagicOK (tbl : List CodecEntry) : Bool :=
  tbl.map (fun c => (c.name, c.magic)) == specSignatures.map (fun r => (r.1, some r.2))

/-- (T2) the magic byte strings of different codecs are pairwise prefix-free -/
def magicPrefixFree (tbl : List CodecEntry) : Bool :=
  tbl.all fun c₁ => tbl.all fun c₂ =>
    match c₁.magic, c₂.magic with
    | some m₁, some m₂ => c₁ == c₂ || !(m₁.isPrefixOf m₂)
    | _, _ => true

/-- every codec has a non-empty magic that fits the peeked buffer -/
def magicSizesOK (tbl : List CodecEntry) : Bool :=
  tbl.all fun c => match c.magic with
    | some m => decide (0 < m.length) && decide (m.length ≤ bufCap)
    | none => false

def extChar (c : Char) : Bool :=
  (decide ('a' ≤ c) && decide (c ≤ 'z')) || (decide ('0' ≤ c) && decide (c ≤ '9')) || c == '.'

/-- (T3) extensions are lower-case ASCII (`a–z`, `0–9`, `.`) and begin with a dot: an extension with an
    upper-case letter could never match the lower-cased path -/
def extsWellFormed (tbl : List CodecEntry) : Bool :=
  tbl.all fun c => !c.exts.isEmpty &&
    c.exts.all fun e => e.toList.all extChar && e.toList.head? == some '.' && decide (2 ≤ e.toList.length)

/-- (T3') no extension of one codec is a suffix of an extension of another codec -/
def extsSuffixFree (tbl : List CodecEntry) : Bool :=
  tbl.all fun c₁ => tbl.all fun c₂ =>
    c₁ == c₂ || c₁.exts.all fun e₁ => c₂.exts.all fun e₂ => !(e₁.toList.isSuffixOf e₂.toList)

/-- (T4) the hard-coded chain of the cloud writer lists the same codecs / extensions, in order -/
def cloudChainOK (tbl : List CodecEntry) : Bool :=
  tbl.map (fun c => (c.name, c.exts)) == cloudChain

/-! ## generic list facts -/

theorem find?_eq_some_of_unique {α : Type} (p : α → Bool) (l : List α) (a : α) (ha : a ∈ l)
    (hp : p a = true) (huniq : ∀ b ∈ l, p b = true → b = a) : l.find? p = some a := by
  cases h : l.find? p with
  | none => exact absurd hp (List.find?_eq_none.mp h a ha)
  | some b => rw [huniq b (List.mem_of_find?_eq_some h) (List.find?_some h)]

/-! ## extension detection -/

theorem extsSuffixFree_spec {tbl : List CodecEntry} (h : extsSuffixFree tbl = true)
    {c₁ c₂ : CodecEntry} (h₁ : c₁ ∈ tbl) (h₂ : c₂ ∈ tbl) {e₁ e₂ : String} (he₁ : e₁ ∈ c₁.exts)
    (he₂ : e₂ ∈ c₂.exts) (hs : e₁.toList <:+ e₂.toList) : c₁ = c₂ := by
  have := List.all_eq_true.mp (List.all_eq_true.mp h c₁ h₁) c₂ h₂
  rcases Bool.or_eq_true _ _ |>.mp this with h | h
  · exact eq_of_beq h
  · have := List.all_eq_true.mp (List.all_eq_true.mp h e₁ he₁) e₂ he₂
    rw [Bool.not_eq_true', ← Bool.not_eq_true, List.isSuffixOf_iff_suffix] at this
    exact absurd hs this

/-- a path whose lower-cased form ends with an extension of `c` is detected as `c` -/
theorem detectExt_eq_some {tbl : List CodecEntry} (hsf : extsSuffixFree tbl = true)
    {c : CodecEntry} (hc : c ∈ tbl) {e : String} (he : e ∈ c.exts) {path : List Char}
    (h : e.toList <:+ lowerPath path) : detectExt tbl path = some c := by
  unfold detectExt
  apply find?_eq_some_of_unique _ _ _ hc
  · exact List.any_eq_true.mpr ⟨e, he, List.isSuffixOf_iff_suffix.mpr h⟩
  · intro b hb hpb
    obtain ⟨e₂, he₂, hs₂⟩ := List.any_eq_true.mp hpb
    have hs₂ := List.isSuffixOf_iff_suffix.mp hs₂
    rcases List.suffix_or_suffix_of_suffix h hs₂ with h' | h'
    · exact (extsSuffixFree_spec hsf hc hb he he₂ h').symm
    · exact extsSuffixFree_spec hsf hb hc he₂ he h'

theorem detectExt_mem {tbl : List CodecEntry} {path : List Char} {c : CodecEntry}
    (h : detectExt tbl path = some c) : c ∈ tbl := List.mem_of_find?_eq_some h

theorem detectExt_suffix {tbl : List CodecEntry} {path : List Char} {c : CodecEntry}
    (h : detectExt tbl path = some c) : ∃ e ∈ c.exts, e.toList <:+ lowerPath path := by
  unfold detectExt at h
  dsimp only at h
  have hp := List.find?_some h
  obtain ⟨e, he, hs⟩ := List.any_eq_true.mp hp
  exact ⟨e, he, List.isSuffixOf_iff_suffix.mp hs⟩

/-! ## magic-byte detection -/

theorem magicPrefixFree_spec {tbl : List CodecEntry} (h : magicPrefixFree tbl = true)
    {c₁ c₂ : CodecEntry} (h₁ : c₁ ∈ tbl) (h₂ : c₂ ∈ tbl) {m₁ m₂ : Bytes} (hm₁ : c₁.magic = some m₁)
    (hm₂ : c₂.magic = some m₂) (hp : m₁ <+: m₂) : c₁ = c₂ := by
  have := List.all_eq_true.mp (List.all_eq_true.mp h c₁ h₁) c₂ h₂
  simp only [hm₁, hm₂] at this
  rcases Bool.or_eq_true _ _ |>.mp this with h | h
  · exact eq_of_beq h
  · rw [Bool.not_eq_true', ← Bool.not_eq_true, List.isPrefixOf_iff_prefix] at h
    exact absurd hp h

theorem magicSizesOK_spec {tbl : List CodecEntry} (h : magicSizesOK tbl = true) {c : CodecEntry}
    (hc : c ∈ tbl) : ∃ m, c.magic = some m ∧ 0 < m.length ∧ m.length ≤ bufCap := by
  have := List.all_eq_true.mp h c hc
  cases hm : c.magic with
  | none => simp [hm] at this
  | some m =>
    simp only [hm, Bool.and_eq_true, decide_eq_true_eq] at this
    exact ⟨m, rfl, this.1, this.2⟩

theorem prefix_take_of_prefix {m y : Bytes} (n : Nat) (hp : m <+: y) (hl : m.length ≤ n) :
    m <+: y.take n := by
  obtain ⟨t, rfl⟩ := hp
  rw [List.take_append, List.take_of_length_le hl]
  exact List.prefix_append _ _

theorem magicMatches_iff {buf : Bytes} {c : CodecEntry} :
    magicMatches buf c = true ↔ ∃ m, c.magic = some m ∧ m <+: buf := by
  unfold magicMatches
  cases hm : c.magic with
  | none => simp
  | some m =>
    simp only [Bool.and_eq_true, decide_eq_true_eq, List.isPrefixOf_iff_prefix, Option.some.injEq,
      exists_eq_left']
    exact ⟨fun h => h.2, fun h => ⟨h.length_le, h⟩⟩

/-- content that starts with the magic bytes of `c` is detected as `c` (and as nothing else) -/
theorem detectMagic_eq_some {tbl : List CodecEntry} (hpf : magicPrefixFree tbl = true)
    (hsz : magicSizesOK tbl = true) {c : CodecEntry} (hc : c ∈ tbl) {m : Bytes}
    (hm : c.magic = some m) {y : Bytes} (hp : m <+: y) : detectMagic tbl y = some c := by
  obtain ⟨m', hm', hpos, hcap⟩ := magicSizesOK_spec hsz hc
  rw [hm] at hm'; cases hm'
  have hbuf : m <+: y.take bufCap := prefix_take_of_prefix bufCap hp hcap
  have hne : (y.take bufCap).isEmpty = false := by
    rw [List.isEmpty_eq_false_iff]
    intro h0
    have := hbuf.length_le
    rw [h0, List.length_nil] at this
    omega
  unfold detectMagic
  dsimp only
  simp only [hne, Bool.false_eq_true, if_false]
  apply find?_eq_some_of_unique _ _ _ hc (magicMatches_iff.mpr ⟨m, hm, hbuf⟩)
  intro b hb hpb
  obtain ⟨m₂, hm₂, hp₂⟩ := magicMatches_iff.mp hpb
  rcases List.prefix_or_prefix_of_prefix hbuf hp₂ with h' | h'
  · exact (magicPrefixFree_spec hpf hc hb hm hm₂ h').symm
  · exact magicPrefixFree_spec hpf hb hc hm₂ hm h'

/-- content that starts with no codec's magic bytes is not detected -/
theorem detectMagic_eq_none {tbl : List CodecEntry} {y : Bytes}
    (h : ∀ c ∈ tbl, ∀ m, c.magic = some m → ¬ m <+: y) : detectMagic tbl y = none := by
  unfold detectMagic
  dsimp only
  split
  · rfl
  · rw [List.find?_eq_none]
    intro c hc hmm
    obtain ⟨m, hm, hp⟩ := magicMatches_iff.mp hmm
    exact h c hc m hm (hp.trans (List.take_prefix _ _))

/-! ## table ↔ specification -/

theorem spec_of_mem_table {tbl : List CodecEntry} (h : tableMagicOK tbl = true) {c : CodecEntry}
    (hc : c ∈ tbl) : ∃ s, c.magic = some s ∧ (c.name, s) ∈ specSignatures := by
  have heq := eq_of_beq h
  have : (c.name, c.magic) ∈ tbl.map (fun c => (c.name, c.magic)) := List.mem_map.mpr ⟨c, hc, rfl⟩
  rw [heq] at this
  obtain ⟨r, hr, hre⟩ := List.mem_map.mp this
  simp only [Prod.mk.injEq] at hre
  exact ⟨r.2, hre.2.symm, by rw [← hre.1]; exact hr⟩

theorem table_of_mem_spec {tbl : List CodecEntry} (h : tableMagicOK tbl = true) {n : String}
    {s : Bytes} (hs : (n, s) ∈ specSignatures) : ∃ c ∈ tbl, c.name = n ∧ c.magic = some s := by
  have heq := eq_of_beq h
  have : (n, some s) ∈ specSignatures.map (fun r => (r.1, some r.2)) :=
    List.mem_map.mpr ⟨(n, s), hs, rfl⟩
  rw [← heq] at this
  obtain ⟨c, hc, hce⟩ := List.mem_map.mp this
  simp only [Prod.mk.injEq] at hce
  exact ⟨c, hc, hce.1, hce.2⟩

/-! ## the cloud writer's chain -/

theorem cloudWriterCodec_eq {tbl : List CodecEntry} (h : cloudChainOK tbl = true)
    (key : List Char) : cloudWriterCodec key = (detectExt tbl key).map (·.name) := by
  have heq := eq_of_beq h
  unfold cloudWriterCodec detectExt
  dsimp only
  rw [← heq, List.find?_map, Option.map_map]
  rfl

/-! ## the directory part of a path never matters -/

theorem find?_congr_mem {α : Type} {p q : α → Bool} : ∀ {l : List α}, (∀ a ∈ l, p a = q a) →
    l.find? p = l.find? q
  | [], _ => rfl
  | a :: l, h => by
    have ha := h a (List.mem_cons_self)
    have ih := find?_congr_mem (l := l) (fun b hb => h b (List.mem_cons_of_mem _ hb))
    simp only [List.find?_cons, ha, ih]

theorem any_congr_mem {α : Type} {p q : α → Bool} : ∀ {l : List α}, (∀ a ∈ l, p a = q a) →
    l.any p = l.any q
  | [], _ => rfl
  | a :: l, h => by
    have ha := h a (List.mem_cons_self)
    have ih := any_congr_mem (l := l) (fun b hb => h b (List.mem_cons_of_mem _ hb))
    simp only [List.any_cons, ha, ih]

theorem suffix_append_sep_iff {α : Type} {e a b : List α} {x : α} (hx : x ∉ e) :
    e <:+ a ++ x :: b ↔ e <:+ b := by
  constructor
  · intro he
    have hb : b <:+ a ++ x :: b := (List.suffix_cons x b).trans (List.suffix_append a (x :: b))
    by_cases hle : e.length ≤ b.length
    · exact List.suffix_of_suffix_length_le he hb hle
    · have hxb : x :: b <:+ a ++ x :: b := List.suffix_append a (x :: b)
      have : x :: b <:+ e := List.suffix_of_suffix_length_le hxb he (by simp only [List.length_cons]; omega)
      exact absurd (List.IsSuffix.mem (List.mem_cons_self) this) hx
  · intro he
    exact he.trans ((List.suffix_cons x b).trans (List.suffix_append a (x :: b)))

theorem extsWellFormed_no_slash {tbl : List CodecEntry} (h : extsWellFormed tbl = true) {c : CodecEntry}
    (hc : c ∈ tbl) {e : String} (he : e ∈ c.exts) : '/' ∉ e.toList := by
  have := List.all_eq_true.mp h c hc
  simp only [Bool.and_eq_true] at this
  have := List.all_eq_true.mp this.2 e he
  simp only [Bool.and_eq_true] at this
  intro hmem
  have := List.all_eq_true.mp this.1.1 '/' hmem
  revert this
  decide

/-- `detect_from_extension` applied to `dir/name` decides as on `name` alone -/
theorem detectExt_dir_irrelevant {tbl : List CodecEntry} (h : extsWellFormed tbl = true)
    (dir name : List Char) : detectExt tbl (dir ++ '/' :: name) = detectExt tbl name := by
  unfold detectExt
  dsimp only
  apply find?_congr_mem
  intro c hc
  apply any_congr_mem
  intro e he
  have hl : lowerPath (dir ++ '/' :: name) = lowerPath dir ++ '/' :: lowerPath name := by
    unfold lowerPath
    rw [List.flatMap_append, List.flatMap_cons]
    rfl
  rw [hl, Bool.eq_iff_iff, List.isSuffixOf_iff_suffix, List.isSuffixOf_iff_suffix]
  exact suffix_append_sep_iff (extsWellFormed_no_slash h hc he)

end IB.Compression
