import IbModel.Model.Val
import IbModel.Proofs.CombinersDistinct
/-!
# `Val.le` is a total order on ALL of `Val` (total, transitive, antisymmetric)

`Val.cmp` is the structural order (constructor rank, then components); `Val.le` compares `toInt` first and
breaks ties by `cmp`. `cmp a b = .eq ↔ a = b` (this is what the encoded text `enc` could not give on
ill-formed values), `cmp` is oriented (`cmp b a = (cmp a b).swap`) and transitive.
-/
namespace IB
namespace Val

/-- different constructors (up to `nil`/`cons`, which have different ranks too) compare by rank -/
theorem cmp_of_rank_ne {a b : Val} (h : rank a ≠ rank b) : cmp a b = compare (rank a) (rank b) := by
  cases a <;> cases b <;> first | rfl | exact absurd rfl h

theorem cmp_int (a b : Int) : cmp (.int a) (.int b) = compare a b := by simp only [cmp]
theorem cmp_str (a b : String) : cmp (.str a) (.str b) = compare a b := by simp only [cmp]
theorem cmp_some (a b : Val) : cmp (.some a) (.some b) = cmp a b := by simp only [cmp]
theorem cmp_pair (a₁ a₂ b₁ b₂ : Val) :
    cmp (.pair a₁ a₂) (.pair b₁ b₂) = (cmp a₁ b₁).then (cmp a₂ b₂) := by simp only [cmp]
theorem cmp_cons (a₁ a₂ b₁ b₂ : Val) :
    cmp (.cons a₁ a₂) (.cons b₁ b₂) = (cmp a₁ b₁).then (cmp a₂ b₂) := by simp only [cmp]

theorem cmp_self (a : Val) : cmp a a = .eq := by
  induction a with
  | int i => rw [cmp_int]; exact Std.ReflCmp.compare_self
  | str s => rw [cmp_str]; exact Std.ReflCmp.compare_self
  | some v ih => rw [cmp_some]; exact ih
  | pair a b iha ihb => rw [cmp_pair, iha, ihb]; rfl
  | cons a b iha ihb => rw [cmp_cons, iha, ihb]; rfl
  | _ => rfl

/-- the structural order separates ALL values -/
theorem eq_of_cmp_eq {a b : Val} : cmp a b = .eq → a = b := by
  induction a generalizing b with
  | int i =>
    cases b with
    | int j => rw [cmp_int]; intro h; rw [Std.LawfulEqCmp.eq_of_compare h]
    | _ => intro h; exact absurd h (by simp [cmp, rank])
  | str s =>
    cases b with
    | str t => rw [cmp_str]; intro h; rw [Std.LawfulEqCmp.eq_of_compare h]
    | _ => intro h; exact absurd h (by simp [cmp, rank])
  | some v ih =>
    cases b with
    | some w => rw [cmp_some]; intro h; rw [ih h]
    | _ => intro h; exact absurd h (by simp [cmp, rank])
  | pair a₁ a₂ ih₁ ih₂ =>
    cases b with
    | pair b₁ b₂ =>
      rw [cmp_pair, Ordering.then_eq_eq]; intro h; rw [ih₁ h.1, ih₂ h.2]
    | _ => intro h; exact absurd h (by simp [cmp, rank])
  | cons a₁ a₂ ih₁ ih₂ =>
    cases b with
    | cons b₁ b₂ =>
      rw [cmp_cons, Ordering.then_eq_eq]; intro h; rw [ih₁ h.1, ih₂ h.2]
    | _ => intro h; exact absurd h (by simp [cmp, rank])
  | unit => cases b <;> intro h <;> first | rfl | (exfalso; simp [cmp, rank] at h; done)
  | none => cases b <;> intro h <;> first | rfl | (exfalso; simp [cmp, rank] at h; done)
  | nil => cases b <;> intro h <;> first | rfl | (exfalso; simp [cmp, rank] at h; done)
  | err => cases b <;> intro h <;> first | rfl | (exfalso; simp [cmp, rank] at h; done)

theorem cmp_eq_iff {a b : Val} : cmp a b = .eq ↔ a = b :=
  ⟨eq_of_cmp_eq, fun h => h ▸ cmp_self a⟩

/-- orientation -/
theorem cmp_swap (a b : Val) : cmp b a = (cmp a b).swap := by
  induction a generalizing b with
  | int i =>
    cases b with
    | int j => rw [cmp_int, cmp_int]; exact Std.OrientedCmp.eq_swap
    | _ => rfl
  | str s =>
    cases b with
    | str t => rw [cmp_str, cmp_str]; exact Std.OrientedCmp.eq_swap
    | _ => rfl
  | some v ih =>
    cases b with
    | some w => rw [cmp_some, cmp_some]; exact ih w
    | _ => rfl
  | pair a₁ a₂ ih₁ ih₂ =>
    cases b with
    | pair b₁ b₂ => rw [cmp_pair, cmp_pair, Ordering.swap_then, ih₁, ih₂]
    | _ => rfl
  | cons a₁ a₂ ih₁ ih₂ =>
    cases b with
    | cons b₁ b₂ => rw [cmp_cons, cmp_cons, Ordering.swap_then, ih₁, ih₂]
    | _ => rfl
  | _ => cases b <;> rfl

theorem rank_le_of_cmp_lt {a b : Val} (h : cmp a b = .lt) : rank a ≤ rank b := by
  by_cases hr : rank a = rank b
  · omega
  · rw [cmp_of_rank_ne hr, Nat.compare_eq_lt] at h; omega

theorem then_lt_trans {x₁ x₂ y₁ y₂ z₁ z₂ : Ordering}
    (t₁ : x₁ = .lt → y₁ = .lt → z₁ = .lt) (e₁ : x₁ = .eq → z₁ = y₁) (e₁' : y₁ = .eq → z₁ = x₁)
    (t₂ : x₂ = .lt → y₂ = .lt → z₂ = .lt)
    (hx : x₁.then x₂ = .lt) (hy : y₁.then y₂ = .lt) : z₁.then z₂ = .lt := by
  rw [Ordering.then_eq_lt] at hx hy ⊢
  rcases hx with hx | ⟨hx, hx2⟩ <;> rcases hy with hy | ⟨hy, hy2⟩
  · exact Or.inl (t₁ hx hy)
  · exact Or.inl (by rw [e₁' hy]; exact hx)
  · exact Or.inl (by rw [e₁ hx]; exact hy)
  · exact Or.inr ⟨by rw [e₁ hx]; exact hy, t₂ hx2 hy2⟩

theorem cmp_lt_trans {a b c : Val} : cmp a b = .lt → cmp b c = .lt → cmp a c = .lt := by
  induction a generalizing b c with
  | int i =>
    intro h1 h2
    by_cases hr : rank (Val.int i) = rank c
    · have hb : rank (Val.int i) = rank b := by
        have := rank_le_of_cmp_lt h1; have := rank_le_of_cmp_lt h2; omega
      cases b <;> first | (exfalso; simp [rank] at hb; done) | skip
      cases c <;> first | (exfalso; simp [rank] at hr; done) | skip
      rw [cmp_int] at *
      exact Std.TransCmp.lt_trans h1 h2
    · have := rank_le_of_cmp_lt h1; have := rank_le_of_cmp_lt h2
      rw [cmp_of_rank_ne hr, Nat.compare_eq_lt]; omega
  | str s =>
    intro h1 h2
    by_cases hr : rank (Val.str s) = rank c
    · have hb : rank (Val.str s) = rank b := by
        have := rank_le_of_cmp_lt h1; have := rank_le_of_cmp_lt h2; omega
      cases b <;> first | (exfalso; simp [rank] at hb; done) | skip
      cases c <;> first | (exfalso; simp [rank] at hr; done) | skip
      rw [cmp_str] at *
      exact Std.TransCmp.lt_trans h1 h2
    · have := rank_le_of_cmp_lt h1; have := rank_le_of_cmp_lt h2
      rw [cmp_of_rank_ne hr, Nat.compare_eq_lt]; omega
  | some v ih =>
    intro h1 h2
    by_cases hr : rank (Val.some v) = rank c
    · have hb : rank (Val.some v) = rank b := by
        have := rank_le_of_cmp_lt h1; have := rank_le_of_cmp_lt h2; omega
      cases b <;> first | (exfalso; simp [rank] at hb; done) | skip
      cases c <;> first | (exfalso; simp [rank] at hr; done) | skip
      rw [cmp_some] at *
      exact ih h1 h2
    · have := rank_le_of_cmp_lt h1; have := rank_le_of_cmp_lt h2
      rw [cmp_of_rank_ne hr, Nat.compare_eq_lt]; omega
  | pair a₁ a₂ ih₁ ih₂ =>
    intro h1 h2
    by_cases hr : rank (Val.pair a₁ a₂) = rank c
    · have hb : rank (Val.pair a₁ a₂) = rank b := by
        have := rank_le_of_cmp_lt h1; have := rank_le_of_cmp_lt h2; omega
      cases b <;> first | (exfalso; simp [rank] at hb; done) | skip
      cases c <;> first | (exfalso; simp [rank] at hr; done) | skip
      rename_i b₁ b₂ c₁ c₂
      rw [cmp_pair] at *
      refine then_lt_trans ih₁ ?_ ?_ ih₂ h1 h2
      · intro e; rw [eq_of_cmp_eq e]
      · intro e; rw [eq_of_cmp_eq e]
    · have := rank_le_of_cmp_lt h1; have := rank_le_of_cmp_lt h2
      rw [cmp_of_rank_ne hr, Nat.compare_eq_lt]; omega
  | cons a₁ a₂ ih₁ ih₂ =>
    intro h1 h2
    by_cases hr : rank (Val.cons a₁ a₂) = rank c
    · have hb : rank (Val.cons a₁ a₂) = rank b := by
        have := rank_le_of_cmp_lt h1; have := rank_le_of_cmp_lt h2; omega
      cases b <;> first | (exfalso; simp [rank] at hb; done) | skip
      cases c <;> first | (exfalso; simp [rank] at hr; done) | skip
      rename_i b₁ b₂ c₁ c₂
      rw [cmp_cons] at *
      refine then_lt_trans ih₁ ?_ ?_ ih₂ h1 h2
      · intro e; rw [eq_of_cmp_eq e]
      · intro e; rw [eq_of_cmp_eq e]
    · have := rank_le_of_cmp_lt h1; have := rank_le_of_cmp_lt h2
      rw [cmp_of_rank_ne hr, Nat.compare_eq_lt]; omega
  | unit =>
    intro h1 h2
    have := rank_le_of_cmp_lt h1; have := rank_le_of_cmp_lt h2
    by_cases hr : rank Val.unit = rank c
    · have hb : rank Val.unit = rank b := by omega
      cases b <;> first | (exfalso; simp [rank] at hb; done) | (exfalso; simp [cmp, rank] at h1; done)
    · rw [cmp_of_rank_ne hr, Nat.compare_eq_lt]; omega
  | none =>
    intro h1 h2
    have := rank_le_of_cmp_lt h1; have := rank_le_of_cmp_lt h2
    by_cases hr : rank Val.none = rank c
    · have hb : rank Val.none = rank b := by omega
      cases b <;> first | (exfalso; simp [rank] at hb; done) | (exfalso; simp [cmp, rank] at h1; done)
    · rw [cmp_of_rank_ne hr, Nat.compare_eq_lt]; omega
  | nil =>
    intro h1 h2
    have := rank_le_of_cmp_lt h1; have := rank_le_of_cmp_lt h2
    by_cases hr : rank Val.nil = rank c
    · have hb : rank Val.nil = rank b := by omega
      cases b <;> first | (exfalso; simp [rank] at hb; done) | (exfalso; simp [cmp, rank] at h1; done)
    · rw [cmp_of_rank_ne hr, Nat.compare_eq_lt]; omega
  | err =>
    intro h1 h2
    have := rank_le_of_cmp_lt h1; have := rank_le_of_cmp_lt h2
    by_cases hr : rank Val.err = rank c
    · have hb : rank Val.err = rank b := by omega
      cases b <;> first | (exfalso; simp [rank] at hb; done) | (exfalso; simp [cmp, rank] at h1; done)
    · rw [cmp_of_rank_ne hr, Nat.compare_eq_lt]; omega

/-- `≤` of the structural order -/
theorem cmp_isLE_iff {a b : Val} : (cmp a b).isLE = true ↔ cmp a b = .lt ∨ a = b := by
  rw [← cmp_eq_iff]
  cases cmp a b <;> simp [Ordering.isLE]

theorem cmp_isLE_total (a b : Val) : (cmp a b).isLE = true ∨ (cmp b a).isLE = true := by
  rw [cmp_swap a b]
  cases cmp a b <;> simp [Ordering.isLE, Ordering.swap]

theorem cmp_isLE_trans {a b c : Val} (h1 : (cmp a b).isLE = true) (h2 : (cmp b c).isLE = true) :
    (cmp a c).isLE = true := by
  rw [cmp_isLE_iff] at *
  rcases h1 with h1 | rfl
  · rcases h2 with h2 | rfl
    · exact Or.inl (cmp_lt_trans h1 h2)
    · exact Or.inl h1
  · exact h2

theorem cmp_isLE_antisymm {a b : Val} (h1 : (cmp a b).isLE = true) (h2 : (cmp b a).isLE = true) : a = b := by
  rw [cmp_isLE_iff] at *
  rcases h1 with h1 | rfl
  · rcases h2 with h2 | rfl
    · rw [cmp_swap a b, h1] at h2; exact absurd h2 (by decide)
    · rfl
  · rfl

/-! ## `Val.le` -/

theorem le_iff (a b : Val) :
    Val.le a b = true ↔ a.toInt < b.toInt ∨ (a.toInt = b.toInt ∧ (cmp a b).isLE = true) := by
  unfold Val.le
  simp only []
  by_cases h1 : a.toInt < b.toInt
  · simp [h1]
  · by_cases h2 : b.toInt < a.toInt
    · simp only [h1, h2, ↓reduceIte, Bool.false_eq_true, false_iff]
      rintro (h | ⟨h, _⟩) <;> omega
    · have : a.toInt = b.toInt := by omega
      simp [this]

theorem le_total (a b : Val) : Val.le a b = true ∨ Val.le b a = true := by
  rw [le_iff, le_iff]
  rcases cmp_isLE_total a b with h | h
  · by_cases h1 : a.toInt < b.toInt
    · exact Or.inl (Or.inl h1)
    · by_cases h2 : b.toInt < a.toInt
      · exact Or.inr (Or.inl h2)
      · exact Or.inl (Or.inr ⟨by omega, h⟩)
  · by_cases h1 : a.toInt < b.toInt
    · exact Or.inl (Or.inl h1)
    · by_cases h2 : b.toInt < a.toInt
      · exact Or.inr (Or.inl h2)
      · exact Or.inr (Or.inr ⟨by omega, h⟩)

theorem le_trans {a b d : Val} (h1 : Val.le a b = true) (h2 : Val.le b d = true) : Val.le a d = true := by
  rw [le_iff] at *
  rcases h1 with h1 | ⟨h1, e1⟩ <;> rcases h2 with h2 | ⟨h2, e2⟩
  · exact Or.inl (by omega)
  · exact Or.inl (by omega)
  · exact Or.inl (by omega)
  · exact Or.inr ⟨by omega, cmp_isLE_trans e1 e2⟩

/-- antisymmetry on ALL values, ill-formed ones included -/
theorem le_antisymm {a b : Val} (h1 : Val.le a b = true) (h2 : Val.le b a = true) : a = b := by
  rw [le_iff] at *
  rcases h1 with h1 | ⟨h1, e1⟩ <;> rcases h2 with h2 | ⟨h2, e2⟩
  · omega
  · omega
  · omega
  · exact cmp_isLE_antisymm e1 e2

theorem le_refl (a : Val) : Val.le a a = true := by
  rcases le_total a a with h | h <;> exact h

/-- the order the pipeline model sorts by is a total order in the sense C06's TopK theory needs -/
theorem le_totalOrder : Combiners.TotalOrderB Val.le where
  trans _ _ _ h1 h2 := le_trans h1 h2
  total a b := by
    rcases le_total a b with h | h <;> simp [h]
  antisymm _ _ h1 h2 := le_antisymm h1 h2

end Val
end IB
