import IbModel.Model.Closures
/-!
# Insertion-ordered association lists: the generic theory behind every keyed accumulation loop

`upsert`/`upsertFold`/`lookupKV` (Model/Closures.lean) model `HashMap::entry(k).or_insert_with(..)` loops.
Everything is first proved for the slightly more general `upsertWith` (the value stored for a *new* key is
given separately), which also covers the `Entry::Vacant => insert(acc)` arm of `combine_values_lifted`.

* lookup of a fold = fold over the items carrying that key, in order (`lookupKV_upsertFold`);
* keys of a fold = old keys followed by the new keys in first-occurrence order (`keys_upsertFold`);
* `Nodup` keys are preserved (`nodup_keys_upsertFold`);
* extensionality (`alist_ext`).
-/
namespace IB


variable {β γ : Type}

/-! ## keys -/

/-- append `k` unless already present: first-occurrence order -/
def addKey (ks : List Val) (k : Val) : List Val := if k ∈ ks then ks else ks ++ [k]

/-- the distinct keys of `ns` in first-occurrence order, after `ks` -/
def addKeys (ks ns : List Val) : List Val := ns.foldl addKey ks

@[simp] theorem addKeys_nil (ks : List Val) : addKeys ks [] = ks := rfl
@[simp] theorem addKeys_cons (ks : List Val) (n : Val) (ns : List Val) :
    addKeys ks (n :: ns) = addKeys (addKey ks n) ns := rfl
theorem addKeys_append (ks a b : List Val) : addKeys ks (a ++ b) = addKeys (addKeys ks a) b := by
  simp [addKeys, List.foldl_append]

theorem mem_addKey {ks : List Val} {k x : Val} : x ∈ addKey ks k ↔ x ∈ ks ∨ x = k := by
  unfold addKey
  split
  · constructor
    · exact Or.inl
    · rintro (h | rfl) <;> assumption
  · simp

theorem mem_addKeys {ns : List Val} : ∀ {ks : List Val} {x : Val}, x ∈ addKeys ks ns ↔ x ∈ ks ∨ x ∈ ns := by
  induction ns with
  | nil => simp
  | cons n ns ih =>
    intro ks x
    rw [addKeys_cons, ih, mem_addKey]
    simp only [List.mem_cons]
    constructor
    · rintro ((h | h) | h)
      · exact Or.inl h
      · exact Or.inr (Or.inl h)
      · exact Or.inr (Or.inr h)
    · rintro (h | h | h)
      · exact Or.inl (Or.inl h)
      · exact Or.inl (Or.inr h)
      · exact Or.inr h

theorem nodup_addKey {ks : List Val} (h : ks.Nodup) (k : Val) : (addKey ks k).Nodup := by
  unfold addKey
  split
  · exact h
  · rename_i hk
    rw [List.nodup_append]
    refine ⟨h, by simp, ?_⟩
    intro a ha b hb
    simp only [List.mem_singleton] at hb
    subst hb
    intro hab
    subst hab
    exact hk ha

theorem nodup_addKeys {ns : List Val} : ∀ {ks : List Val}, ks.Nodup → (addKeys ks ns).Nodup := by
  induction ns with
  | nil => intro ks h; exact h
  | cons n ns ih => intro ks h; exact ih (nodup_addKey h n)

theorem addKey_of_mem {ks : List Val} {k : Val} (h : k ∈ ks) : addKey ks k = ks := by
  simp [addKey, h]

theorem addKey_of_not_mem {ks : List Val} {k : Val} (h : k ∉ ks) : addKey ks k = ks ++ [k] := by
  simp [addKey, h]

/-- adding the de-duplicated keys is the same as adding the keys -/
theorem addKeys_addKeys (ns : List Val) : ∀ (ks acc : List Val),
    addKeys ks (addKeys acc ns) = addKeys (addKeys ks acc) ns := by
  induction ns with
  | nil => intro ks acc; rfl
  | cons n ns ih =>
    intro ks acc
    rw [addKeys_cons, addKeys_cons, ih]
    congr 1
    by_cases h : n ∈ acc
    · rw [addKey_of_mem h, addKey_of_mem (mem_addKeys.mpr (Or.inr h))]
    · rw [addKey_of_not_mem h, addKeys_append]
      rfl

theorem addKeys_dedup (ks ns : List Val) : addKeys ks (addKeys [] ns) = addKeys ks ns := by
  rw [addKeys_addKeys]; rfl

/-! ## `lookupKV` -/

@[simp] theorem lookupKV_nil (k : Val) : lookupKV ([] : List (Val × β)) k = none := rfl

theorem lookupKV_cons (k' : Val) (b : β) (m : List (Val × β)) (k : Val) :
    lookupKV ((k', b) :: m) k = if k' = k then some b else lookupKV m k := by
  simp [lookupKV]

theorem lookupKV_eq_none_iff (m : List (Val × β)) (k : Val) :
    lookupKV m k = none ↔ k ∉ m.map (·.1) := by
  induction m with
  | nil => simp
  | cons e m ih =>
    obtain ⟨k', b⟩ := e
    rw [lookupKV_cons]
    by_cases h : k' = k
    · simp [h]
    · have h' : ¬ k = k' := fun x => h x.symm
      simp [h, h', ih]

theorem lookupKV_isSome_iff (m : List (Val × β)) (k : Val) :
    (lookupKV m k).isSome ↔ k ∈ m.map (·.1) := by
  have := lookupKV_eq_none_iff m k
  cases h : lookupKV m k with
  | none => simp [h] at this; simpa using this
  | some b =>
    simp only [h, reduceCtorEq, false_iff, Classical.not_not] at this
    simpa using this

theorem lookupKV_mem {m : List (Val × β)} {k : Val} {b : β} (h : lookupKV m k = some b) :
    (k, b) ∈ m := by
  induction m with
  | nil => simp at h
  | cons e m ih =>
    obtain ⟨k', b'⟩ := e
    rw [lookupKV_cons] at h
    by_cases hk : k' = k
    · simp only [hk, ↓reduceIte, Option.some.injEq] at h
      simp [hk, h]
    · simp only [hk, ↓reduceIte] at h
      exact List.mem_cons_of_mem _ (ih h)

theorem lookupKV_append (m1 m2 : List (Val × β)) (k : Val) :
    lookupKV (m1 ++ m2) k = (lookupKV m1 k).or (lookupKV m2 k) := by
  induction m1 with
  | nil => simp
  | cons e m ih =>
    obtain ⟨k', b⟩ := e
    simp only [List.cons_append, lookupKV_cons]
    split
    · rfl
    · exact ih

theorem lookupKV_map (f : β → γ) (m : List (Val × β)) (k : Val) :
    lookupKV (m.map (fun kv => (kv.1, f kv.2))) k = (lookupKV m k).map f := by
  induction m with
  | nil => rfl
  | cons e m ih =>
    obtain ⟨k', b⟩ := e
    simp only [List.map_cons, lookupKV_cons]
    split
    · rfl
    · exact ih

/-- the values of the items carrying key `k`, in order -/
def valuesAt (k : Val) (items : List (Val × γ)) : List γ :=
  (items.filter (fun it => it.1 == k)).map (·.2)

@[simp] theorem valuesAt_nil (k : Val) : valuesAt k ([] : List (Val × γ)) = [] := rfl

theorem valuesAt_cons (k : Val) (it : Val × γ) (items : List (Val × γ)) :
    valuesAt k (it :: items) = if it.1 = k then it.2 :: valuesAt k items else valuesAt k items := by
  unfold valuesAt
  by_cases h : it.1 = k <;> simp [h]

theorem valuesAt_append (k : Val) (a b : List (Val × γ)) :
    valuesAt k (a ++ b) = valuesAt k a ++ valuesAt k b := by
  simp [valuesAt]

theorem valuesAt_flatten (k : Val) (parts : List (List (Val × γ))) :
    valuesAt k parts.flatten = parts.flatMap (valuesAt k) := by
  induction parts with
  | nil => rfl
  | cons p ps ih => simp [valuesAt_append, ih]

theorem valuesAt_eq_nil_iff (k : Val) (items : List (Val × γ)) :
    valuesAt k items = [] ↔ k ∉ items.map (·.1) := by
  induction items with
  | nil => simp
  | cons it items ih =>
    rw [valuesAt_cons]
    by_cases h : it.1 = k
    · simp [h]
    · have h' : ¬ k = it.1 := fun x => h x.symm
      simp [h, h', ih]

/-- in a map with distinct keys the items carrying `k` are exactly the looked-up entry -/
theorem valuesAt_eq_lookup {m : List (Val × β)} (hn : (m.map (·.1)).Nodup) (k : Val) :
    valuesAt k m = (lookupKV m k).toList := by
  induction m with
  | nil => rfl
  | cons e m ih =>
    obtain ⟨k', b⟩ := e
    simp only [List.map_cons, List.nodup_cons] at hn
    rw [valuesAt_cons, lookupKV_cons]
    by_cases h : k' = k
    · subst h
      simp only [↓reduceIte, Option.toList_some]
      have : valuesAt k' m = [] := (valuesAt_eq_nil_iff k' m).mpr hn.1
      rw [this]
    · simp only [h, ↓reduceIte]
      exact ih hn.2

/-! ## `upsertWith`: one `entry(k)` step -/

/-- `match entry(k) { Occupied(e) => f(e), Vacant(e) => e.insert(new) }` -/
def upsertWith (m : List (Val × β)) (k : Val) (new : β) (f : β → β) : List (Val × β) :=
  match m with
  | [] => [(k, new)]
  | (k', b) :: rest => if k' == k then (k', f b) :: rest else (k', b) :: upsertWith rest k new f

theorem upsert_eq_upsertWith (m : List (Val × β)) (k : Val) (init : β) (f : β → β) :
    upsert m k init f = upsertWith m k (f init) f := by
  induction m with
  | nil => rfl
  | cons e m ih => obtain ⟨k', b⟩ := e; simp only [upsert, upsertWith, ih]

theorem upsertWith_of_none {m : List (Val × β)} {k : Val} (h : lookupKV m k = none) (new : β) (f : β → β) :
    upsertWith m k new f = m ++ [(k, new)] := by
  induction m with
  | nil => rfl
  | cons e m ih =>
    obtain ⟨k', b⟩ := e
    rw [lookupKV_cons] at h
    by_cases hk : k' = k
    · simp [hk] at h
    · simp only [hk, ↓reduceIte] at h
      simp [upsertWith, hk, ih h]

theorem keys_upsertWith (m : List (Val × β)) (k : Val) (new : β) (f : β → β) :
    (upsertWith m k new f).map (·.1) = addKey (m.map (·.1)) k := by
  induction m with
  | nil => simp [upsertWith, addKey]
  | cons e m ih =>
    obtain ⟨k', b⟩ := e
    by_cases hk : k' = k
    · subst hk
      simp [upsertWith, addKey]
    · have hk' : ¬ k = k' := fun x => hk x.symm
      simp only [upsertWith, beq_iff_eq, hk, ↓reduceIte, List.map_cons, ih]
      unfold addKey
      by_cases hm : k ∈ m.map (·.1)
      · simp only [hm, ↓reduceIte, List.mem_cons, or_true]
      · simp only [hm, ↓reduceIte, List.mem_cons, hk', or_self, List.cons_append]

theorem lookupKV_upsertWith (m : List (Val × β)) (k : Val) (new : β) (f : β → β) (k2 : Val) :
    lookupKV (upsertWith m k new f) k2 =
      if k2 = k then some ((lookupKV m k).elim new f) else lookupKV m k2 := by
  induction m with
  | nil =>
    simp only [upsertWith, lookupKV_cons, lookupKV_nil, Option.elim_none]
    by_cases h : k2 = k
    · simp [h]
    · have h' : ¬ k = k2 := fun x => h x.symm
      simp [h, h']
  | cons e m ih =>
    obtain ⟨k', b⟩ := e
    by_cases hk : k' = k
    · subst hk
      simp only [upsertWith, beq_self_eq_true, ↓reduceIte, lookupKV_cons, Option.elim_some]
      by_cases h : k2 = k'
      · simp [h]
      · have h' : ¬ k' = k2 := fun x => h x.symm
        simp [h, h']
    · simp only [upsertWith, beq_iff_eq, hk, ↓reduceIte, lookupKV_cons, ih]
      by_cases h : k2 = k
      · subst h
        simp [hk]
      · simp [h]

/-! ## `upsertFoldWith`: the whole loop -/

def upsertFoldWith (new : γ → β) (g : β → γ → β) (m : List (Val × β)) (items : List (Val × γ)) :
    List (Val × β) :=
  items.foldl (fun m it => upsertWith m it.1 (new it.2) (fun b => g b it.2)) m

theorem upsertFold_eq_upsertFoldWith (g : β → γ → β) (init : β) (m : List (Val × β))
    (items : List (Val × γ)) :
    upsertFold g init m items = upsertFoldWith (fun x => g init x) g m items := by
  unfold upsertFold upsertFoldWith
  congr 1
  funext m it
  exact upsert_eq_upsertWith _ _ _ _

@[simp] theorem upsertFoldWith_nil (new : γ → β) (g : β → γ → β) (m : List (Val × β)) :
    upsertFoldWith new g m [] = m := rfl

theorem upsertFoldWith_cons (new : γ → β) (g : β → γ → β) (m : List (Val × β)) (it : Val × γ)
    (items : List (Val × γ)) :
    upsertFoldWith new g m (it :: items) =
      upsertFoldWith new g (upsertWith m it.1 (new it.2) (fun b => g b it.2)) items := rfl

theorem upsertFoldWith_append (new : γ → β) (g : β → γ → β) (m : List (Val × β))
    (a b : List (Val × γ)) :
    upsertFoldWith new g m (a ++ b) = upsertFoldWith new g (upsertFoldWith new g m a) b := by
  simp [upsertFoldWith, List.foldl_append]

/-- folding part by part is folding over the concatenation -/
theorem foldl_upsertFoldWith (new : γ → β) (g : β → γ → β) (m : List (Val × β))
    (parts : List (List (Val × γ))) :
    parts.foldl (fun acc p => upsertFoldWith new g acc p) m = upsertFoldWith new g m parts.flatten := by
  induction parts generalizing m with
  | nil => rfl
  | cons p ps ih => simp [ih, upsertFoldWith_append]

theorem foldl_upsertFold (g : β → γ → β) (init : β) (m : List (Val × β))
    (parts : List (List (Val × γ))) :
    parts.foldl (fun acc p => upsertFold g init acc p) m = upsertFold g init m parts.flatten := by
  simp only [upsertFold_eq_upsertFoldWith]
  exact foldl_upsertFoldWith _ _ _ _

/-- the value an entry ends with: start from the old value (if any); the first item of a new key
    creates the entry with `new`, later ones apply `g` -/
def seedFold (new : γ → β) (g : β → γ → β) : Option β → List γ → Option β
  | ob, [] => ob
  | some b, x :: xs => seedFold new g (some (g b x)) xs
  | none, x :: xs => seedFold new g (some (new x)) xs

@[simp] theorem seedFold_nil (new : γ → β) (g : β → γ → β) (ob : Option β) :
    seedFold new g ob [] = ob := by cases ob <;> rfl

theorem seedFold_some (new : γ → β) (g : β → γ → β) (b : β) (xs : List γ) :
    seedFold new g (some b) xs = some (xs.foldl g b) := by
  induction xs generalizing b with
  | nil => rfl
  | cons x xs ih => simp [seedFold, ih]

theorem seedFold_none_cons (new : γ → β) (g : β → γ → β) (x : γ) (xs : List γ) :
    seedFold new g none (x :: xs) = some (xs.foldl g (new x)) := by
  simp [seedFold, seedFold_some]

theorem seedFold_append (new : γ → β) (g : β → γ → β) (ob : Option β) (xs ys : List γ) :
    seedFold new g ob (xs ++ ys) = seedFold new g (seedFold new g ob xs) ys := by
  induction xs generalizing ob with
  | nil => simp
  | cons x xs ih => cases ob <;> simp [seedFold, ih]

/-- (a) lookup after the loop -/
theorem lookupKV_upsertFoldWith (new : γ → β) (g : β → γ → β) (items : List (Val × γ)) :
    ∀ (m : List (Val × β)) (k : Val),
      lookupKV (upsertFoldWith new g m items) k = seedFold new g (lookupKV m k) (valuesAt k items) := by
  induction items with
  | nil => intro m k; simp
  | cons it items ih =>
    intro m k
    rw [upsertFoldWith_cons, ih, lookupKV_upsertWith, valuesAt_cons]
    by_cases h : it.1 = k
    · have h' : k = it.1 := h.symm
      simp only [h', ↓reduceIte]
      cases hl : lookupKV m it.1 <;> simp [seedFold]
    · have h' : ¬ k = it.1 := fun x => h x.symm
      simp only [h, h', ↓reduceIte]

/-- (b) keys after the loop -/
theorem keys_upsertFoldWith (new : γ → β) (g : β → γ → β) (items : List (Val × γ)) :
    ∀ (m : List (Val × β)),
      (upsertFoldWith new g m items).map (·.1) = addKeys (m.map (·.1)) (items.map (·.1)) := by
  induction items with
  | nil => intro m; rfl
  | cons it items ih =>
    intro m
    rw [upsertFoldWith_cons, ih, keys_upsertWith]
    rfl

/-- (c) distinct keys are preserved -/
theorem nodup_keys_upsertFoldWith (new : γ → β) (g : β → γ → β) (items : List (Val × γ))
    (m : List (Val × β)) (h : (m.map (·.1)).Nodup) :
    ((upsertFoldWith new g m items).map (·.1)).Nodup := by
  rw [keys_upsertFoldWith]; exact nodup_addKeys h

/-! ### the same for `upsertFold` (new entry = `g init x`) -/

/-- (a) the entry of `k` after the loop is the fold of `g` over the items carrying `k`, in order,
    starting from the old entry or `init`; it is absent iff it was absent and no item carries `k` -/
theorem lookupKV_upsertFold (g : β → γ → β) (init : β) (m : List (Val × β)) (items : List (Val × γ))
    (k : Val) :
    lookupKV (upsertFold g init m items) k =
      if valuesAt k items = [] then lookupKV m k
      else some ((valuesAt k items).foldl g ((lookupKV m k).getD init)) := by
  rw [upsertFold_eq_upsertFoldWith, lookupKV_upsertFoldWith]
  cases hv : valuesAt k items with
  | nil => simp
  | cons x xs =>
    cases hl : lookupKV m k with
    | none => simp [seedFold_none_cons]
    | some b => simp [seedFold_some]

theorem lookupKV_upsertFold_eq_none_iff (g : β → γ → β) (init : β) (m : List (Val × β))
    (items : List (Val × γ)) (k : Val) :
    lookupKV (upsertFold g init m items) k = none ↔
      lookupKV m k = none ∧ k ∉ items.map (·.1) := by
  rw [lookupKV_upsertFold, ← valuesAt_eq_nil_iff]
  by_cases h : valuesAt k items = [] <;> simp [h]

/-- (b) keys = old keys, then the new keys in first-occurrence order -/
theorem keys_upsertFold (g : β → γ → β) (init : β) (m : List (Val × β)) (items : List (Val × γ)) :
    (upsertFold g init m items).map (·.1) = addKeys (m.map (·.1)) (items.map (·.1)) := by
  rw [upsertFold_eq_upsertFoldWith, keys_upsertFoldWith]

/-- (c) -/
theorem nodup_keys_upsertFold (g : β → γ → β) (init : β) (m : List (Val × β)) (items : List (Val × γ))
    (h : (m.map (·.1)).Nodup) : ((upsertFold g init m items).map (·.1)).Nodup := by
  rw [keys_upsertFold]; exact nodup_addKeys h

/-! ## (d) extensionality -/

theorem alist_ext_mem : ∀ {m1 m2 : List (Val × β)}, (m1.map (·.1)).Nodup →
    m1.map (·.1) = m2.map (·.1) → (∀ k ∈ m1.map (·.1), lookupKV m1 k = lookupKV m2 k) → m1 = m2 := by
  intro m1
  induction m1 with
  | nil =>
    intro m2 _ hk _
    cases m2 with
    | nil => rfl
    | cons e m2 => simp at hk
  | cons e m1 ih =>
    intro m2 hn hk hl
    cases m2 with
    | nil => simp at hk
    | cons e2 m2 =>
      obtain ⟨k1, b1⟩ := e
      obtain ⟨k2, b2⟩ := e2
      simp only [List.map_cons, List.cons.injEq] at hk
      obtain ⟨hk1, hk2⟩ := hk
      subst hk1
      simp only [List.map_cons, List.nodup_cons] at hn
      have h1 := hl k1 (by simp)
      simp only [lookupKV_cons, ↓reduceIte, Option.some.injEq] at h1
      subst h1
      congr 1
      apply ih hn.2 hk2
      intro k hkm
      have h2 := hl k (by simp [hkm])
      have hne : ¬ k1 = k := by
        intro h; subst h; exact hn.1 hkm
      simpa only [lookupKV_cons, hne, ↓reduceIte] using h2

theorem alist_ext {m1 m2 : List (Val × β)} (hn : (m1.map (·.1)).Nodup)
    (hk : m1.map (·.1) = m2.map (·.1)) (hl : ∀ k, lookupKV m1 k = lookupKV m2 k) : m1 = m2 :=
  alist_ext_mem hn hk (fun k _ => hl k)

/-- extensionality after a value map: same keys and entries that `f` cannot tell apart -/
theorem alist_map_ext {δ : Type} (f : β → δ) {m1 m2 : List (Val × β)} (hn : (m1.map (·.1)).Nodup)
    (hk : m1.map (·.1) = m2.map (·.1))
    (hl : ∀ k, (lookupKV m1 k).map f = (lookupKV m2 k).map f) :
    m1.map (fun kv => (kv.1, f kv.2)) = m2.map (fun kv => (kv.1, f kv.2)) := by
  apply alist_ext
  · simpa [List.map_map, Function.comp_def] using hn
  · simpa [List.map_map, Function.comp_def] using hk
  · intro k; rw [lookupKV_map, lookupKV_map]; exact hl k

end IB
