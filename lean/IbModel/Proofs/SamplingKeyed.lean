import IbModel.Model.Sampling
/-!
Helper lemmas for the per-key sampling pipelines (C14): what the insertion-ordered association lists built by
`local_pairs` and by the keyed `merge` closure hold for one key. Generic in the combiner.
-/
namespace IB.Sampling

variable {κ : Type} [DecidableEq κ] {β : Type}

/-- first entry for key `k` (`HashMap::get`) -/
def lookupK (k : κ) : List (κ × β) → Option β
  | [] => none
  | (k', b) :: r => if k' = k then some b else lookupK k r

/-- the values of key `k`, in input order -/
def valuesOf {V : Type} (k : κ) : List (κ × V) → List V
  | [] => []
  | (k', v) :: r => if k' = k then v :: valuesOf k r else valuesOf k r

theorem valuesOf_append {V : Type} (k : κ) : ∀ (a b : List (κ × V)),
    valuesOf k (a ++ b) = valuesOf k a ++ valuesOf k b
  | [], b => rfl
  | (k', v) :: r, b => by
    simp only [List.cons_append, valuesOf, valuesOf_append k r b]
    split <;> simp

theorem valuesOf_flatten {V : Type} (k : κ) : ∀ (ps : List (List (κ × V))),
    valuesOf k ps.flatten = (ps.map (valuesOf k)).flatten
  | [] => rfl
  | p :: ps => by simp [valuesOf_append, valuesOf_flatten k ps]

theorem valuesOf_eq_nil_iff {V : Type} (k : κ) : ∀ (rows : List (κ × V)),
    valuesOf k rows = [] ↔ k ∉ rows.map Prod.fst
  | [] => by simp [valuesOf]
  | (k', v) :: r => by
    have ih := valuesOf_eq_nil_iff k r
    by_cases h : k' = k
    · simp [valuesOf, h]
    · have h' : ¬ k = k' := fun e => h e.symm
      simp [valuesOf, h, h', ih]

theorem lookupK_eq_none_iff (k : κ) : ∀ (m : List (κ × β)), lookupK k m = none ↔ k ∉ m.map Prod.fst
  | [] => by simp [lookupK]
  | (k', b) :: r => by
    have ih := lookupK_eq_none_iff k r
    by_cases h : k' = k
    · simp [lookupK, h]
    · have h' : ¬ k = k' := fun e => h e.symm
      simp [lookupK, h, h', ih]

theorem lookupK_map {γ : Type} (f : β → γ) (k : κ) : ∀ (m : List (κ × β)),
    lookupK k (m.map (fun ka => (ka.1, f ka.2))) = (lookupK k m).map f
  | [] => rfl
  | (k', b) :: r => by
    simp only [List.map_cons, lookupK, lookupK_map f k r]
    split <;> simp

/-! ## `upsert` -/

theorem lookupK_upsert (init : β) (f : β → β) (k k' : κ) : ∀ (m : List (κ × β)),
    lookupK k' (upsert m k init f) =
      if k = k' then some (f ((lookupK k m).getD init)) else lookupK k' m
  | [] => by
    simp only [upsert, lookupK]
    split <;> simp
  | (k₀, b) :: r => by
    have ih := lookupK_upsert init f k k' r
    by_cases h0 : k₀ = k
    · subst h0
      simp only [upsert, ↓reduceIte, lookupK]
      by_cases h1 : k₀ = k'
      · simp [h1]
      · simp [h1]
    · simp only [upsert, h0, ↓reduceIte, lookupK, ih]
      by_cases h1 : k₀ = k'
      · have : ¬ k = k' := fun e => h0 (h1.trans e.symm)
        simp [h1, this]
      · simp [h1]

theorem keys_upsert (init : β) (f : β → β) (k : κ) : ∀ (m : List (κ × β)),
    (upsert m k init f).map Prod.fst =
      if k ∈ m.map Prod.fst then m.map Prod.fst else m.map Prod.fst ++ [k]
  | [] => by simp [upsert]
  | (k₀, b) :: r => by
    have ih := keys_upsert init f k r
    by_cases h0 : k₀ = k
    · subst h0; simp [upsert]
    · have h0' : ¬ k = k₀ := fun e => h0 e.symm
      simp only [upsert, h0, ↓reduceIte, List.map_cons, ih, List.mem_cons, h0', false_or]
      split <;> simp

theorem nodup_keys_upsert (init : β) (f : β → β) (k : κ) (m : List (κ × β))
    (h : (m.map Prod.fst).Nodup) : ((upsert m k init f).map Prod.fst).Nodup := by
  rw [keys_upsert]
  split
  · exact h
  · rename_i hk
    rw [List.nodup_append]
    refine ⟨h, by simp, ?_⟩
    intro a ha b hb
    simp only [List.mem_singleton] at hb
    subst hb
    intro e; subst e; exact hk ha

/-! ## `local_pairs` -/

variable {V A O : Type}

theorem lookupK_localFold (c : Combiner V A O) (k : κ) : ∀ (rows : List (κ × V)) (m : List (κ × A)),
    lookupK k (rows.foldl (fun m kv => upsert m kv.1 c.create (fun a => c.add a kv.2)) m) =
      if (valuesOf k rows).isEmpty then lookupK k m
      else some (c.foldAdd ((lookupK k m).getD c.create) (valuesOf k rows))
  | [], m => by simp [valuesOf]
  | (k', v) :: r, m => by
    rw [List.foldl_cons, lookupK_localFold c k r]
    simp only [lookupK_upsert]
    by_cases h : k' = k
    · subst h
      simp only [↓reduceIte, valuesOf, List.isEmpty_cons, Bool.false_eq_true, Option.getD_some,
        Combiner.foldAdd_cons]
      split
      · rename_i he
        rw [List.isEmpty_iff] at he
        simp [he]
      · rfl
    · simp only [h, ↓reduceIte, valuesOf]

theorem nodup_keys_localFold (c : Combiner V A O) : ∀ (rows : List (κ × V)) (m : List (κ × A)),
    (m.map Prod.fst).Nodup →
      ((rows.foldl (fun m kv => upsert m kv.1 c.create (fun a => c.add a kv.2)) m).map Prod.fst).Nodup
  | [], m, h => h
  | kv :: r, m, h => by
    rw [List.foldl_cons]
    exact nodup_keys_localFold c r _ (nodup_keys_upsert _ _ _ _ h)

theorem lookupK_localPairs (c : Combiner V A O) (k : κ) (rows : List (κ × V)) :
    lookupK k (localPairs c rows) =
      if (valuesOf k rows).isEmpty then none else some (c.foldAdd c.create (valuesOf k rows)) := by
  unfold localPairs
  rw [lookupK_localFold]
  simp [lookupK]

theorem nodup_keys_localPairs (c : Combiner V A O) (rows : List (κ × V)) :
    ((localPairs c rows).map Prod.fst).Nodup :=
  nodup_keys_localFold c rows [] (by simp)

/-! ## the keyed `merge` closure -/

theorem lookupK_mergeOne (c : Combiner V A O) (k : κ) : ∀ (m accs : List (κ × A)),
    (m.map Prod.fst).Nodup →
    lookupK k (m.foldl (fun accs ka => upsert accs ka.1 c.create (fun e => c.merge e ka.2)) accs) =
      match lookupK k m with
      | none => lookupK k accs
      | some a => some (c.merge ((lookupK k accs).getD c.create) a)
  | [], accs, _ => by simp [lookupK]
  | (k', a') :: r, accs, hnd => by
    simp only [List.map_cons, List.nodup_cons] at hnd
    rw [List.foldl_cons, lookupK_mergeOne c k r _ hnd.2]
    simp only [lookupK_upsert, lookupK]
    by_cases h : k' = k
    · subst h
      have : lookupK k' r = none := (lookupK_eq_none_iff k' r).mpr hnd.1
      simp [this]
    · simp only [h, ↓reduceIte]

theorem nodup_keys_mergeOne (c : Combiner V A O) : ∀ (m accs : List (κ × A)),
    (accs.map Prod.fst).Nodup →
      ((m.foldl (fun accs ka => upsert accs ka.1 c.create (fun e => c.merge e ka.2)) accs).map Prod.fst).Nodup
  | [], accs, h => h
  | ka :: r, accs, h => by
    rw [List.foldl_cons]
    exact nodup_keys_mergeOne c r _ (nodup_keys_upsert _ _ _ _ h)

theorem lookupK_mergeFold (c : Combiner V A O) (k : κ) : ∀ (parts : List (List (κ × A))) (accs : List (κ × A)),
    (∀ m ∈ parts, (m.map Prod.fst).Nodup) →
    lookupK k (parts.foldl (fun accs m =>
        m.foldl (fun accs ka => upsert accs ka.1 c.create (fun e => c.merge e ka.2)) accs) accs) =
      if (parts.filterMap (lookupK k)).isEmpty then lookupK k accs
      else some ((parts.filterMap (lookupK k)).foldl c.merge ((lookupK k accs).getD c.create))
  | [], accs, _ => by simp
  | m :: ps, accs, hnd => by
    have hm := hnd m List.mem_cons_self
    have hps : ∀ m' ∈ ps, (m'.map Prod.fst).Nodup := fun m' h => hnd m' (List.mem_cons_of_mem _ h)
    rw [List.foldl_cons, lookupK_mergeFold c k ps _ hps, lookupK_mergeOne c k m accs hm]
    cases hl : lookupK k m with
    | none => simp [hl]
    | some a =>
      simp only [List.filterMap_cons, hl, List.isEmpty_cons, Bool.false_eq_true, ↓reduceIte,
        List.foldl_cons, Option.getD_some]
      split
      · rename_i he
        rw [List.isEmpty_iff] at he
        simp [he]
      · rfl

theorem nodup_keys_mergeFold (c : Combiner V A O) : ∀ (parts : List (List (κ × A))) (accs : List (κ × A)),
    (accs.map Prod.fst).Nodup →
      ((parts.foldl (fun accs m =>
        m.foldl (fun accs ka => upsert accs ka.1 c.create (fun e => c.merge e ka.2)) accs) accs).map Prod.fst).Nodup
  | [], accs, h => h
  | m :: ps, accs, h => by
    rw [List.foldl_cons]
    exact nodup_keys_mergeFold c ps _ (nodup_keys_mergeOne c m accs h)

/-- the per-partition value lists of key `k`, partitions without the key removed -/
def keyParts (k : κ) (ps : List (List (κ × V))) : List (List V) :=
  (ps.map (valuesOf k)).filter (fun vs => !vs.isEmpty)

theorem keyParts_flatten (k : κ) : ∀ (ps : List (List (κ × V))),
    (keyParts k ps).flatten = valuesOf k ps.flatten
  | [] => rfl
  | p :: ps => by
    have ih := keyParts_flatten k ps
    unfold keyParts at ih ⊢
    simp only [List.map_cons, List.filter_cons, List.flatten_cons, valuesOf_append]
    cases hv : valuesOf k p with
    | nil => simpa using ih
    | cons v vs => simp [ih]

theorem filterMap_lookup_localPairs (c : Combiner V A O) (k : κ) : ∀ (ps : List (List (κ × V))),
    (ps.map (localPairs c)).filterMap (lookupK k) = (keyParts k ps).map (c.foldAdd c.create)
  | [] => rfl
  | p :: ps => by
    have ih := filterMap_lookup_localPairs c k ps
    unfold keyParts at ih ⊢
    simp only [List.map_cons, List.filterMap_cons, lookupK_localPairs, List.filter_cons]
    cases hv : valuesOf k p with
    | nil => simpa using ih
    | cons v vs => simp [ih]

theorem keyParts_isEmpty (k : κ) : ∀ (ps : List (List (κ × V))),
    (keyParts k ps).isEmpty = (valuesOf k ps.flatten).isEmpty
  | [] => rfl
  | p :: ps => by
    have ih := keyParts_isEmpty k ps
    unfold keyParts at ih ⊢
    simp only [List.map_cons, List.filter_cons, List.flatten_cons, valuesOf_append]
    cases hv : valuesOf k p with
    | nil => simpa using ih
    | cons v vs => simp

theorem lookupK_of_mem_nodup (k : κ) (b : β) : ∀ (m : List (κ × β)),
    (m.map Prod.fst).Nodup → (k, b) ∈ m → lookupK k m = some b
  | [], _, h => by simp at h
  | (k', b') :: r, hnd, h => by
    simp only [List.map_cons, List.nodup_cons] at hnd
    simp only [List.mem_cons, Prod.mk.injEq] at h
    rcases h with ⟨rfl, rfl⟩ | h
    · simp [lookupK]
    · have hk : k ∈ r.map Prod.fst := List.mem_map.mpr ⟨(k, b), h, rfl⟩
      have hne : ¬ k' = k := fun e => hnd.1 (e ▸ hk)
      simp only [lookupK, hne, ↓reduceIte]
      exact lookupK_of_mem_nodup k b r hnd.2 h

theorem mem_of_lookupK (k : κ) (b : β) : ∀ (m : List (κ × β)), lookupK k m = some b → (k, b) ∈ m
  | [], h => by simp [lookupK] at h
  | (k', b') :: r, h => by
    by_cases hk : k' = k
    · simp only [lookupK, hk, ↓reduceIte, Option.some.injEq] at h
      simp [hk, h]
    · simp only [lookupK, hk, ↓reduceIte] at h
      exact List.mem_cons_of_mem _ (mem_of_lookupK k b r h)

theorem valuesOf_map_pair (k k' : κ) (vs : List V) :
    valuesOf k (vs.map (fun v => (k', v))) = if k' = k then vs else [] := by
  induction vs with
  | nil => simp [valuesOf]
  | cons v vs ih =>
    simp only [List.map_cons, valuesOf, ih]
    split <;> rfl

/-- the flattened per-key output lists, for each key, exactly that key's sample (in order) -/
theorem valuesOf_flattenKeyed (k : κ) : ∀ (out : List (κ × List V)), (out.map Prod.fst).Nodup →
    valuesOf k (flattenKeyed out) = (lookupK k out).getD []
  | [], _ => rfl
  | (k', vs) :: r, hnd => by
    simp only [List.map_cons, List.nodup_cons] at hnd
    have ih := valuesOf_flattenKeyed k r hnd.2
    simp only [flattenKeyed, List.flatMap_cons, valuesOf_append, valuesOf_map_pair, lookupK] at ih ⊢
    by_cases h : k' = k
    · subst h
      have hn : lookupK k' r = none := (lookupK_eq_none_iff k' r).mpr hnd.1
      rw [hn] at ih
      simp only [↓reduceIte, Option.getD_some]
      rw [ih]; simp
    · simp only [h, ↓reduceIte, List.nil_append]
      exact ih

end IB.Sampling
