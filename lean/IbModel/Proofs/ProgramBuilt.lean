import IbModel.Model.Program
import IbModel.Proofs.ElementwisePlan
import IbModel.Proofs.ElementwiseProgram
import IbModel.Proofs.JoinEngine
import IbModel.Proofs.PlanOK
import IbModel.Props.C05
/-!
# The bridge from the program library (`Model/Program.lean`) to `Built` chains

`ibdriver` answers every `PIPE` request with `runSeq src steps`, `runPar src steps n` or
`runLiteral src steps`, i.e. with the engines applied to `litChain src steps = applySteps [vecSource src] steps`.
`Props/C01.lean::C01_pipeline` speaks about chains `vecSource xs :: rest` with `∀ nd ∈ rest, Built nd`.
This file shows that `litChain src steps` IS such a chain for every program accepted by the decidable
predicate `stepsSupported`, and that a program with two or more top-level joins yields the
"join fed by a join" shape (`NestedShape`) which both engines reject with `nestedCoGroup`.

`SubBuilt` / `Built` (the node classes of `C01_pipeline`) are defined here so that this file can talk
about them; the theorems about them stay in `Props/C01.lean`.

Contents: the decidable coverage predicates (`Step.subSupported`, `Step.supported`, `stepsSupported`,
`stepsNested`, `stepsRightNested`); `litChain_built` / `litChain_one_join` (shape of covered programs);
`litChain_nested` + `nestedShape_rejected`, `litChain_rightNested` + `rightNestedShape_rejected` (nested
joins); `optimise_append_barrier` + `runSeq_snoc_barrier` (the planner does not look across a barrier
node, so a program followed by one barrier step runs as the program, then the step).
-/
namespace IB
open Val

/-! ## the node classes of `C01_pipeline` -/

/-- nodes a sub-plan (join side) may contain, with the facts the contracts need -/
inductive SubBuilt : Node Part → Prop
  /-- a fused or unfused block of partition-homomorphic operators (map, filter, flat_map, key_by,
      map_values, filter_values always; batch maps with an element-wise chunk function — `Props/C02`) -/
  | stateless (ops : List (DynOp Part))
      (h : ∀ op ∈ ops, ∀ ps : List Part, op.apply ps.flatten = (ps.map op.apply).flatten) :
      SubBuilt (.stateless ops)
  | gbk : SubBuilt gbkNode
  | combineValues (c : VCombiner) (R : Val → Val → Prop) (hc : LawfulCombiner c R) :
      SubBuilt (combineValuesNode c)
  | combineValuesLifted (c : VCombiner) (R : Val → Val → Prop) (hc : LawfulCombiner c R) :
      SubBuilt (combineValuesLiftedNode c)
  | combineGlobal (c : VCombiner) (R : Val → Val → Prop) (hc : LawfulCombiner c R) (fo : Option Nat) :
      SubBuilt (combineGlobalNode c fo)
  | combineGlobalLifted (c : VCombiner) (R : Val → Val → Prop) (hc : LawfulCombiner c R) (fo : Option Nat) :
      SubBuilt (combineGlobalLiftedNode c fo)

/-- nodes of a main chain: the above, or a join of two sub-plans over vector sources -/
inductive Built : Node Part → Prop
  | sub {nd : Node Part} (h : SubBuilt nd) : Built nd
  | join (k : JoinKind) (xs ys : List Val) (l r : List (Node Part))
      (hl : ∀ nd ∈ l, SubBuilt nd) (hr : ∀ nd ∈ r, SubBuilt nd) :
      Built (joinNode k (vecSource xs :: l) (vecSource ys :: r))

/-! ## which programs are covered (decidable) -/

/-- chunk functions that are element-wise; `rev` / `sumall` look across their slice and are
    partition-dependent by the operator's documented per-partition semantics (chunks are cut per partition) -/
def BatchFn.supported : BatchFn → Bool
  | .each _ => true
  | _ => false

def Step.isJoin : Step → Bool
  | .join .. => true
  | _ => false

/-- a step that may occur anywhere, including inside a join side: every builder call except a join and
    a batch step with a slice-dependent chunk function. Every combiner of the library — `TopK` included
    (`lawful_topK`, `Props/C05.lean`) — is covered, in all four combine entry points and `top_k_per_key`. -/
def Step.subSupported : Step → Bool
  | .mapBatches _ f => f.supported
  | .mapValuesBatches _ f => f.supported
  | .join .. => false
  | _ => true

/-- a step of the main program: as above, or a join whose right-side program consists of such steps
    (in particular the right side contains no join) -/
def Step.supported : Step → Bool
  | .join _ _ rsteps => rsteps.all Step.subSupported
  | s => s.subSupported

/-- the covered programs: every step supported and AT MOST ONE top-level join (at any position) — a second
    top-level join would have a join in its left lineage (`stepsNested`, rejected by both engines) -/
def stepsSupported (steps : List Step) : Bool :=
  steps.all Step.supported && decide (steps.countP Step.isJoin ≤ 1)

/-- "a join fed by a join": at least two top-level joins -/
def stepsNested (steps : List Step) : Bool := decide (2 ≤ steps.countP Step.isJoin)

theorem Step.isJoin_of_subSupported (s : Step) (h : s.subSupported = true) : s.isJoin = false := by
  cases s with
  | join k rsrc rsteps => simp [Step.subSupported] at h
  | _ => rfl

theorem Step.supported_of_not_join (s : Step) (h : s.isJoin = false) : s.supported = s.subSupported := by
  cases s with
  | join k rsrc rsteps => simp [Step.isJoin] at h
  | _ => rfl

/-! ## the nodes one builder call appends -/

/-- every step but a join APPENDS a fixed list of nodes to the lineage -/
theorem Step.apply_append (acc : List (Node Part)) (s : Step) (h : s.isJoin = false) :
    Step.apply acc s = acc ++ Step.apply [] s := by
  cases s with
  | join k rsrc rsteps => simp [Step.isJoin] at h
  | _ => simp only [Step.apply, List.nil_append, List.append_assoc]

theorem Step.apply_join (acc : List (Node Part)) (k : JoinKind) (rsrc : List Val) (rsteps : List Step) :
    Step.apply acc (.join k rsrc rsteps)
      = [dummySource, joinNode k acc (litChain rsrc rsteps), st (mapOp id)] := by
  simp only [Step.apply, litChain]

theorem applySteps_nil (acc : List (Node Part)) : applySteps acc [] = acc := by rw [applySteps]
theorem applySteps_cons (acc : List (Node Part)) (s : Step) (rest : List Step) :
    applySteps acc (s :: rest) = applySteps (Step.apply acc s) rest := by rw [applySteps]

theorem applySteps_append (a b : List Step) : ∀ acc : List (Node Part),
    applySteps acc (a ++ b) = applySteps (applySteps acc a) b := by
  induction a with
  | nil => intro acc; rw [List.nil_append, applySteps_nil]
  | cons s a ih => intro acc; rw [List.cons_append, applySteps_cons, applySteps_cons, ih]

/-- a join-free program appends the nodes of its steps, in order -/
theorem applySteps_joinFree (steps : List Step) (h : ∀ s ∈ steps, s.isJoin = false) :
    ∀ acc : List (Node Part), applySteps acc steps = acc ++ steps.flatMap (Step.apply []) := by
  induction steps with
  | nil => intro acc; simp [applySteps_nil]
  | cons s rest ih =>
    intro acc
    rw [applySteps_cons, ih (fun x hx => h x (List.mem_cons_of_mem _ hx)),
      Step.apply_append acc s (h s (by simp))]
    simp [List.flatMap_cons]

/-! ## every node of a supported step is `SubBuilt` -/

theorem subBuilt_of_estep (e : EStep) (h : e.ParOK) : SubBuilt e.toNode := by
  refine .stateless [e.toOp] ?_
  intro op hop ps
  have : op = e.toOp := by simpa using hop
  subst this
  exact toOp_flatten e h ps

theorem subBuilt_conv : SubBuilt (st (mapOp id)) := subBuilt_of_estep (.map id) trivial

/-- the library's element-wise chunk functions meet the parallel side condition -/
theorem each_parOK' (n : Nat) (f : Fn) :
    (EStep.mapBatches n (BatchFn.each f).eval).ParOK ∧
    (EStep.mapValuesBatches n (BatchFn.each f).eval).ParOK := by
  refine ⟨⟨fun v => [f.eval v], fun c => ?_⟩, ⟨f.eval, fun _ => rfl⟩⟩
  show c.map f.eval = c.flatMap (fun v => [f.eval v])
  induction c with
  | nil => rfl
  | cons x c ih => simp [ih]

theorem nodes_elementwise (s : Step) (e : EStep) (he : s.toEStep = some e) (hp : e.ParOK) :
    ∀ nd ∈ Step.apply [] s, SubBuilt nd := by
  rw [Step.apply_elementwise [] s e he]
  intro nd hnd
  have : nd = e.toNode := by simpa using hnd
  subst this
  exact subBuilt_of_estep e hp

/-- every combiner of the library is lawful on the nose -/
theorem Comb.lawful (c : Comb) : LawfulCombiner c.toCombiner Eq := lawful_all c

theorem mem_conv_tail {b : Bool} {nd : Node Part} (h : nd ∈ (if b then [st (mapOp id)] else [])) :
    nd = st (mapOp id) := by
  cases b <;> simp at h
  exact h

theorem Step.nodes_subBuilt (s : Step) (h : s.subSupported = true) :
    ∀ nd ∈ Step.apply [] s, SubBuilt nd := by
  cases s with
  | map f => exact nodes_elementwise _ _ rfl trivial
  | filter p => exact nodes_elementwise _ _ rfl trivial
  | flatMap f => exact nodes_elementwise _ _ rfl trivial
  | keyBy k => exact nodes_elementwise _ _ rfl trivial
  | mapBatches n f =>
    cases f with
    | each g => exact nodes_elementwise _ _ rfl (each_parOK' n g).1
    | rev => exact absurd h (by simp [Step.subSupported, BatchFn.supported])
    | sumall => exact absurd h (by simp [Step.subSupported, BatchFn.supported])
    | droplast => exact absurd h (by simp [Step.subSupported, BatchFn.supported])
    | dupfirst => exact absurd h (by simp [Step.subSupported, BatchFn.supported])
    | countrow => exact absurd h (by simp [Step.subSupported, BatchFn.supported])
  | mapValues f => exact nodes_elementwise _ _ rfl trivial
  | filterValues p => exact nodes_elementwise _ _ rfl trivial
  | mapValuesBatches n f =>
    cases f with
    | each g => exact nodes_elementwise _ _ rfl (each_parOK' n g).2
    | rev => exact absurd h (by simp [Step.subSupported, BatchFn.supported])
    | sumall => exact absurd h (by simp [Step.subSupported, BatchFn.supported])
    | droplast => exact absurd h (by simp [Step.subSupported, BatchFn.supported])
    | dupfirst => exact absurd h (by simp [Step.subSupported, BatchFn.supported])
    | countrow => exact absurd h (by simp [Step.subSupported, BatchFn.supported])
  | unkey => exact nodes_elementwise _ _ rfl trivial
  | swapkv => exact nodes_elementwise _ _ rfl trivial
  | values => exact nodes_elementwise _ _ rfl trivial
  | keys => exact nodes_elementwise _ _ rfl trivial
  | topair => exact nodes_elementwise _ _ rfl trivial
  | gbk =>
    intro nd hnd
    simp only [Step.apply, List.nil_append, List.mem_singleton] at hnd
    subst hnd; exact .gbk
  | ungroup => exact nodes_elementwise _ _ rfl trivial
  | glen => exact nodes_elementwise _ _ rfl trivial
  | gsum => exact nodes_elementwise _ _ rfl trivial
  | combineValues c =>
    have hc := Comb.lawful c
    intro nd hnd
    simp only [Step.apply, List.nil_append, List.mem_append, List.mem_singleton] at hnd
    rcases hnd with rfl | hnd
    · exact .combineValues _ Eq hc
    · rw [mem_conv_tail hnd]; exact subBuilt_conv
  | combineValuesLifted c =>
    have hc := Comb.lawful c
    intro nd hnd
    simp only [Step.apply, List.nil_append, List.mem_append, List.mem_singleton] at hnd
    rcases hnd with rfl | hnd
    · exact .combineValuesLifted _ Eq hc
    · rw [mem_conv_tail hnd]; exact subBuilt_conv
  | combineGlobally c fo =>
    have hc := Comb.lawful c
    intro nd hnd
    simp only [Step.apply, List.nil_append, List.mem_append, List.mem_singleton] at hnd
    rcases hnd with rfl | hnd
    · exact .combineGlobal _ Eq hc fo
    · rw [mem_conv_tail hnd]; exact subBuilt_conv
  | combineGloballyLifted c fo =>
    have hc := Comb.lawful c
    intro nd hnd
    simp only [Step.apply, List.nil_append, List.mem_append, List.mem_singleton] at hnd
    rcases hnd with rfl | hnd
    · exact .combineGlobalLifted _ Eq hc fo
    · rw [mem_conv_tail hnd]; exact subBuilt_conv
  | distinct =>
    intro nd hnd
    simp only [Step.apply, List.nil_append, List.mem_cons, List.mem_nil_iff, or_false] at hnd
    rcases hnd with rfl | rfl
    · exact .combineGlobal _ Eq lawful_distinctSet none
    · exact subBuilt_of_estep (.flatMap Val.toList) trivial
  | distinctPerKey =>
    intro nd hnd
    simp only [Step.apply, List.nil_append, List.mem_cons, List.mem_nil_iff, or_false] at hnd
    rcases hnd with rfl | rfl | rfl
    · exact .gbk
    · exact .combineValuesLifted _ Eq lawful_distinctSet
    · exact subBuilt_of_estep (.flatMap ungroupF) trivial
  | topKPerKey k =>
    intro nd hnd
    simp only [Step.apply, List.nil_append, List.mem_singleton] at hnd
    subst hnd; exact .combineValues _ Eq (lawful_topK k)
  | mapSide side => exact nodes_elementwise _ _ rfl trivial
  | filterSide side => exact nodes_elementwise _ _ rfl trivial
  | tryMap => exact nodes_elementwise _ _ rfl trivial
  | unresult => exact nodes_elementwise _ _ rfl trivial
  | debugInspect => exact nodes_elementwise _ _ rfl trivial
  | debugCount => exact nodes_elementwise _ _ rfl trivial
  | debugSample n => exact nodes_elementwise _ _ rfl trivial
  | customOp n => exact nodes_elementwise _ _ rfl trivial
  | mapSideMap => exact nodes_elementwise _ _ rfl trivial
  | join k rsrc rsteps => exact absurd h (by simp [Step.subSupported])
  | tryMapP p => exact nodes_elementwise _ _ rfl trivial
  | tryFlatMap f p =>
    intro nd hnd
    simp only [Step.apply, List.nil_append, List.mem_cons, List.mem_nil_iff, or_false] at hnd
    rcases hnd with rfl | rfl
    · exact subBuilt_of_estep (.map (tryFlatF f p)) trivial
    · exact subBuilt_of_estep (.map (fun x => x)) trivial
  | resMap f => exact nodes_elementwise _ _ rfl trivial
  | resFilter p => exact nodes_elementwise _ _ rfl trivial
  | mapSideMapP pairs => exact nodes_elementwise _ _ rfl trivial
  | customValueOp n cost =>
    intro nd hnd
    simp only [Step.apply, List.nil_append, List.mem_singleton] at hnd
    subst hnd
    refine .stateless _ ?_
    intro op hop ps
    simp only [List.mem_singleton] at hop
    subst hop
    simp [customValueDynOp]

theorem steps_nodes_subBuilt (steps : List Step) (h : steps.all Step.subSupported = true) :
    ∀ nd ∈ steps.flatMap (Step.apply []), SubBuilt nd := by
  intro nd hnd
  obtain ⟨s, hs, hmem⟩ := List.mem_flatMap.mp hnd
  exact Step.nodes_subBuilt s (List.all_eq_true.mp h s hs) nd hmem

theorem steps_joinFree_of_sub (steps : List Step) (h : steps.all Step.subSupported = true) :
    ∀ s ∈ steps, s.isJoin = false :=
  fun s hs => Step.isJoin_of_subSupported s (List.all_eq_true.mp h s hs)

/-- the literal chain of a join-free covered program (also: of each join side) -/
theorem litChain_sub (src : List Val) (steps : List Step) (h : steps.all Step.subSupported = true) :
    ∃ l, litChain src steps = vecSource src :: l ∧ ∀ nd ∈ l, SubBuilt nd :=
  ⟨steps.flatMap (Step.apply []), by
    unfold litChain
    rw [applySteps_joinFree steps (steps_joinFree_of_sub steps h)]; rfl,
   steps_nodes_subBuilt steps h⟩

/-! ## the shape of a covered program -/

/-- a covered program is join-free, or has exactly one top-level join with covered join-free
    programs before it, on its right side, and after it -/
theorem stepsSupported_cases (steps : List Step) (h : stepsSupported steps = true) :
    steps.all Step.subSupported = true ∨
    ∃ pre k rsrc rsteps post, steps = pre ++ Step.join k rsrc rsteps :: post ∧
      pre.all Step.subSupported = true ∧ rsteps.all Step.subSupported = true ∧
      post.all Step.subSupported = true := by
  induction steps with
  | nil => exact Or.inl rfl
  | cons s rest ih =>
    simp only [stepsSupported, Bool.and_eq_true, List.all_cons, decide_eq_true_eq] at h
    obtain ⟨⟨hs, hrest⟩, hcnt⟩ := h
    cases hj : s.isJoin with
    | false =>
      rw [Step.supported_of_not_join s hj] at hs
      have hcnt' : rest.countP Step.isJoin ≤ 1 := by
        rw [List.countP_cons_of_neg (by simp [hj])] at hcnt; exact hcnt
      have hr : stepsSupported rest = true := by
        simp only [stepsSupported, Bool.and_eq_true, decide_eq_true_eq]; exact ⟨hrest, hcnt'⟩
      rcases ih hr with hall | ⟨pre, k, rsrc, rsteps, post, rfl, hpre, hrs, hpost⟩
      · exact Or.inl (by simp only [List.all_cons, hs, hall, Bool.and_self])
      · exact Or.inr ⟨s :: pre, k, rsrc, rsteps, post, rfl,
          by simp only [List.all_cons, hs, hpre, Bool.and_self], hrs, hpost⟩
    | true =>
      have hcnt' : rest.countP Step.isJoin = 0 := by
        rw [List.countP_cons_of_pos (by simp [hj])] at hcnt; omega
      have hnj : ∀ x ∈ rest, x.isJoin = false := by
        intro x hx
        have := List.countP_eq_zero.mp hcnt' x hx
        simpa using this
      have hpost : rest.all Step.subSupported = true := by
        rw [List.all_eq_true]
        intro x hx
        rw [← Step.supported_of_not_join x (hnj x hx)]
        exact List.all_eq_true.mp hrest x hx
      cases s with
      | join k rsrc rsteps => exact Or.inr ⟨[], k, rsrc, rsteps, rest, rfl, rfl, hs, hpost⟩
      | _ => exact absurd hj (by simp [Step.isJoin])

/-- `dummySource` is the vector source of the 1-element dummy vector -/
theorem dummySource_eq : dummySource = vecSource [.int 0] := rfl

/-- exact shape of the literal chain of a covered program with its one join:
    `Step.join` REPLACES the lineage by `[dummy, joinNode k <left lineage> <right lineage>, map id]` -/
theorem litChain_one_join (src : List Val) (pre post : List Step) (k : JoinKind) (rsrc : List Val)
    (rsteps : List Step) (hpre : pre.all Step.subSupported = true)
    (hrs : rsteps.all Step.subSupported = true) (hpost : post.all Step.subSupported = true) :
    ∃ l r p, litChain src (pre ++ Step.join k rsrc rsteps :: post)
        = dummySource :: joinNode k (vecSource src :: l) (vecSource rsrc :: r) :: st (mapOp id) :: p ∧
      (∀ nd ∈ l, SubBuilt nd) ∧ (∀ nd ∈ r, SubBuilt nd) ∧ (∀ nd ∈ p, SubBuilt nd) := by
  obtain ⟨l, hl, hlb⟩ := litChain_sub src pre hpre
  obtain ⟨r, hr, hrb⟩ := litChain_sub rsrc rsteps hrs
  refine ⟨l, r, post.flatMap (Step.apply []), ?_, hlb, hrb, steps_nodes_subBuilt post hpost⟩
  unfold litChain at hl ⊢
  rw [applySteps_append, applySteps_cons, Step.apply_join, hl, hr,
    applySteps_joinFree post (steps_joinFree_of_sub post hpost)]
  rfl

/-- **shape lemma.** The literal chain of every covered program is a vector source (the program's own
    source, or the 1-element dummy source after a join) followed by `Built` nodes only. -/
theorem litChain_built (src : List Val) (steps : List Step) (h : stepsSupported steps = true) :
    ∃ xs rest, (xs = src ∨ vecSource xs = dummySource) ∧
      litChain src steps = vecSource xs :: rest ∧ ∀ nd ∈ rest, Built nd := by
  rcases stepsSupported_cases steps h with hall | ⟨pre, k, rsrc, rsteps, post, rfl, hpre, hrs, hpost⟩
  · obtain ⟨l, hl, hlb⟩ := litChain_sub src steps hall
    exact ⟨src, l, Or.inl rfl, hl, fun nd hnd => .sub (hlb nd hnd)⟩
  · obtain ⟨l, r, p, hshape, hlb, hrb, hpb⟩ := litChain_one_join src pre post k rsrc rsteps hpre hrs hpost
    refine ⟨[.int 0], _, Or.inr rfl, hshape, ?_⟩
    intro nd hnd
    rcases List.mem_cons.mp hnd with rfl | hnd
    · exact .join k src rsrc l r hlb hrb
    · rcases List.mem_cons.mp hnd with rfl | hnd
      · exact .sub subBuilt_conv
      · exact .sub (hpb nd hnd)

/-! ## two or more top-level joins: the nested shape -/

/-- the lineage starts `dummy :: joinNode …` (it went through at least one join) -/
def JoinedShape (acc : List (Node Part)) : Prop :=
  ∃ k l r rest, acc = dummySource :: joinNode k l r :: rest

/-- … and that join's LEFT lineage itself went through a join -/
def NestedShape (acc : List (Node Part)) : Prop :=
  ∃ k l r rest, acc = dummySource :: joinNode k l r :: rest ∧ Join.NestedAfterSource l

theorem JoinedShape.nestedAfterSource {acc : List (Node Part)} (h : JoinedShape acc) :
    Join.NestedAfterSource acc := by
  obtain ⟨k, l, r, rest, rfl⟩ := h
  exact ⟨_, _, _, [], joinNode k l r, rest, rfl, by simp, rfl⟩

theorem joinedShape_apply (acc : List (Node Part)) (s : Step) (h : JoinedShape acc) :
    JoinedShape (Step.apply acc s) := by
  cases hj : s.isJoin with
  | false =>
    obtain ⟨k, l, r, rest, rfl⟩ := h
    rw [Step.apply_append _ s hj]
    exact ⟨k, l, r, rest ++ Step.apply [] s, rfl⟩
  | true =>
    cases s with
    | join k rsrc rsteps => rw [Step.apply_join]; exact ⟨k, _, _, _, rfl⟩
    | _ => exact absurd hj (by simp [Step.isJoin])

theorem nestedShape_apply (acc : List (Node Part)) (s : Step) (h : NestedShape acc) :
    NestedShape (Step.apply acc s) := by
  cases hj : s.isJoin with
  | false =>
    obtain ⟨k, l, r, rest, rfl, hn⟩ := h
    rw [Step.apply_append _ s hj]
    exact ⟨k, l, r, rest ++ Step.apply [] s, rfl, hn⟩
  | true =>
    cases s with
    | join k rsrc rsteps =>
      rw [Step.apply_join]
      obtain ⟨k', l, r, rest, rfl, _⟩ := h
      exact ⟨k, _, _, _, rfl, JoinedShape.nestedAfterSource ⟨k', l, r, rest, rfl⟩⟩
    | _ => exact absurd hj (by simp [Step.isJoin])

theorem nestedShape_applySteps (steps : List Step) : ∀ acc, NestedShape acc →
    NestedShape (applySteps acc steps) := by
  induction steps with
  | nil => intro acc h; rw [applySteps_nil]; exact h
  | cons s rest ih => intro acc h; rw [applySteps_cons]; exact ih _ (nestedShape_apply acc s h)

theorem nestedShape_of_joined (steps : List Step) : ∀ acc, JoinedShape acc →
    1 ≤ steps.countP Step.isJoin → NestedShape (applySteps acc steps) := by
  induction steps with
  | nil => intro acc _ h; simp at h
  | cons s rest ih =>
    intro acc hacc h
    rw [applySteps_cons]
    cases hj : s.isJoin with
    | false =>
      rw [List.countP_cons_of_neg (by simp [hj])] at h
      exact ih _ (joinedShape_apply acc s hacc) h
    | true =>
      apply nestedShape_applySteps
      cases s with
      | join k rsrc rsteps =>
        rw [Step.apply_join]
        exact ⟨k, _, _, _, rfl, hacc.nestedAfterSource⟩
      | _ => exact absurd hj (by simp [Step.isJoin])

theorem nestedShape_of_two (steps : List Step) : ∀ acc : List (Node Part),
    2 ≤ steps.countP Step.isJoin → NestedShape (applySteps acc steps) := by
  induction steps with
  | nil => intro acc h; simp at h
  | cons s rest ih =>
    intro acc h
    rw [applySteps_cons]
    cases hj : s.isJoin with
    | false =>
      rw [List.countP_cons_of_neg (by simp [hj])] at h
      exact ih _ h
    | true =>
      rw [List.countP_cons_of_pos (by simp [hj])] at h
      apply nestedShape_of_joined rest _ _ (by omega)
      cases s with
      | join k rsrc rsteps => rw [Step.apply_join]; exact ⟨k, _, _, _, rfl⟩
      | _ => exact absurd hj (by simp [Step.isJoin])

/-- a program with at least two top-level joins has the "join fed by a join" chain -/
theorem litChain_nested (src : List Val) (steps : List Step) (h : stepsNested steps = true) :
    NestedShape (litChain src steps) :=
  nestedShape_of_two steps _ (by simpa [stepsNested] using h)

/-! ## the planner keeps `source :: coGroup :: …` in front -/

section planner
variable {P : Type}

theorem fuse_coGroup (l r : List (Node P)) (cl cr : List P → P) (ex : P → P → P) (rest : List (Node P)) :
    fuse (.coGroup l r cl cr ex :: rest) = .coGroup l r cl cr ex :: fuse rest := by
  rw [fuse]
  intro a h; cases h

theorem liftGbk_coGroup (l r : List (Node P)) (cl cr : List P → P) (ex : P → P → P) (rest : List (Node P)) :
    liftGbk (.coGroup l r cl cr ex :: rest) = .coGroup l r cl cr ex :: liftGbk rest := by
  rw [liftGbk]
  intro l' m lp lg mm r' h; cases h

theorem dropMid_cons_notMat (m : Node P) (rest : List (Node P)) (hm : Node.isMat m = false) :
    ∃ rest', dropMid (m :: rest) = m :: rest' := by
  cases rest with
  | nil => exact ⟨[], by rw [dropMid]⟩
  | cons n rest =>
    refine ⟨dropMid (n :: rest), ?_⟩
    rw [dropMid]
    intro p h
    subst h
    simp [Node.isMat] at hm

/-- `build_plan` leaves a leading `source :: coGroup` pair in place -/
theorem optimise_source_coGroup (w : P) (len : Nat) (split : Nat → List P)
    (l r : List (Node P)) (cl cr : List P → P) (ex : P → P → P) (rest : List (Node P)) :
    ∃ rest', optimise (.source w len split :: .coGroup l r cl cr ex :: rest)
      = .source w len split :: .coGroup l r cl cr ex :: rest' := by
  unfold optimise
  rw [fuse_source, fuse_coGroup, reorder_source]
  have hr : reorder (.coGroup l r cl cr ex :: fuse rest) = .coGroup l r cl cr ex :: reorder (fuse rest) := rfl
  rw [hr, liftGbk_source, liftGbk_coGroup]
  obtain ⟨r1, h1⟩ := dropMid_cons_notMat (.coGroup l r cl cr ex) (liftGbk (reorder (fuse rest))) rfl
  refine ⟨r1, ?_⟩
  rw [dropMid, h1]
  intro p h; cases h

end planner

/-- a chain of nested shape is rejected by both engines, planned or not, for every partition count
    and whatever follows downstream -/
theorem nestedShape_rejected (chain : List (Node Part)) (h : NestedShape chain) :
    execSeq chain = .error .nestedCoGroup ∧
    (∀ n, execPar List.flatten chain n = .error .nestedCoGroup) ∧
    execSeq (optimise chain) = .error .nestedCoGroup ∧
    (∀ n, execPar List.flatten (optimise chain) n = .error .nestedCoGroup) := by
  obtain ⟨k, l, r, rest, rfl, hn⟩ := h
  have hseq : ∀ rest', execSeq (dummySource :: joinNode k l r :: rest') = .error .nestedCoGroup :=
    fun rest' => Join.execSeq_source_step_err _ _ _ _ rest' _
      (Join.stepSeq_coGroup_left_err _ l r _ _ _ _ (Join.runSubSeq_nested' l hn))
  have hpar : ∀ rest' n, execPar List.flatten (dummySource :: joinNode k l r :: rest') n
      = .error .nestedCoGroup :=
    fun rest' n => Join.execPar_source_step_err _ _ _ _ _ rest' n _
      (Join.stepPar_coGroup_left_err n _ l r _ _ _ _ (Join.runSubPar_nested l hn n))
  obtain ⟨rest', hopt⟩ := optimise_source_coGroup [Val.int 0] 1 (vecSplit [Val.int 0]) l r
    List.flatten List.flatten (joinExec k) rest
  have hopt' : optimise (dummySource :: joinNode k l r :: rest) = dummySource :: joinNode k l r :: rest' := hopt
  refine ⟨hseq rest, hpar rest, ?_, ?_⟩
  · rw [hopt']; exact hseq rest'
  · intro n; rw [hopt']; exact hpar rest' n

/-! ## one top-level join whose RIGHT program contains a join -/

theorem joinedShape_applySteps (steps : List Step) : ∀ acc, JoinedShape acc →
    JoinedShape (applySteps acc steps) := by
  induction steps with
  | nil => intro acc h; rw [applySteps_nil]; exact h
  | cons s rest ih => intro acc h; rw [applySteps_cons]; exact ih _ (joinedShape_apply acc s h)

theorem joinedShape_of_one (steps : List Step) : ∀ acc : List (Node Part),
    1 ≤ steps.countP Step.isJoin → JoinedShape (applySteps acc steps) := by
  induction steps with
  | nil => intro acc h; simp at h
  | cons s rest ih =>
    intro acc h
    rw [applySteps_cons]
    cases hj : s.isJoin with
    | false =>
      rw [List.countP_cons_of_neg (by simp [hj])] at h
      exact ih _ h
    | true =>
      apply joinedShape_applySteps
      cases s with
      | join k rsrc rsteps => rw [Step.apply_join]; exact ⟨k, _, _, _, rfl⟩
      | _ => exact absurd hj (by simp [Step.isJoin])

/-- the join's left lineage runs (meets the sub-plan contract), its right lineage went through a join -/
def RightNestedShape (chain : List (Node Part)) : Prop :=
  ∃ k l r rest, chain = dummySource :: joinNode k l r :: rest ∧
    SubChainOK List.flatten l ∧ Join.NestedAfterSource r

/-- such a chain is rejected by both engines, planned or not, for every partition count -/
theorem rightNestedShape_rejected (chain : List (Node Part)) (h : RightNestedShape chain) :
    execSeq chain = .error .nestedCoGroup ∧
    (∀ n, execPar List.flatten chain n = .error .nestedCoGroup) ∧
    execSeq (optimise chain) = .error .nestedCoGroup ∧
    (∀ n, execPar List.flatten (optimise chain) n = .error .nestedCoGroup) := by
  obtain ⟨k, l, r, rest, rfl, hl, hn⟩ := h
  have hseq : ∀ rest', execSeq (dummySource :: joinNode k l r :: rest') = .error .nestedCoGroup := by
    intro rest'
    obtain ⟨lps, _, hls⟩ := runSub_sim List.flatten (by simp) l hl 0
    exact Join.execSeq_source_step_err _ _ _ _ rest' _
      (Join.stepSeq_coGroup_right_err _ l r _ _ _ _ _ hls (Join.runSubSeq_nested' r hn))
  have hpar : ∀ rest' n, execPar List.flatten (dummySource :: joinNode k l r :: rest') n
      = .error .nestedCoGroup := by
    intro rest' n
    obtain ⟨lps, hlp, _⟩ := runSub_sim List.flatten (by simp) l hl n
    exact Join.execPar_source_step_err _ _ _ _ _ rest' n _
      (Join.stepPar_coGroup_right_err n _ l r _ _ _ _ _ hlp (Join.runSubPar_nested r hn n))
  obtain ⟨rest', hopt⟩ := optimise_source_coGroup [Val.int 0] 1 (vecSplit [Val.int 0]) l r
    List.flatten List.flatten (joinExec k) rest
  have hopt' : optimise (dummySource :: joinNode k l r :: rest) = dummySource :: joinNode k l r :: rest' := hopt
  refine ⟨hseq rest, hpar rest, ?_, ?_⟩
  · rw [hopt']; exact hseq rest'
  · intro n; rw [hopt']; exact hpar rest' n

/-- exactly one top-level join; the steps before it are covered (so the left lineage runs); the join's
    right-side program contains a join; the steps after it are arbitrary join-free steps -/
def stepsRightNested : List Step → Bool
  | [] => false
  | s :: rest =>
    match s with
    | .join _ _ rsteps => decide (1 ≤ rsteps.countP Step.isJoin) && rest.all (fun x => !x.isJoin)
    | _ => s.subSupported && stepsRightNested rest

theorem stepsRightNested_cons_not_join (s : Step) (rest : List Step) (h : s.isJoin = false) :
    stepsRightNested (s :: rest) = (s.subSupported && stepsRightNested rest) := by
  cases s with
  | join k rsrc rsteps => simp [Step.isJoin] at h
  | _ => rfl

theorem stepsRightNested_cases (steps : List Step) (h : stepsRightNested steps = true) :
    ∃ pre k rsrc rsteps post, steps = pre ++ Step.join k rsrc rsteps :: post ∧
      pre.all Step.subSupported = true ∧ 1 ≤ rsteps.countP Step.isJoin ∧
      ∀ x ∈ post, x.isJoin = false := by
  induction steps with
  | nil => simp [stepsRightNested] at h
  | cons s rest ih =>
    cases hj : s.isJoin with
    | false =>
      rw [stepsRightNested_cons_not_join s rest hj, Bool.and_eq_true] at h
      obtain ⟨pre, k, rsrc, rsteps, post, rfl, hpre, hrs, hpost⟩ := ih h.2
      exact ⟨s :: pre, k, rsrc, rsteps, post, rfl, by simp only [List.all_cons, h.1, hpre, Bool.and_self],
        hrs, hpost⟩
    | true =>
      cases s with
      | join k rsrc rsteps =>
        simp only [stepsRightNested, Bool.and_eq_true, decide_eq_true_eq, List.all_eq_true,
          Bool.not_eq_true'] at h
        exact ⟨[], k, rsrc, rsteps, rest, rfl, rfl, h.1, h.2⟩
      | _ => exact absurd hj (by simp [Step.isJoin])

/-- shape of such a program's literal chain -/
theorem litChain_rightNested (src : List Val) (steps : List Step) (h : stepsRightNested steps = true) :
    ∃ k l r rest, litChain src steps = dummySource :: joinNode k (vecSource src :: l) r :: rest ∧
      (∀ nd ∈ l, SubBuilt nd) ∧ Join.NestedAfterSource r := by
  obtain ⟨pre, k, rsrc, rsteps, post, rfl, hpre, hrs, hpost⟩ := stepsRightNested_cases steps h
  obtain ⟨l, hl, hlb⟩ := litChain_sub src pre hpre
  refine ⟨k, l, litChain rsrc rsteps, st (mapOp id) :: post.flatMap (Step.apply []), ?_, hlb,
    (joinedShape_of_one rsteps _ hrs).nestedAfterSource⟩
  unfold litChain at hl ⊢
  rw [applySteps_append, applySteps_cons, Step.apply_join, hl, applySteps_joinFree post hpost]
  rfl

/-! ## composition: a program followed by one barrier step

The planner never moves anything across a `combineGlobal` / `combineValues(no local_groups)` / trailing
`gbk` node, and the sequential engine is a left fold — so the PLANNED run of `pre ++ [barrier step]` is the
planned run of `pre` followed by that step's closures, for EVERY program `pre` (joins, unsupported steps
and failing programs included). -/

section compose
variable {P : Type}

theorem seqFold_append (cur : Option P) (X Y : List (Node P)) :
    seqFold cur (X ++ Y) = (seqFold cur X >>= fun c => seqFold c Y) := by
  simp [seqFold, List.foldlM_append]

/-- a non-empty chain ends with a buffer in hand, or fails -/
theorem seqFold_cons_shape (x : Node P) (X : List (Node P)) : ∀ cur : Option P,
    (∃ e, seqFold cur (x :: X) = .error e) ∨ (∃ b, seqFold cur (x :: X) = .ok (some b)) := by
  induction X generalizing x with
  | nil =>
    intro cur
    rw [seqFold_cons]
    cases h : stepSeq cur x with
    | error e => exact Or.inl ⟨e, rfl⟩
    | ok b => exact Or.inr ⟨b, rfl⟩
  | cons y X ih =>
    intro cur
    rw [seqFold_cons]
    cases h : stepSeq cur x with
    | error e => exact Or.inl ⟨e, rfl⟩
    | ok b => exact ih y (some b)

/-- the sequential run of `X ++ Y` is the run of `X` continued through `Y` -/
theorem execSeq_append (x : Node P) (X Y : List (Node P)) :
    execSeq (x :: X ++ Y) = (execSeq (x :: X) >>= fun b => (seqFold (some b) Y >>= need)) := by
  rw [execSeq_eq_seqFold, execSeq_eq_seqFold, seqFold_append, bind_assoc]
  rcases seqFold_cons_shape x X none with ⟨e, he⟩ | ⟨b, hb⟩
  · rw [he]; rfl
  · rw [hb]; rfl

theorem fuse_cons_barrier (n : Node P) (B : List (Node P)) (hn : ∀ ops, n ≠ .stateless ops) :
    fuse (n :: B) = n :: fuse B := by
  rw [fuse]
  intro a h; exact hn a h

theorem fuse_append_barrier (A : List (Node P)) (n : Node P) (B : List (Node P))
    (hn : ∀ ops, n ≠ .stateless ops) : fuse (A ++ n :: B) = fuse A ++ n :: fuse B := by
  fun_induction fuse A with
  | case1 => exact fuse_cons_barrier n B hn
  | case2 a rest b r hfr ih =>
    rw [List.cons_append, fuse, ih, hfr]
    rfl
  | case3 a rest hfr ih =>
    rw [List.cons_append, fuse, ih]
    cases hfa : fuse rest with
    | nil =>
      cases n with
      | stateless ops => exact absurd rfl (hn ops)
      | _ => rfl
    | cons y ys =>
      cases y with
      | stateless b => exact absurd hfa (hfr b ys)
      | _ => rfl
  | case4 nd rest hnd ih =>
    rw [List.cons_append, fuse_cons_barrier nd _ (fun ops h => hnd ops h), ih]
    rfl

theorem reorder_append (X Y : List (Node P)) : reorder (X ++ Y) = reorder X ++ reorder Y := by
  induction X with
  | nil => rfl
  | cons x X ih => cases x <;> simp only [List.cons_append, reorder, ih]

theorem reorder_cons_barrier (n : Node P) (B : List (Node P)) (hn : ∀ ops, n ≠ .stateless ops) :
    reorder (n :: B) = n :: reorder B := by
  cases n with
  | stateless ops => exact absurd rfl (hn ops)
  | _ => rfl

theorem liftGbk_cons_barrier (n : Node P) (Y : List (Node P))
    (h2 : ∀ l m lp lg mm r, n :: Y ≠ .gbk l m :: .combineValues lp (some lg) mm :: r) :
    liftGbk (n :: Y) = n :: liftGbk Y := by
  rw [liftGbk]
  intro l m lp lg mm r h h'
  exact h2 l m lp lg mm r (by rw [h, h'])

theorem liftGbk_append_barrier (X : List (Node P)) (n : Node P) (Y : List (Node P))
    (h1 : ∀ lp lg m, n ≠ .combineValues lp (some lg) m)
    (h2 : ∀ l m lp lg mm r, n :: Y ≠ .gbk l m :: .combineValues lp (some lg) mm :: r) :
    liftGbk (X ++ n :: Y) = liftGbk X ++ n :: liftGbk Y := by
  fun_induction liftGbk X with
  | case1 l m lp lg mm rest ih =>
    rw [List.cons_append, List.cons_append, liftGbk, ih]
    rfl
  | case2 nd rest hne ih =>
    rw [List.cons_append, liftGbk_cons_barrier nd _ ?_, ih]
    · rfl
    · intro l m lp lg mm r h
      cases rest with
      | nil =>
        simp only [List.nil_append, List.cons.injEq] at h
        exact h1 lp lg mm h.2.1
      | cons y ys =>
        simp only [List.cons_append, List.cons.injEq] at h
        exact hne l m lp lg mm ys h.1 (by rw [h.2.1])
  | case3 => exact liftGbk_cons_barrier n Y h2

theorem fuse_noMat (c : List (Node P)) (h : ∀ n ∈ c, Node.isMat n = false) :
    ∀ n ∈ fuse c, Node.isMat n = false := by
  fun_induction fuse c with
  | case1 => intro n hn; cases hn
  | case2 a rest b r hfr ih =>
    have ih' := ih (fun x hx => h x (List.mem_cons_of_mem _ hx))
    rw [hfr] at ih'
    intro n hn
    rcases List.mem_cons.mp hn with rfl | hn
    · rfl
    · exact ih' n (List.mem_cons_of_mem _ hn)
  | case3 a rest hfr ih =>
    have ih' := ih (fun x hx => h x (List.mem_cons_of_mem _ hx))
    intro n hn
    rcases List.mem_cons.mp hn with rfl | hn
    · rfl
    · exact ih' n hn
  | case4 nd rest hnd ih =>
    have ih' := ih (fun x hx => h x (List.mem_cons_of_mem _ hx))
    intro n hn
    rcases List.mem_cons.mp hn with rfl | hn
    · exact h _ (by simp)
    · exact ih' n hn

theorem reorder_noMat (c : List (Node P)) (h : ∀ n ∈ c, Node.isMat n = false) :
    ∀ n ∈ reorder c, Node.isMat n = false := by
  induction c with
  | nil => intro n hn; cases hn
  | cons nd rest ih =>
    have ih' := ih (fun x hx => h x (List.mem_cons_of_mem _ hx))
    have hnd := h nd (by simp)
    intro n hn
    cases nd <;> simp only [reorder, List.mem_cons] at hn <;> rcases hn with rfl | hn <;>
      first | exact ih' n hn | exact hnd | rfl

theorem liftGbk_noMat (c : List (Node P)) (h : ∀ n ∈ c, Node.isMat n = false) :
    ∀ n ∈ liftGbk c, Node.isMat n = false := by
  fun_induction liftGbk c with
  | case1 l m lp lg mm rest ih =>
    have ih' := ih (fun x hx => h x (by simp [hx]))
    intro n hn
    rcases List.mem_cons.mp hn with rfl | hn
    · rfl
    · exact ih' n hn
  | case2 nd rest hne ih =>
    have ih' := ih (fun x hx => h x (by simp [hx]))
    intro n hn
    rcases List.mem_cons.mp hn with rfl | hn
    · exact h _ (by simp)
    · exact ih' n hn
  | case3 => intro n hn; cases hn

/-- on chains without `Materialized` markers the plan is the first three passes -/
theorem optimise_of_noMat (c : List (Node P)) (h : ∀ n ∈ c, Node.isMat n = false) :
    optimise c = liftGbk (reorder (fuse c)) := by
  unfold optimise
  exact dropMid_of_noMat _ (liftGbk_noMat _ (reorder_noMat _ (fuse_noMat c h)))

/-- **the planner does not look across a barrier node**: for a node `n` that is not a `Stateless` block,
    not a lifted `CombineValues`, and not a `GroupByKey` directly followed by one -/
theorem optimise_append_barrier (A : List (Node P)) (n : Node P) (B : List (Node P))
    (hA : ∀ x ∈ A, Node.isMat x = false) (hnm : Node.isMat n = false) (hB : ∀ x ∈ B, Node.isMat x = false)
    (hn : ∀ ops, n ≠ .stateless ops)
    (h1 : ∀ lp lg m, n ≠ .combineValues lp (some lg) m)
    (h2' : ∀ l m lp lg mm r, n :: reorder (fuse B) ≠ .gbk l m :: .combineValues lp (some lg) mm :: r) :
    optimise (A ++ n :: B) = optimise A ++ n :: optimise B := by
  have hall : ∀ x ∈ A ++ n :: B, Node.isMat x = false := by
    intro x hx
    rcases List.mem_append.mp hx with hx | hx
    · exact hA x hx
    · rcases List.mem_cons.mp hx with rfl | hx
      · exact hnm
      · exact hB x hx
  rw [optimise_of_noMat _ hall, optimise_of_noMat _ hA, optimise_of_noMat _ hB,
    fuse_append_barrier A n B hn, reorder_append, reorder_cons_barrier n _ hn,
    liftGbk_append_barrier _ n _ h1 h2']

end compose

/-! ### … for the chains of the program library -/

theorem Step.nodes_noMat (s : Step) : ∀ n ∈ Step.apply [] s, Node.isMat n = false := by
  have key : (Step.apply [] s).all (fun n => !Node.isMat n) = true := by
    cases s with
    | combineValues c => cases c <;> rfl
    | combineValuesLifted c => cases c <;> rfl
    | combineGlobally c fo => cases c <;> rfl
    | combineGloballyLifted c fo => cases c <;> rfl
    | _ => rfl
  intro n hn
  simpa using List.all_eq_true.mp key n hn

theorem Step.apply_noMat (acc : List (Node Part)) (s : Step) (h : ∀ n ∈ acc, Node.isMat n = false) :
    ∀ n ∈ Step.apply acc s, Node.isMat n = false := by
  cases hj : s.isJoin with
  | false =>
    rw [Step.apply_append acc s hj]
    intro n hn
    rcases List.mem_append.mp hn with hn | hn
    · exact h n hn
    · exact Step.nodes_noMat s n hn
  | true =>
    cases s with
    | join k rsrc rsteps =>
      rw [Step.apply_join]
      intro n hn
      simp only [List.mem_cons, List.mem_nil_iff, or_false] at hn
      rcases hn with rfl | rfl | rfl <;> rfl
    | _ => exact absurd hj (by simp [Step.isJoin])

theorem applySteps_noMat (steps : List Step) : ∀ acc : List (Node Part),
    (∀ n ∈ acc, Node.isMat n = false) → ∀ n ∈ applySteps acc steps, Node.isMat n = false := by
  induction steps with
  | nil => intro acc h; rw [applySteps_nil]; exact h
  | cons s rest ih => intro acc h; rw [applySteps_cons]; exact ih _ (Step.apply_noMat acc s h)

/-- no program of the library puts a `Materialized` marker into its chain -/
theorem litChain_noMat (src : List Val) (steps : List Step) :
    ∀ n ∈ litChain src steps, Node.isMat n = false :=
  applySteps_noMat steps _ (by intro n hn; simp only [List.mem_singleton] at hn; subst hn; rfl)

def StartsWithSource (c : List (Node Part)) : Prop := ∃ w len split rest, c = .source w len split :: rest

theorem Step.apply_source (acc : List (Node Part)) (s : Step) (h : StartsWithSource acc) :
    StartsWithSource (Step.apply acc s) := by
  cases hj : s.isJoin with
  | false =>
    obtain ⟨w, len, split, rest, rfl⟩ := h
    rw [Step.apply_append _ s hj]
    exact ⟨w, len, split, rest ++ Step.apply [] s, rfl⟩
  | true =>
    cases s with
    | join k rsrc rsteps => rw [Step.apply_join]; exact ⟨_, _, _, _, rfl⟩
    | _ => exact absurd hj (by simp [Step.isJoin])

theorem litChain_source (src : List Val) (steps : List Step) : StartsWithSource (litChain src steps) := by
  unfold litChain
  generalize hacc : [vecSource src] = acc
  have h : StartsWithSource acc := by rw [← hacc]; exact ⟨_, _, _, [], rfl⟩
  clear hacc
  induction steps generalizing acc with
  | nil => rw [applySteps_nil]; exact h
  | cons s rest ih => rw [applySteps_cons]; exact ih _ (Step.apply_source acc s h)

/-- the planned chain of a program still starts with a node (its source) -/
theorem optimise_litChain_cons (src : List Val) (steps : List Step) :
    ∃ x X, optimise (litChain src steps) = x :: X := by
  obtain ⟨w, len, split, rest, h⟩ := litChain_source src steps
  rw [optimise_of_noMat _ (litChain_noMat src steps), h, fuse_source, reorder_source, liftGbk_source]
  exact ⟨_, _, rfl⟩

theorem litChain_snoc (src : List Val) (pre : List Step) (s : Step) (hj : s.isJoin = false) :
    litChain src (pre ++ [s]) = litChain src pre ++ Step.apply [] s := by
  unfold litChain
  rw [applySteps_append, applySteps_cons, applySteps_nil, Step.apply_append _ s hj]

/-- **composition.** For EVERY program `pre` and a final non-join step whose nodes are `n :: B` with `n` a
    barrier the planner does not look across and `B` a block the planner leaves alone: the planned
    sequential run of `pre ++ [s]` is the planned run of `pre`, continued through `n :: B`. -/
theorem runSeq_snoc_barrier (src : List Val) (pre : List Step) (s : Step) (hj : s.isJoin = false)
    (n : Node Part) (B : List (Node Part)) (hs : Step.apply [] s = n :: B)
    (hn : ∀ ops, n ≠ .stateless ops)
    (h1 : ∀ lp lg m, n ≠ .combineValues lp (some lg) m)
    (h2 : ∀ l m lp lg mm r, n :: reorder (fuse B) ≠ .gbk l m :: .combineValues lp (some lg) mm :: r)
    (hB : optimise B = B) :
    runSeq src (pre ++ [s]) = (runSeq src pre >>= fun rows => (seqFold (some rows) (n :: B) >>= need)) := by
  have hm := Step.nodes_noMat s
  rw [hs] at hm
  unfold runSeq
  rw [litChain_snoc src pre s hj, hs,
    optimise_append_barrier _ n B (litChain_noMat src pre) (hm n (by simp))
      (fun x hx => hm x (List.mem_cons_of_mem _ hx)) hn h1 h2, hB]
  obtain ⟨x, X, hx⟩ := optimise_litChain_cons src pre
  rw [hx]
  exact execSeq_append x X (n :: B)

theorem stepSeq_conv (rows : Part) : stepSeq (some rows) (st (mapOp id)) = pure rows := by
  show (pure (List.map id rows) : M Part) = pure rows
  rw [List.map_id]

/-- the typed conversion `map` after a combine does not change the rows -/
theorem seqFold_conv_tail (rows : Part) (nd : Node Part) (b : Bool) :
    (seqFold (some rows) (nd :: (if b then [st (mapOp id)] else [])) >>= need) = stepSeq (some rows) nd := by
  cases b with
  | false =>
    simp only [Bool.false_eq_true, ↓reduceIte, seqFold_cons, seqFold_nil, bind_assoc]
    cases stepSeq (some rows) nd <;> rfl
  | true =>
    simp only [↓reduceIte, seqFold_cons, seqFold_nil, bind_assoc, stepSeq_conv]
    cases stepSeq (some rows) nd <;> rfl

theorem optimise_conv_tail (b : Bool) :
    optimise (if b then [st (mapOp id)] else [] : List (Node Part))
      = (if b then [st (mapOp id)] else []) := by
  cases b <;> rfl

end IB
