import IbModel.Proofs.AList
/-!
# `group_by_key`: local grouping, extend-merge, and what the merged map contains

Helper lemmas for C04 (and reused by C05): keys and entries of `groupRows`, of
`mergeGroups (ps.map groupRows)` for an ARBITRARY list of partitions `ps`, the wire round trip
`decGroups ∘ encGroups`, and the multiset conservation lemma.
-/
namespace IB

/-- the values of the rows carrying key `k`, in input order -/
def rowVals (k : Val) (rows : List Val) : List Val := (rows.filter (fun r => r.key == k)).map Val.value

theorem valuesAt_rowKV (k : Val) (rows : List Val) : valuesAt k (rows.map rowKV) = rowVals k rows := by
  unfold valuesAt rowVals
  induction rows with
  | nil => rfl
  | cons r rows ih =>
    simp only [List.map_cons, List.filter_cons, rowKV]
    split <;> simp_all

theorem keys_rowKV (rows : List Val) : (rows.map rowKV).map (·.1) = rows.map Val.key := by
  simp [List.map_map, Function.comp_def, rowKV]

theorem rowVals_append (k : Val) (a b : List Val) : rowVals k (a ++ b) = rowVals k a ++ rowVals k b := by
  simp [rowVals]

theorem rowVals_flatten (k : Val) (ps : List (List Val)) :
    rowVals k ps.flatten = ps.flatMap (rowVals k) := by
  induction ps with
  | nil => rfl
  | cons p ps ih => simp [rowVals_append, ih]

theorem rowVals_eq_nil_iff (k : Val) (rows : List Val) : rowVals k rows = [] ↔ k ∉ rows.map Val.key := by
  rw [← valuesAt_rowKV, valuesAt_eq_nil_iff, keys_rowKV]

/-! ## wire round trips -/

@[simp] theorem decGroups_encGroups (m : List (Val × List Val)) : decGroups (encGroups m) = m := by
  unfold decGroups encGroups
  rw [List.map_map]
  conv => rhs; rw [← List.map_id m]
  apply List.map_congr_left
  intro kv _
  simp [Val.key, Val.value]

@[simp] theorem decAccs_encAccs (m : List (Val × Val)) : decAccs (encAccs m) = m := by
  unfold decAccs encAccs
  rw [List.map_map]
  conv => rhs; rw [← List.map_id m]
  apply List.map_congr_left
  intro kv _
  simp [Val.key, Val.value]

theorem map_dec_map_enc_groups (loc : List Val → List (Val × List Val)) (ps : List (List Val)) :
    (ps.map (fun p => encGroups (loc p))).map decGroups = ps.map loc := by
  simp [List.map_map, Function.comp_def]

/-! ## generic facts about "local map per partition, then merge" -/

/-- if every local map lists the distinct keys of its partition in first-occurrence order, the
    concatenated local key lists add the same keys as the concatenated rows -/
theorem addKeys_flatten_locals {β : Type} (loc : List Val → List (Val × β))
    (hloc : ∀ p, (loc p).map (·.1) = addKeys [] (p.map Val.key)) (ps : List (List Val)) :
    ∀ ks, addKeys ks ((ps.map loc).flatten.map (·.1)) = addKeys ks (ps.flatten.map Val.key) := by
  induction ps with
  | nil => intro ks; rfl
  | cons p ps ih =>
    intro ks
    simp only [List.map_cons, List.flatten_cons, List.map_append, addKeys_append, hloc, addKeys_dedup, ih]

theorem foldl_snoc_eq (init xs : List Val) : xs.foldl (fun vs v => vs ++ [v]) init = init ++ xs := by
  induction xs generalizing init with
  | nil => simp
  | cons x xs ih => simp [ih]

theorem foldl_append_eq (init : List Val) (L : List (List Val)) :
    L.foldl (fun vs ws => vs ++ ws) init = init ++ L.flatten := by
  induction L generalizing init with
  | nil => simp
  | cons x xs ih => simp [ih]

/-- the non-empty per-partition contributions, listed partition by partition -/
def nonemptyParts {α : Type} (f : List Val → List α) (ps : List (List Val)) : List (List α) :=
  ps.flatMap (fun p => if f p = [] then [] else [f p])

theorem nonemptyParts_flatten {α : Type} (f : List Val → List α) (ps : List (List Val)) :
    (nonemptyParts f ps).flatten = ps.flatMap f := by
  unfold nonemptyParts
  induction ps with
  | nil => rfl
  | cons p ps ih =>
    simp only [List.flatMap_cons, List.flatten_append, ih]
    by_cases h : f p = [] <;> simp [h]

theorem nonemptyParts_eq_nil_iff {α : Type} (f : List Val → List α) (ps : List (List Val)) :
    nonemptyParts f ps = [] ↔ ps.flatMap f = [] := by
  unfold nonemptyParts
  induction ps with
  | nil => simp
  | cons p ps ih =>
    simp only [List.flatMap_cons, List.append_eq_nil_iff, ih]
    by_cases h : f p = [] <;> simp [h]

/-! ## `groupRows` -/

theorem keys_groupRows (rows : List Val) : (groupRows rows).map (·.1) = addKeys [] (rows.map Val.key) := by
  unfold groupRows
  rw [keys_upsertFold, keys_rowKV]
  rfl

theorem nodup_keys_groupRows (rows : List Val) : ((groupRows rows).map (·.1)).Nodup := by
  rw [keys_groupRows]; exact nodup_addKeys List.nodup_nil

theorem lookupKV_groupRows (rows : List Val) (k : Val) :
    lookupKV (groupRows rows) k = if rowVals k rows = [] then none else some (rowVals k rows) := by
  unfold groupRows
  rw [lookupKV_upsertFold, valuesAt_rowKV]
  by_cases h : rowVals k rows = []
  · simp [h]
  · simp only [h, ↓reduceIte, lookupKV_nil, Option.getD_none, foldl_snoc_eq, List.nil_append]

theorem valuesAt_groupRows (rows : List Val) (k : Val) :
    valuesAt k (groupRows rows) = if rowVals k rows = [] then [] else [rowVals k rows] := by
  rw [valuesAt_eq_lookup (nodup_keys_groupRows rows), lookupKV_groupRows]
  by_cases h : rowVals k rows = [] <;> simp [h]

/-! ## `mergeGroups` of the local maps of an arbitrary partition list -/

theorem mergeGroups_eq (parts : List (List (Val × List Val))) :
    mergeGroups parts = upsertFold (fun vs ws => vs ++ ws) [] [] parts.flatten := by
  unfold mergeGroups
  exact foldl_upsertFold _ _ _ _

theorem keys_mergeGroups_groupRows (ps : List (List Val)) :
    (mergeGroups (ps.map groupRows)).map (·.1) = addKeys [] (ps.flatten.map Val.key) := by
  rw [mergeGroups_eq, keys_upsertFold]
  exact addKeys_flatten_locals groupRows keys_groupRows ps []

theorem nodup_keys_mergeGroups (parts : List (List (Val × List Val))) :
    ((mergeGroups parts).map (·.1)).Nodup := by
  rw [mergeGroups_eq]
  exact nodup_keys_upsertFold _ _ _ _ List.nodup_nil

theorem lookupKV_mergeGroups_groupRows (ps : List (List Val)) (k : Val) :
    lookupKV (mergeGroups (ps.map groupRows)) k =
      if rowVals k ps.flatten = [] then none else some (rowVals k ps.flatten) := by
  rw [mergeGroups_eq, lookupKV_upsertFold, valuesAt_flatten]
  have hv : (ps.map groupRows).flatMap (valuesAt k) = nonemptyParts (rowVals k) ps := by
    unfold nonemptyParts
    rw [List.flatMap_map]
    congr 1
    funext p
    exact valuesAt_groupRows p k
  rw [hv, rowVals_flatten]
  by_cases h : ps.flatMap (rowVals k) = []
  · simp [h, (nonemptyParts_eq_nil_iff (rowVals k) ps).mpr h]
  · have h' : nonemptyParts (rowVals k) ps ≠ [] := fun x => h ((nonemptyParts_eq_nil_iff _ ps).mp x)
    simp [h, h', foldl_append_eq, nonemptyParts_flatten]

/-- the literal GBK contract at map level: merging the local maps of ANY partition list is merging the
    single local map of the concatenation (same keys in the same order, same value lists) -/
theorem mergeGroups_contract (ps : List (List Val)) :
    mergeGroups (ps.map groupRows) = mergeGroups [groupRows ps.flatten] := by
  apply alist_ext (nodup_keys_mergeGroups _)
  · have h := keys_mergeGroups_groupRows [ps.flatten]
    simp only [List.map_cons, List.map_nil, List.flatten_cons, List.flatten_nil, List.append_nil] at h
    rw [keys_mergeGroups_groupRows, h]
  · intro k
    have h := lookupKV_mergeGroups_groupRows [ps.flatten] k
    simp only [List.map_cons, List.map_nil, List.flatten_cons, List.flatten_nil, List.append_nil] at h
    rw [lookupKV_mergeGroups_groupRows, h]

/-! ## multiset conservation -/

theorem flatMap_congr_mem {α β : Type} {l : List α} {f g : α → List β} (h : ∀ a ∈ l, f a = g a) :
    l.flatMap f = l.flatMap g := by
  induction l with
  | nil => rfl
  | cons a l ih =>
    simp only [List.flatMap_cons]
    rw [h a (by simp), ih (fun b hb => h b (by simp [hb]))]

theorem lookupKV_of_mem_nodup {β : Type} {m : List (Val × β)} (hn : (m.map (·.1)).Nodup)
    {k : Val} {b : β} (h : (k, b) ∈ m) : lookupKV m k = some b := by
  induction m with
  | nil => simp at h
  | cons e m ih =>
    obtain ⟨k', b'⟩ := e
    simp only [List.map_cons, List.nodup_cons] at hn
    rw [lookupKV_cons]
    rcases List.mem_cons.mp h with heq | hm
    · simp only [Prod.mk.injEq] at heq
      simp [heq.1, heq.2]
    · have hne : ¬ k' = k := by
        intro hk
        subst hk
        exact hn.1 (List.mem_map.mpr ⟨(k', b), hm, rfl⟩)
      simp only [hne, ↓reduceIte]
      exact ih hn.2 hm

/-- regrouping rows by a duplicate-free key list that covers all keys is a permutation -/
theorem flatMap_filter_perm (F : Val → Val) : ∀ (ks : List Val) (rows : List Val), ks.Nodup →
    (∀ r ∈ rows, r.key ∈ ks) →
    (ks.flatMap (fun k => (rows.filter (fun r => r.key == k)).map F)).Perm (rows.map F) := by
  intro ks
  induction ks with
  | nil =>
    intro rows _ h
    cases rows with
    | nil => exact List.Perm.refl _
    | cons r rows => exact absurd (h r (by simp)) (by simp)
  | cons k ks ih =>
    intro rows hn h
    simp only [List.nodup_cons] at hn
    let rows' := rows.filter (fun r => !(r.key == k))
    have hrows' : ∀ r ∈ rows', r.key ∈ ks := by
      intro r hr
      have hr' := List.mem_filter.mp hr
      have h1 := h r hr'.1
      have h2 : ¬ r.key = k := by simpa using hr'.2
      rcases List.mem_cons.mp h1 with h3 | h3
      · exact absurd h3 h2
      · exact h3
    have hcongr : ks.flatMap (fun k2 => (rows.filter (fun r => r.key == k2)).map F) =
        ks.flatMap (fun k2 => (rows'.filter (fun r => r.key == k2)).map F) := by
      apply flatMap_congr_mem
      intro k2 hk2
      have hne : ¬ k2 = k := by intro hh; subst hh; exact hn.1 hk2
      congr 1
      rw [List.filter_filter]
      apply List.filter_congr
      intro r _
      by_cases hr : r.key = k2
      · subst hr; simp [hne]
      · simp [hr]
    rw [List.flatMap_cons, hcongr]
    have h1 := ih rows' hn.2 hrows'
    have h2 : ((rows.filter (fun r => r.key == k)).map F ++ rows'.map F).Perm (rows.map F) := by
      rw [← List.map_append]
      exact (List.filter_append_perm (fun r => r.key == k) rows).map F
    exact (List.Perm.append_left _ h1).trans h2

/-- an association list with distinct keys, exactly the keys of `rows`, and each entry holding that
    key's values in order, flattens back to a permutation of `rows` -/
theorem ungroup_perm (out : List (Val × List Val)) (rows : List Val)
    (hn : (out.map (·.1)).Nodup) (hk : ∀ r ∈ rows, r.key ∈ out.map (·.1))
    (hv : ∀ kv ∈ out, kv.2 = rowVals kv.1 rows) :
    (out.flatMap (fun kv => kv.2.map (fun v => Val.pair kv.1 v))).Perm
      (rows.map (fun r => Val.pair r.key r.value)) := by
  have h1 : out.flatMap (fun kv => kv.2.map (fun v => Val.pair kv.1 v)) =
      (out.map (·.1)).flatMap (fun k => (rows.filter (fun r => r.key == k)).map
        (fun r => Val.pair r.key r.value)) := by
    rw [List.flatMap_map]
    apply flatMap_congr_mem
    intro kv hkv
    rw [hv kv hkv, rowVals, List.map_map]
    apply List.map_congr_left
    intro r hr
    have := (List.mem_filter.mp hr).2
    simp only [beq_iff_eq] at this
    simp [this]
  rw [h1]
  exact flatMap_filter_perm _ _ rows hn hk

end IB
