import IbModel.Model.Cloud
/-!
# Helper lemmas for C18 (generalised loop invariants of `Model/Cloud.lean`)

Core Lean only. The property theorems themselves are in `Props/C18.lean`.
-/
namespace IB.Cloud

variable {α : Type}

/-- An outcome after which `retry_with_backoff` must not call the operation again:
    a success or a permanent (non-transient) error. -/
def terminal (o : Res α) : Bool :=
  match o with
  | .ok _ => true
  | .error e => !isTransient e.kind

/-- the attempt budget actually enforced: `max(1, max_attempts)` -/
def RetryConfig.budget (c : RetryConfig) : Nat := max 1 c.maxAttempts

theorem terminal_false_iff (o : Res α) :
    terminal o = false ↔ ∃ e, o = .error e ∧ isTransient e.kind = true := by
  cases o with
  | ok v => simp [terminal]
  | error e => simp [terminal]

/-! ## retryLoop -/

theorem retryLoop_attempts_ge (c : RetryConfig) : ∀ (s : List (Res α)) (a d : Nat),
    a ≤ (retryLoop c a d s).attempts ∧ (retryLoop c a d s).attempts ≤ a + s.length := by
  intro s
  induction s with
  | nil => intro a d; simp [retryLoop]
  | cons o rest ih =>
    intro a d
    cases o with
    | ok v => simp [retryLoop]
    | error e =>
      simp only [retryLoop]
      split
      · simp
      · have := ih (a + 1) (nextDelay c d)
        simp only [List.length_cons]
        omega

theorem retryLoop_attempts_le_budget (c : RetryConfig) : ∀ (s : List (Res α)) (a d : Nat),
    a < c.budget → (retryLoop c a d s).attempts ≤ c.budget := by
  intro s
  induction s with
  | nil => intro a d h; simp [retryLoop]; omega
  | cons o rest ih =>
    intro a d h
    cases o with
    | ok v => simp [retryLoop]; omega
    | error e =>
      simp only [retryLoop]
      split
      · simp; omega
      · rename_i hc
        simp only [Bool.or_eq_true, Bool.not_eq_true', decide_eq_true_eq, not_or, ge_iff_le,
          Nat.not_le] at hc
        apply ih
        unfold RetryConfig.budget at *
        omega

/-- Full specification of the attempt count and the returned outcome. -/
theorem retryLoop_spec (c : RetryConfig) : ∀ (s : List (Res α)) (a d n : Nat),
    1 ≤ n → n ≤ s.length → a + n ≤ c.budget →
    (∀ o ∈ s.take (n - 1), terminal o = false) →
    (a + n = c.budget ∨ ∃ o, s[n - 1]? = some o ∧ terminal o = true) →
    (retryLoop c a d s).attempts = a + n ∧ (retryLoop c a d s).outcome = s[n - 1]? := by
  intro s
  induction s with
  | nil => intro a d n h1 hl; simp at hl; omega
  | cons o rest ih =>
    intro a d n h1 hl hB hpre hend
    by_cases hn : n = 1
    · subst hn
      cases o with
      | ok v => simp [retryLoop]
      | error e =>
        simp only [retryLoop]
        have hcond : (!isTransient e.kind || decide (a + 1 ≥ c.maxAttempts)) = true := by
          rcases hend with h | ⟨o, ho, ht⟩
          · unfold RetryConfig.budget at h
            simp only [Bool.or_eq_true, decide_eq_true_eq]; right; omega
          · simp at ho; subst ho
            simp only [terminal] at ht
            simp [ht]
        simp [hcond]
    · have hn2 : 2 ≤ n := by omega
      have ho : terminal o = false := by
        apply hpre
        have : n - 1 = (n - 2) + 1 := by omega
        rw [this]; simp
      obtain ⟨e, rfl, het⟩ := (terminal_false_iff o).mp ho
      have hlt : a + 1 < c.maxAttempts := by unfold RetryConfig.budget at hB; omega
      simp only [retryLoop]
      have hcond : (!isTransient e.kind || decide (a + 1 ≥ c.maxAttempts)) = false := by
        simp [het]; omega
      simp only [hcond, Bool.false_eq_true, ↓reduceIte]
      have hl' : n - 1 ≤ rest.length := by simp at hl; omega
      have hidx : n - 1 = (n - 2) + 1 := by omega
      have := ih (a + 1) (nextDelay c d) (n - 1) (by omega) hl' (by omega)
        (by
          intro o' ho'
          apply hpre
          rw [hidx, List.take_succ_cons]
          have : n - 1 - 1 = n - 2 := by omega
          rw [this] at ho'
          exact List.mem_cons_of_mem _ ho')
        (by
          rcases hend with h | ⟨o', ho', ht⟩
          · left; omega
          · right
            refine ⟨o', ?_, ht⟩
            rw [hidx, List.getElem?_cons_succ] at ho'
            have : n - 1 - 1 = n - 2 := by omega
            rw [this]; exact ho')
      constructor
      · rw [this.1]; omega
      · rw [this.2, hidx, List.getElem?_cons_succ]
        congr 1

/-- Every outcome strictly before the last attempt was a transient error
    (so: never another attempt after a success or a permanent error). -/
theorem retryLoop_before_last_transient (c : RetryConfig) : ∀ (s : List (Res α)) (a d j : Nat),
    a + j + 1 < (retryLoop c a d s).attempts →
    ∃ e, s[j]? = some (.error e) ∧ isTransient e.kind = true := by
  intro s
  induction s with
  | nil => intro a d j h; simp [retryLoop] at h; omega
  | cons o rest ih =>
    intro a d j h
    cases o with
    | ok v => simp [retryLoop] at h; omega
    | error e =>
      simp only [retryLoop] at h
      split at h
      · simp at h; omega
      · rename_i hc
        simp only [Bool.or_eq_true, Bool.not_eq_true', decide_eq_true_eq, not_or,
          Bool.not_eq_false] at hc
        cases j with
        | zero => exact ⟨e, by simp, hc.1⟩
        | succ j =>
          simp only [List.getElem?_cons_succ]
          exact ih (a + 1) (nextDelay c d) j (by simp at h; omega)

/-- What was returned is the outcome of the last attempt. -/
theorem retryLoop_returns_last (c : RetryConfig) : ∀ (s : List (Res α)) (a d : Nat) (o : Res α),
    (retryLoop c a d s).outcome = some o →
    a + 1 ≤ (retryLoop c a d s).attempts ∧ s[(retryLoop c a d s).attempts - a - 1]? = some o := by
  intro s
  induction s with
  | nil => intro a d o h; simp [retryLoop] at h
  | cons o' rest ih =>
    intro a d o h
    cases o' with
    | ok v => simp [retryLoop] at h ⊢; exact h
    | error e =>
      simp only [retryLoop] at h ⊢
      split
      · rename_i hc; simp [hc] at h; simp; exact h
      · rename_i hc
        simp only [hc] at h
        have := ih (a + 1) (nextDelay c d) o (by simpa using h)
        simp only
        constructor
        · omega
        · have h2 : (retryLoop c (a + 1) (nextDelay c d) rest).attempts - a - 1
              = ((retryLoop c (a + 1) (nextDelay c d) rest).attempts - (a + 1) - 1) + 1 := by omega
          rw [h2, List.getElem?_cons_succ]; exact this.2

/-- The script ran out only if every scripted outcome was a transient error within the budget. -/
theorem retryLoop_none (c : RetryConfig) : ∀ (s : List (Res α)) (a d : Nat),
    (retryLoop c a d s).outcome = none →
    (retryLoop c a d s).attempts = a + s.length ∧ (∀ o ∈ s, terminal o = false) ∧
      (s = [] ∨ a + s.length < c.maxAttempts) := by
  intro s
  induction s with
  | nil => intro a d _; simp [retryLoop]
  | cons o' rest ih =>
    intro a d h
    cases o' with
    | ok v => simp [retryLoop] at h
    | error e =>
      simp only [retryLoop] at h ⊢
      split
      · rename_i hc; simp [hc] at h
      · rename_i hc
        simp only [hc] at h
        have := ih (a + 1) (nextDelay c d) (by simpa using h)
        simp only [Bool.or_eq_true, Bool.not_eq_true', decide_eq_true_eq, not_or,
          Bool.not_eq_false, ge_iff_le, Nat.not_le] at hc
        refine ⟨by simp only [List.length_cons]; omega, ?_, ?_⟩
        · intro o ho
          simp only [List.mem_cons] at ho
          rcases ho with rfl | ho
          · simp [terminal, hc.1]
          · exact this.2.1 o ho
        · right
          rcases this.2.2 with h0 | h0
          · subst h0; simp; omega
          · simp only [List.length_cons]; omega

/-- `[d, nextDelay d, nextDelay (nextDelay d), …]` (`k` values): the successive values of `delay_ms`. -/
def delaySeq (c : RetryConfig) : Nat → Nat → List Nat
  | _, 0 => []
  | d, k + 1 => d :: delaySeq c (nextDelay c d) k

/-- The sleeps are the successive values of the delay variable. -/
theorem retryLoop_sleeps (c : RetryConfig) : ∀ (s : List (Res α)) (a d : Nat),
    (retryLoop c a d s).sleeps = delaySeq c d (retryLoop c a d s).sleeps.length := by
  intro s
  induction s with
  | nil => intro a d; simp [retryLoop, delaySeq]
  | cons o' rest ih =>
    intro a d
    cases o' with
    | ok v => simp [retryLoop, delaySeq]
    | error e =>
      simp only [retryLoop]
      split
      · simp [delaySeq]
      · have := ih (a + 1) (nextDelay c d)
        simp only [List.length_cons, delaySeq]
        rw [← this]

theorem retryLoop_sleeps_length (c : RetryConfig) : ∀ (s : List (Res α)) (a d : Nat),
    (retryLoop c a d s).sleeps.length + a + (if (retryLoop c a d s).outcome.isSome then 1 else 0)
      = (retryLoop c a d s).attempts := by
  intro s
  induction s with
  | nil => intro a d; simp [retryLoop]
  | cons o' rest ih =>
    intro a d
    cases o' with
    | ok v => simp [retryLoop]
    | error e =>
      simp only [retryLoop]
      split
      · simp
      · have := ih (a + 1) (nextDelay c d)
        simp only [List.length_cons]
        omega

theorem nextDelay_le_max (c : RetryConfig) (d : Nat) : nextDelay c d ≤ c.maxDelay := by
  unfold nextDelay; exact Nat.min_le_right _ _

theorem iterate_nextDelay_le (c : RetryConfig) : ∀ (k d i : Nat), 1 ≤ i →
    ∀ x, (delaySeq c d k)[i]? = some x → x ≤ c.maxDelay := by
  intro k
  induction k with
  | zero => intro d i _ x h; simp [delaySeq] at h
  | succ k ih =>
    intro d i hi x h
    cases i with
    | zero => omega
    | succ i =>
      simp only [delaySeq, List.getElem?_cons_succ] at h
      cases i with
      | zero =>
        cases k with
        | zero => simp [delaySeq] at h
        | succ k =>
          simp only [delaySeq, List.getElem?_cons_zero, Option.some.injEq] at h
          subst h; exact nextDelay_le_max c d
      | succ i => exact ih (nextDelay c d) (i + 1) (by omega) x h

/-! ## chunks (`slice::chunks`) -/

theorem chunksFuel_getElem? (n : Nat) (hn : 1 ≤ n) : ∀ (fuel : Nat) (l : List α) (i : Nat),
    l.length ≤ fuel →
    (chunksFuel n fuel l)[i]? = if i * n < l.length then some ((l.drop (i * n)).take n) else none := by
  intro fuel
  induction fuel with
  | zero =>
    intro l i h
    have : l = [] := List.eq_nil_of_length_eq_zero (by omega)
    subst this; simp [chunksFuel]
  | succ fuel ih =>
    intro l i h
    simp only [chunksFuel]
    by_cases hl : l.isEmpty = true
    · have : l = [] := by simpa using hl
      subst this; simp
    · simp only [hl, Bool.false_eq_true, ↓reduceIte]
      have hpos : 0 < l.length := by
        cases l with
        | nil => simp at hl
        | cons => simp
      cases i with
      | zero => simp [hpos]
      | succ i =>
        rw [List.getElem?_cons_succ, ih (l.drop n) i (by simp; omega)]
        have e1 : (i + 1) * n = n + i * n := by rw [Nat.succ_mul]; omega
        simp only [List.length_drop, List.drop_drop, e1]
        by_cases hc : i * n < l.length - n
        · have : n + i * n < l.length := by omega
          simp [hc, this]
        · have : ¬ (n + i * n < l.length) := by omega
          simp [hc, this]

theorem chunksFuel_flatten (n : Nat) (hn : 1 ≤ n) : ∀ (fuel : Nat) (l : List α),
    l.length ≤ fuel → (chunksFuel n fuel l).flatten = l := by
  intro fuel
  induction fuel with
  | zero =>
    intro l h
    have : l = [] := List.eq_nil_of_length_eq_zero (by omega)
    subst this; simp [chunksFuel]
  | succ fuel ih =>
    intro l h
    simp only [chunksFuel]
    by_cases hl : l.isEmpty = true
    · have : l = [] := by simpa using hl
      subst this; simp
    · simp only [hl, Bool.false_eq_true, ↓reduceIte, List.flatten_cons]
      have hpos : 0 < l.length := by
        cases l with
        | nil => simp at hl
        | cons => simp
      rw [ih (l.drop n) (by simp; omega), List.take_append_drop]

theorem chunksFuel_bounds (n : Nat) (hn : 1 ≤ n) : ∀ (fuel : Nat) (l : List α),
    ∀ c ∈ chunksFuel n fuel l, c ≠ [] ∧ c.length ≤ n := by
  intro fuel
  induction fuel with
  | zero => intro l c h; simp [chunksFuel] at h
  | succ fuel ih =>
    intro l c h
    simp only [chunksFuel] at h
    by_cases hl : l.isEmpty = true
    · simp [hl] at h
    · simp only [hl, Bool.false_eq_true, ↓reduceIte, List.mem_cons] at h
      rcases h with rfl | h
      · constructor
        · cases l with
          | nil => simp at hl
          | cons x xs =>
            cases n with
            | zero => omega
            | succ n => simp
        · exact List.length_take_le n l
      · exact ih _ c h

/-! ## batchLoop -/

variable {β : Type}

/-- the payloads of the successful answers, in order -/
def okVals {γ : Type} : List (Res γ) → List γ
  | [] => []
  | .ok v :: rest => v :: okVals rest
  | .error _ :: rest => okVals rest

/-- what the processor answers on each chunk (call index `i`, `i+1`, …) -/
def answers (f : Nat → List α → Res (List β)) : Nat → List (List α) → List (Res (List β))
  | _, [] => []
  | i, c :: cs => f i c :: answers f (i + 1) cs

theorem batchLoop_calls_prefix (f : Nat → List α → Res (List β)) : ∀ (cs : List (List α)) (i : Nat),
    (batchLoop f i cs).1 <+: cs := by
  intro cs
  induction cs with
  | nil => intro i; simp [batchLoop]
  | cons c cs ih =>
    intro i
    simp only [batchLoop]
    split
    · simp [List.prefix_cons_iff] 
    · simp only [List.cons_prefix_cons, true_and]; exact ih (i + 1)

theorem batchLoop_ok (f : Nat → List α → Res (List β)) : ∀ (cs : List (List α)) (i : Nat)
    (rs : List β), (batchLoop f i cs).2 = .ok rs →
    (batchLoop f i cs).1 = cs ∧
      (∀ j c, cs[j]? = some c → ∃ r, f (i + j) c = .ok r) ∧
      rs = (okVals (answers f i cs)).flatten := by
  intro cs
  induction cs with
  | nil => intro i rs h; simp [batchLoop] at h; subst h; simp [batchLoop, answers, okVals]
  | cons c cs ih =>
    intro i rs h
    simp only [batchLoop] at h ⊢
    split at h
    · simp at h
    · rename_i r hr
      simp only at h
      split at h
      · rename_i rs' hrs
        have := ih (i + 1) rs' hrs
        simp only [Except.ok.injEq] at h
        refine ⟨?_, ?_, ?_⟩
        · simp [this.1]
        · intro j c' hj
          cases j with
          | zero => simp at hj; subst hj; exact ⟨r, hr⟩
          | succ j =>
            simp only [List.getElem?_cons_succ] at hj
            have := this.2.1 j c' hj
            rw [show i + (j + 1) = i + 1 + j by omega]; exact this
        · simp only [answers, hr, okVals, List.flatten_cons]
          rw [← this.2.2, h]
      · simp at h

theorem batchLoop_err (f : Nat → List α → Res (List β)) : ∀ (cs : List (List α)) (i : Nat)
    (e : Err), (batchLoop f i cs).2 = .error e →
    ∃ k c, cs[k]? = some c ∧ f (i + k) c = .error e ∧ (batchLoop f i cs).1 = cs.take (k + 1) ∧
      ∀ j c', j < k → cs[j]? = some c' → ∃ r, f (i + j) c' = .ok r := by
  intro cs
  induction cs with
  | nil => intro i e h; simp [batchLoop] at h
  | cons c cs ih =>
    intro i e h
    simp only [batchLoop] at h ⊢
    split at h
    · rename_i e' he'
      simp only [Except.error.injEq] at h; subst h
      exact ⟨0, c, by simp, by simpa using he', by simp, by intro j c' hj; omega⟩
    · rename_i r hr
      simp only at h
      split at h
      · simp at h
      · rename_i e' he'
        simp only [Except.error.injEq] at h; subst h
        obtain ⟨k, c', hk, hf, hcalls, hpre⟩ := ih (i + 1) e' he'
        refine ⟨k + 1, c', by simpa using hk, ?_, ?_, ?_⟩
        · rw [show i + (k + 1) = i + 1 + k by omega]; exact hf
        · simp [hcalls]
        · intro j c'' hj hc''
          cases j with
          | zero => simp at hc''; subst hc''; exact ⟨r, hr⟩
          | succ j =>
            simp only [List.getElem?_cons_succ] at hc''
            rw [show i + (j + 1) = i + 1 + j by omega]
            exact hpre j c'' (by omega) hc''

/-! ## pageLoop -/

/-- the items of a scripted page (an error page has none) -/
def pageItems (o : Res (List α × Bool)) : List α :=
  match o with
  | .ok (items, _) => items
  | .error _ => []

/-- Does the page answered as page number `pageNo` end the loop? error, empty page, `!has_more`,
    or `pageNo + 1 >= max_pages`. -/
def pageStops (c : PageConfig) (pageNo : Nat) (o : Res (List α × Bool)) : Bool :=
  match o with
  | .error _ => true
  | .ok (items, more) => items.isEmpty || !more || c.limitReached (pageNo + 1)

/-- what `paginate` returns when the loop ends at page outcome `o` having accumulated `xs` -/
def finalPageResult (o : Res (List α × Bool)) (xs : List α) : Res (List α) :=
  match o with
  | .error e => .error e
  | .ok _ => .ok xs

theorem pageLoop_calls (c : PageConfig) : ∀ (s : List (Res (List α × Bool))) (p : Nat),
    (pageLoop c p s).calls = (List.range (pageLoop c p s).calls.length).map (fun i => (p + i, c.pageSize)) := by
  intro s
  induction s with
  | nil => intro p; simp [pageLoop]
  | cons o rest ih =>
    intro p
    cases o with
    | error e => simp [pageLoop]
    | ok pg =>
      obtain ⟨items, more⟩ := pg
      simp only [pageLoop]
      split
      · simp
      · split
        · simp
        · split
          · simp
          · have := ih (p + 1)
            simp only [List.length_cons, List.range_succ_eq_map, List.map_cons, List.map_map]
            rw [this]
            simp only [Nat.add_zero, List.length_map, List.length_range, List.cons.injEq, true_and]
            apply List.map_congr_left
            intro i _
            simp only [Function.comp, Prod.mk.injEq, and_true]
            omega

theorem pageLoop_prefix (c : PageConfig) : ∀ (s : List (Res (List α × Bool))) (p j : Nat),
    (j + 1 < (pageLoop c p s).calls.length ∨
      ((pageLoop c p s).outcome = none ∧ j < (pageLoop c p s).calls.length)) →
    ∃ o, s[j]? = some o ∧ pageStops c (p + j) o = false := by
  intro s
  induction s with
  | nil => intro p j h; simp [pageLoop] at h
  | cons o rest ih =>
    intro p j h
    cases o with
    | error e => simp [pageLoop] at h
    | ok pg =>
      obtain ⟨items, more⟩ := pg
      simp only [pageLoop] at h
      split at h
      · simp at h
      · rename_i h1
        split at h
        · simp at h
        · rename_i h2
          split at h
          · simp at h
          · rename_i h3
            cases j with
            | zero =>
              refine ⟨.ok (items, more), by simp, ?_⟩
              simp only [pageStops, Nat.add_zero, Bool.or_eq_false_iff]
              simp only [Bool.not_eq_true] at h1 h3
              simp only [Bool.not_eq_true, Bool.not_eq_false'] at h2
              simp [h1, h2, h3]
            | succ j =>
              simp only [List.getElem?_cons_succ]
              rw [show p + (j + 1) = p + 1 + j by omega]
              apply ih (p + 1) j
              simp only [List.length_cons, Option.map_eq_none_iff] at h
              rcases h with h | h
              · left; omega
              · right; exact ⟨h.1, by omega⟩

theorem pageLoop_last (c : PageConfig) : ∀ (s : List (Res (List α × Bool))) (p : Nat)
    (r : Res (List α)), (pageLoop c p s).outcome = some r →
    1 ≤ (pageLoop c p s).calls.length ∧
    ∃ o, s[(pageLoop c p s).calls.length - 1]? = some o ∧
      pageStops c (p + ((pageLoop c p s).calls.length - 1)) o = true ∧
      r = finalPageResult o ((s.take (pageLoop c p s).calls.length).flatMap pageItems) := by
  intro s
  induction s with
  | nil => intro p r h; simp [pageLoop] at h
  | cons o rest ih =>
    intro p r h
    cases o with
    | error e =>
      simp only [pageLoop, Option.some.injEq] at h ⊢
      subst h
      simp [pageStops, finalPageResult]
    | ok pg =>
      obtain ⟨items, more⟩ := pg
      simp only [pageLoop] at h ⊢
      split
      · rename_i h1
        simp only [h1, ↓reduceIte, Option.some.injEq] at h
        subst h
        have : items = [] := by simpa using h1
        simp [pageStops, this, pageItems, finalPageResult]
      · rename_i h1
        simp only [h1, Bool.false_eq_true, ↓reduceIte] at h
        split
        · rename_i h2
          simp only [h2, ↓reduceIte, Option.some.injEq] at h
          subst h
          simp only [Bool.not_eq_true'] at h2
          simp [pageStops, h2, pageItems, finalPageResult]
        · rename_i h2
          simp only [h2, Bool.false_eq_true, ↓reduceIte] at h
          split
          · rename_i h3
            simp only [h3, ↓reduceIte, Option.some.injEq] at h
            subst h
            simp [pageStops, h3, pageItems, finalPageResult]
          · rename_i h3
            simp only [h3, Bool.false_eq_true, ↓reduceIte, Option.map_eq_some_iff] at h
            obtain ⟨r', hr', hr⟩ := h
            obtain ⟨hlen, o, ho, hstop, hval⟩ := ih (p + 1) r' hr'
            refine ⟨by simp, o, ?_, ?_, ?_⟩
            · simp only [List.length_cons, Nat.add_sub_cancel]
              rw [show (pageLoop c (p + 1) rest).calls.length
                = ((pageLoop c (p + 1) rest).calls.length - 1) + 1 by omega, List.getElem?_cons_succ]
              exact ho
            · simp only [List.length_cons, Nat.add_sub_cancel]
              rw [show p + (pageLoop c (p + 1) rest).calls.length
                = p + 1 + ((pageLoop c (p + 1) rest).calls.length - 1) by omega]
              exact hstop
            · subst hr
              subst hval
              cases o with
              | error e => rfl
              | ok pg' => simp [pageItems, finalPageResult]

/-- Exact specification: the loop ends at the FIRST page outcome that stops it. -/
theorem pageLoop_exact (c : PageConfig) : ∀ (s : List (Res (List α × Bool))) (p n : Nat)
    (o : Res (List α × Bool)), s[n]? = some o → pageStops c (p + n) o = true →
    (∀ j o', j < n → s[j]? = some o' → pageStops c (p + j) o' = false) →
    (pageLoop c p s).calls.length = n + 1 ∧
    (pageLoop c p s).outcome = some (finalPageResult o ((s.take (n + 1)).flatMap pageItems)) := by
  intro s
  induction s with
  | nil => intro p n o h; simp at h
  | cons x rest ih =>
    intro p n o hn hstop hpre
    cases n with
    | zero =>
      simp only [List.getElem?_cons_zero, Option.some.injEq] at hn
      subst hn
      cases x with
      | error e => simp [pageLoop, finalPageResult]
      | ok pg =>
        obtain ⟨items, more⟩ := pg
        simp only [pageStops, Nat.add_zero, Bool.or_eq_true, Bool.not_eq_true'] at hstop
        simp only [pageLoop]
        split
        · rename_i h1
          have : items = [] := by simpa using h1
          simp [finalPageResult, pageItems, this]
        · split
          · simp [finalPageResult, pageItems]
          · rename_i h1 h2
            split
            · simp [finalPageResult, pageItems]
            · rename_i h3
              simp only [Bool.not_eq_true'] at h2
              simp only [Bool.not_eq_true] at h1 h3
              rcases hstop with (h | h) | h
              · rw [h] at h1; cases h1
              · rw [h] at h2; simp at h2
              · rw [h] at h3; cases h3
    | succ n =>
      simp only [List.getElem?_cons_succ] at hn
      have hx := hpre 0 x (by omega) (by simp)
      cases x with
      | error e => simp [pageStops] at hx
      | ok pg =>
        obtain ⟨items, more⟩ := pg
        simp only [pageStops, Nat.add_zero, Bool.or_eq_false_iff, Bool.not_eq_false'] at hx
        obtain ⟨⟨h1, h2⟩, h3⟩ := hx
        have := ih (p + 1) n o hn (by rw [show p + 1 + n = p + (n + 1) by omega]; exact hstop)
          (by
            intro j o' hj ho'
            have := hpre (j + 1) o' (by omega) (by simpa using ho')
            rw [show p + 1 + j = p + (j + 1) by omega]; exact this)
        simp only [pageLoop, h1, h2, h3, Bool.false_eq_true, ↓reduceIte, Bool.not_true, List.length_cons,
          this.1, this.2, Option.map_some, List.take_succ_cons, List.flatMap_cons, pageItems]
        refine ⟨trivial, ?_⟩
        cases o <;> simp [finalPageResult]

/-! ## ioBatch (`run_cloud_io_batch`) -/

variable {ι : Type}

theorem retry_attempts_le_budget (c : RetryConfig) (s : List (Res β)) :
    (retry c s).attempts ≤ c.budget :=
  retryLoop_attempts_le_budget c s 0 c.initialDelay (by unfold RetryConfig.budget; omega)

/-- The operation is called for the items in order, each at most `budget` times, none skipped:
    the call trace is `item₀ × k₀ ++ item₁ × k₁ ++ …` over an initial segment of the items. -/
theorem ioBatch_calls (c : RetryConfig) : ∀ (items : List ι) (s : List (Res β)),
    ∃ ks : List Nat, ks.length ≤ items.length ∧ (∀ k ∈ ks, k ≤ c.budget) ∧
      (ioBatch c items s).calls = (items.zip ks).flatMap (fun p => List.replicate p.2 p.1) ∧
      (∀ vs, (ioBatch c items s).outcome = some (.ok vs) →
        ks.length = items.length ∧ vs.length = items.length ∧ ∀ k ∈ ks, 1 ≤ k) := by
  intro items
  induction items with
  | nil => intro s; exact ⟨[], by simp, by simp, by simp [ioBatch], by simp [ioBatch]⟩
  | cons it its ih =>
    intro s
    have hb := retry_attempts_le_budget c s
    simp only [ioBatch]
    cases hr : (retry c s).outcome with
    | none =>
      refine ⟨[(retry c s).attempts], by simp, by simpa using hb, by simp, by simp⟩
    | some o =>
      cases o with
      | error e =>
        refine ⟨[(retry c s).attempts], by simp, by simpa using hb, by simp, by simp⟩
      | ok v =>
        obtain ⟨ks, hlen, hk, hcalls, hok⟩ := ih (s.drop (retry c s).attempts)
        refine ⟨(retry c s).attempts :: ks, by simp; omega, ?_, ?_, ?_⟩
        · intro k hk'
          simp only [List.mem_cons] at hk'
          rcases hk' with rfl | hk'
          · exact hb
          · exact hk k hk'
        · simp [hcalls]
        · intro vs hvs
          simp only [Option.map_eq_some_iff] at hvs
          obtain ⟨o', ho', hvs⟩ := hvs
          cases o' with
          | error e => simp at hvs
          | ok vs' =>
            simp only [Except.ok.injEq] at hvs
            subst hvs
            obtain ⟨h1, h2, h3⟩ := hok vs' ho'
            have hlast := retryLoop_returns_last c s 0 c.initialDelay (.ok v) hr
            refine ⟨by simp [h1], by simp [h2], ?_⟩
            intro k hk'
            simp only [List.mem_cons] at hk'
            rcases hk' with rfl | hk'
            · unfold retry; omega
            · exact h3 k hk'

/-- An error returned by the per-item batch is the outcome of the very last call of the operation
    (the items after the failing one are never attempted). -/
theorem ioBatch_error_is_last (c : RetryConfig) : ∀ (items : List ι) (s : List (Res β)) (e : Err),
    (ioBatch c items s).outcome = some (.error e) →
    1 ≤ (ioBatch c items s).calls.length ∧ s[(ioBatch c items s).calls.length - 1]? = some (.error e) := by
  intro items
  induction items with
  | nil => intro s e h; simp [ioBatch] at h
  | cons it its ih =>
    intro s e h
    simp only [ioBatch] at h ⊢
    cases hr : (retry c s).outcome with
    | none => simp [hr] at h
    | some o =>
      cases o with
      | error e' =>
        simp only [hr, Option.some.injEq, Except.error.injEq] at h
        subst h
        have := retryLoop_returns_last c s 0 c.initialDelay (.error e') hr
        simp only [List.length_replicate]
        exact ⟨by unfold retry; omega, by simpa [retry] using this.2⟩
      | ok v =>
        simp only [hr, Option.map_eq_some_iff] at h
        obtain ⟨o', ho', h⟩ := h
        cases o' with
        | ok vs => simp at h
        | error e' =>
          simp only [Except.error.injEq] at h
          subst h
          obtain ⟨h1, h2⟩ := ih (s.drop (retry c s).attempts) e' ho'
          simp only [List.length_append, List.length_replicate]
          refine ⟨by omega, ?_⟩
          rw [List.getElem?_drop] at h2
          rw [← h2]
          congr 1
          omega

/-! ### exact form of `ioBatch` -/

/-- how an `Ok` of one item is put in front of the results of the remaining items
    (`collect::<Result<Vec<_>, _>>()`) -/
def consOk (v : β) (o : Res (List β)) : Res (List β) :=
  match o with
  | .ok vs => .ok (v :: vs)
  | .error e => .error e

/-- The defining recursion, stated on the three observable components: the first item is tried exactly
    `(retry c s).attempts` times; only if that retry SUCCEEDS does the batch go on, with what is left of
    the script; otherwise it stops there with that retry's outcome. -/
theorem ioBatch_cons (c : RetryConfig) (it : ι) (its : List ι) (s : List (Res β)) :
    (ioBatch c (it :: its) s).calls =
      List.replicate (retry c s).attempts it ++
        (match (retry c s).outcome with
         | some (.ok _) => (ioBatch c its (s.drop (retry c s).attempts)).calls
         | _ => []) ∧
    (ioBatch c (it :: its) s).sleeps =
      (retry c s).sleeps ++
        (match (retry c s).outcome with
         | some (.ok _) => (ioBatch c its (s.drop (retry c s).attempts)).sleeps
         | _ => []) ∧
    (ioBatch c (it :: its) s).outcome =
      (match (retry c s).outcome with
       | none => none
       | some (.error e) => some (.error e)
       | some (.ok v) => (ioBatch c its (s.drop (retry c s).attempts)).outcome.map (consOk v)) := by
  simp only [ioBatch]
  cases hr : (retry c s).outcome with
  | none => simp
  | some o =>
    cases o with
    | error e => simp
    | ok v =>
      refine ⟨rfl, rfl, ?_⟩
      simp only
      first
        | rfl
        | (congr 1; funext o; cases o <;> rfl)

theorem take_succ_sum (a : Nat) (ks : List Nat) (j : Nat) :
    ((a :: ks).take (j + 1)).sum = a + (ks.take j).sum := by
  simp [List.take_succ_cons]

/-- Closed form of `ioBatch` (no recursion in the statement): `ks[j]` = number of calls made for item `j`,
    `(ks.take j).sum` = position in the script at which item `j` starts. -/
theorem ioBatch_exact (c : RetryConfig) : ∀ (items : List ι) (s : List (Res β)),
    ∃ ks : List Nat, ks.length ≤ items.length ∧
      (ioBatch c items s).calls = (items.zip ks).flatMap (fun p => List.replicate p.2 p.1) ∧
      (∀ j k, ks[j]? = some k → k = (retry c (s.drop (ks.take j).sum)).attempts) ∧
      (∀ j, j + 1 < ks.length → ∃ v, (retry c (s.drop (ks.take j).sum)).outcome = some (.ok v)) ∧
      (ks.length < items.length → 1 ≤ ks.length ∧
        ∀ v, (retry c (s.drop (ks.take (ks.length - 1)).sum)).outcome ≠ some (.ok v)) ∧
      (∀ e, (ioBatch c items s).outcome = some (.error e) ↔
        (1 ≤ ks.length ∧ (retry c (s.drop (ks.take (ks.length - 1)).sum)).outcome = some (.error e))) ∧
      ((ioBatch c items s).outcome = none ↔
        (1 ≤ ks.length ∧ (retry c (s.drop (ks.take (ks.length - 1)).sum)).outcome = none)) ∧
      (∀ vs, (ioBatch c items s).outcome = some (.ok vs) →
        ks.length = items.length ∧ vs.length = items.length ∧
        ∀ j v, vs[j]? = some v → (retry c (s.drop (ks.take j).sum)).outcome = some (.ok v)) := by
  intro items
  induction items with
  | nil =>
    intro s
    refine ⟨[], by simp, by simp [ioBatch], by simp, by simp, by simp, ?_, ?_, ?_⟩
    · intro e; simp [ioBatch]
    · simp [ioBatch]
    · intro vs h
      simp only [ioBatch, Option.some.injEq, Except.ok.injEq] at h
      subst h; simp
  | cons it its ih =>
    intro s
    obtain ⟨hcalls, _, hout⟩ := ioBatch_cons c it its s
    cases hr : (retry c s).outcome with
    | none =>
      rw [hr] at hcalls hout
      refine ⟨[(retry c s).attempts], by simp, by simpa using hcalls, ?_, by simp, ?_, ?_, ?_, ?_⟩
      · intro j k hk
        cases j with
        | zero => simp at hk; simp [hk]
        | succ j => simp at hk
      · intro _; simp [hr]
      · intro e; simp [hout, hr]
      · simp [hout, hr]
      · intro vs h; simp [hout] at h
    | some o =>
      cases o with
      | error e' =>
        rw [hr] at hcalls hout
        refine ⟨[(retry c s).attempts], by simp, by simpa using hcalls, ?_, by simp, ?_, ?_, ?_, ?_⟩
        · intro j k hk
          cases j with
          | zero => simp at hk; simp [hk]
          | succ j => simp at hk
        · intro _; simp [hr]
        · intro e; simp [hout, hr]
        · simp [hout, hr]
        · intro vs h; simp [hout] at h
      | ok v =>
        rw [hr] at hcalls hout
        simp only at hcalls hout
        obtain ⟨ks, hlen, hc, ha, hb1, hb2, hc1, hc2, hc3⟩ := ih (s.drop (retry c s).attempts)
        -- the script position of item j+1 in `s` is that of item j in the rest, shifted by the first item's calls
        have hdrop : ∀ j, s.drop (((retry c s).attempts :: ks).take (j + 1)).sum
            = (s.drop (retry c s).attempts).drop (ks.take j).sum := by
          intro j; rw [take_succ_sum, List.drop_drop]
        have hlast : 1 ≤ ks.length →
            s.drop ((((retry c s).attempts :: ks).take (((retry c s).attempts :: ks).length - 1)).sum)
              = (s.drop (retry c s).attempts).drop (ks.take (ks.length - 1)).sum := by
          intro h1
          have : ((retry c s).attempts :: ks).length - 1 = (ks.length - 1) + 1 := by
            simp only [List.length_cons]; omega
          rw [this]; exact hdrop _
        refine ⟨(retry c s).attempts :: ks, by simp; omega, ?_, ?_, ?_, ?_, ?_, ?_, ?_⟩
        · rw [hcalls, hc]; simp
        · intro j k hk
          cases j with
          | zero => simp at hk; simp [hk]
          | succ j =>
            simp only [List.getElem?_cons_succ] at hk
            rw [hdrop]; exact ha j k hk
        · intro j hj
          cases j with
          | zero => exact ⟨v, by simpa using hr⟩
          | succ j =>
            rw [hdrop]
            exact hb1 j (by simp only [List.length_cons] at hj; omega)
        · intro hlt
          have hlt' : ks.length < its.length := by simp only [List.length_cons] at hlt; omega
          obtain ⟨h1, hne⟩ := hb2 hlt'
          refine ⟨by simp, ?_⟩
          rw [hlast h1]; exact hne
        · intro e
          rw [hout]
          constructor
          · intro h
            simp only [Option.map_eq_some_iff] at h
            obtain ⟨o', ho', h⟩ := h
            cases o' with
            | ok vs => simp [consOk] at h
            | error e'' =>
              simp only [consOk, Except.error.injEq] at h
              subst h
              obtain ⟨h1, hl⟩ := (hc1 e'').mp ho'
              exact ⟨by simp, by rw [hlast h1]; exact hl⟩
          · intro ⟨_, hl⟩
            by_cases h1 : 1 ≤ ks.length
            · rw [hlast h1] at hl
              have := (hc1 e).mpr ⟨h1, hl⟩
              simp [this, consOk]
            · have hk0 : ks = [] := List.eq_nil_of_length_eq_zero (by omega)
              subst hk0
              simp [hr] at hl
        · rw [hout]
          constructor
          · intro h
            simp only [Option.map_eq_none_iff] at h
            obtain ⟨h1, hl⟩ := hc2.mp h
            exact ⟨by simp, by rw [hlast h1]; exact hl⟩
          · intro ⟨_, hl⟩
            by_cases h1 : 1 ≤ ks.length
            · rw [hlast h1] at hl
              have := hc2.mpr ⟨h1, hl⟩
              simp [this]
            · have hk0 : ks = [] := List.eq_nil_of_length_eq_zero (by omega)
              subst hk0
              simp [hr] at hl
        · intro vs h
          rw [hout] at h
          simp only [Option.map_eq_some_iff] at h
          obtain ⟨o', ho', h⟩ := h
          cases o' with
          | error e'' => simp [consOk] at h
          | ok vs' =>
            simp only [consOk, Except.ok.injEq] at h
            subst h
            obtain ⟨h1, h2, h3⟩ := hc3 vs' ho'
            refine ⟨by simp [h1], by simp [h2], ?_⟩
            intro j w hw
            cases j with
            | zero =>
              simp only [List.getElem?_cons_zero, Option.some.injEq] at hw
              subst hw; simpa using hr
            | succ j =>
              simp only [List.getElem?_cons_succ] at hw
              rw [hdrop]; exact h3 j w hw

/-- The conditions of `ioBatch_exact` that speak about `ks` alone (`n` = number of items). -/
def IoTrace (c : RetryConfig) (n : Nat) (s : List (Res β)) (ks : List Nat) : Prop :=
  ks.length ≤ n ∧
  (∀ j k, ks[j]? = some k → k = (retry c (s.drop (ks.take j).sum)).attempts) ∧
  (∀ j, j + 1 < ks.length → ∃ v, (retry c (s.drop (ks.take j).sum)).outcome = some (.ok v)) ∧
  (ks.length < n → 1 ≤ ks.length ∧
    ∀ v, (retry c (s.drop (ks.take (ks.length - 1)).sum)).outcome ≠ some (.ok v))

theorem IoTrace.take_eq {c : RetryConfig} {n : Nat} {s : List (Res β)} {ks ks' : List Nat}
    (h : IoTrace c n s ks) (h' : IoTrace c n s ks') :
    ∀ j, j ≤ ks.length → j ≤ ks'.length → ks.take j = ks'.take j := by
  intro j
  induction j with
  | zero => intros; simp
  | succ j ih =>
    intro hj hj'
    have e := ih (by omega) (by omega)
    have hj1 : j < ks.length := by omega
    have hj1' : j < ks'.length := by omega
    have a := h.2.1 j ks[j] (by simp)
    have a' := h'.2.1 j ks'[j] (by simp)
    rw [e] at a
    rw [List.take_succ_eq_append_getElem hj1, List.take_succ_eq_append_getElem hj1', e, a, a']

theorem IoTrace.length_le {c : RetryConfig} {n : Nat} {s : List (Res β)} {ks ks' : List Nat}
    (h : IoTrace c n s ks) (h' : IoTrace c n s ks') : ks'.length ≤ ks.length := by
  apply Nat.le_of_not_lt
  intro hlt
  have hn : ks.length < n := by have := h'.1; omega
  obtain ⟨h1, hne⟩ := h.2.2.2 hn
  obtain ⟨v, hv⟩ := h'.2.2.1 (ks.length - 1) (by omega)
  have e := IoTrace.take_eq h h' (ks.length - 1) (by omega) (by omega)
  rw [← e] at hv
  exact hne v hv

/-- … and they determine `ks` (so `ioBatch_exact` fixes the whole call trace, not just some bound on it). -/
theorem IoTrace.unique {c : RetryConfig} {n : Nat} {s : List (Res β)} {ks ks' : List Nat}
    (h : IoTrace c n s ks) (h' : IoTrace c n s ks') : ks = ks' := by
  have l1 := IoTrace.length_le h h'
  have l2 := IoTrace.length_le h' h
  have e := IoTrace.take_eq h h' ks.length (by omega) (by omega)
  rw [List.take_length] at e
  rw [e, show ks.length = ks'.length by omega, List.take_length]

/-! ### a counter-model: the per-item batch that never retries

It calls the operation once per item and stops at the first `Err`. It satisfies everything the former,
existential statement about `run_cloud_io_batch` said (calls = items × kᵢ with kᵢ ≤ budget, an error is the
outcome of the last call); `Props/C18.lean` shows that it violates the exact statements. -/
def neverRetryBatch : List ι → List (Res β) → IoBatchResult ι β
  | [], _ => ⟨[], [], some (.ok [])⟩
  | _ :: _, [] => ⟨[], [], none⟩
  | it :: _, .error e :: _ => ⟨[it], [], some (.error e)⟩
  | it :: its, .ok v :: rest =>
    let r := neverRetryBatch its rest
    ⟨it :: r.calls, r.sleeps, r.outcome.map (consOk v)⟩

/-! ## `run_parallel` -/

theorem parLoop_all_ok {γ : Type} (vs : List γ) : ∀ (i : Nat),
    (parLoop i (vs.map (Except.ok : γ → Res γ))).calls = List.range' i vs.length ∧
    (parLoop i (vs.map (Except.ok : γ → Res γ))).outcome = .ok vs := by
  induction vs with
  | nil => intro i; simp [parLoop]
  | cons v vs ih =>
    intro i
    have h := ih (i + 1)
    simp [parLoop, h.1, h.2, List.range'_succ]

theorem parLoop_first_error {γ : Type} (vs : List γ) (e : Err) (rest : List (Res γ)) : ∀ (i : Nat),
    (parLoop i (vs.map (Except.ok : γ → Res γ) ++ .error e :: rest)).calls = List.range' i (vs.length + 1) ∧
    (parLoop i (vs.map (Except.ok : γ → Res γ) ++ .error e :: rest)).outcome = .error e := by
  induction vs with
  | nil => intro i; simp [parLoop]
  | cons v vs ih =>
    intro i
    have h := ih (i + 1)
    simp [parLoop, h.1, h.2, List.range'_succ]

/-- every list of outcomes is all-`Ok`, or some `Ok`s followed by a first `Err` and a rest -/
theorem outcomes_cases {γ : Type} : ∀ (ops : List (Res γ)),
    (∃ vs : List γ, ops = vs.map Except.ok) ∨
    (∃ (vs : List γ) (e : Err) (rest : List (Res γ)), ops = vs.map Except.ok ++ .error e :: rest)
  | [] => .inl ⟨[], rfl⟩
  | .error e :: rest => .inr ⟨[], e, rest, rfl⟩
  | .ok v :: rest =>
    match outcomes_cases rest with
    | .inl ⟨vs, h⟩ => .inl ⟨v :: vs, by simp [h]⟩
    | .inr ⟨vs, e, r, h⟩ => .inr ⟨v :: vs, e, r, by simp [h]⟩

end IB.Cloud
