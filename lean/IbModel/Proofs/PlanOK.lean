import IbModel.Proofs.PlannerSem
/-!
The optimiser maps contract-meeting chains to contract-meeting chains (so `execPar = execSeq` also holds
for the PLANNED chain, which is what `collect_par` / `collect_seq` actually run).
-/
namespace IB
variable {P : Type}

/-- the side condition under which lifting a GBK→combine pair keeps the contract: the combine's
    `local_pairs` path must itself meet the barrier contract -/
def LiftOK (concat : List P → P) : Node P → Prop
  | .combineValues lp (some _) m => NodeOK concat (.combineValues lp none m)
  | _ => True

theorem reorderBlock_mem (ops : List (DynOp P)) (op : DynOp P) : op ∈ reorderBlock ops ↔ op ∈ ops :=
  (reorderBlock_is_perm ops).mem_iff

theorem reorder_nodeOK (concat : List P → P) (c : List (Node P)) (h : ∀ n ∈ c, NodeOK concat n) :
    ∀ n ∈ reorder c, NodeOK concat n := by
  induction c with
  | nil => intro n hn; cases hn
  | cons nd rest ih =>
    have ih' := ih (fun x hx => h x (List.mem_cons_of_mem _ hx))
    have hnd := h nd (by simp)
    cases nd with
    | stateless a =>
      intro n hn
      simp only [reorder, List.mem_cons] at hn
      rcases hn with rfl | hn
      · intro op hop; exact hnd op ((reorderBlock_mem a op).mp hop)
      · exact ih' n hn
    | source w l s => intro n hn; simp only [reorder, List.mem_cons] at hn; rcases hn with rfl | hn; exact hnd; exact ih' n hn
    | gbk l m => intro n hn; simp only [reorder, List.mem_cons] at hn; rcases hn with rfl | hn; exact hnd; exact ih' n hn
    | combineValues lp lg m => intro n hn; simp only [reorder, List.mem_cons] at hn; rcases hn with rfl | hn; exact hnd; exact ih' n hn
    | combineGlobal l m f fo => intro n hn; simp only [reorder, List.mem_cons] at hn; rcases hn with rfl | hn; exact hnd; exact ih' n hn
    | coGroup l r cl cr e => intro n hn; simp only [reorder, List.mem_cons] at hn; rcases hn with rfl | hn; exact hnd; exact ih' n hn
    | materialized p => intro n hn; simp only [reorder, List.mem_cons] at hn; rcases hn with rfl | hn; exact hnd; exact ih' n hn

theorem fuse_liftOK (concat : List P → P) (c : List (Node P)) (h : ∀ n ∈ c, LiftOK concat n) :
    ∀ n ∈ fuse c, LiftOK concat n := by
  fun_induction fuse c with
  | case1 => intro n hn; cases hn
  | case2 a rest b r hfr ih =>
    have ih' := ih (fun x hx => h x (List.mem_cons_of_mem _ hx))
    rw [hfr] at ih'
    intro n hn
    rcases List.mem_cons.mp hn with rfl | hn
    · trivial
    · exact ih' n (List.mem_cons_of_mem _ hn)
  | case3 a rest hfr ih =>
    have ih' := ih (fun x hx => h x (List.mem_cons_of_mem _ hx))
    intro n hn
    rcases List.mem_cons.mp hn with rfl | hn
    · trivial
    · exact ih' n hn
  | case4 nd rest hnd ih =>
    have ih' := ih (fun x hx => h x (List.mem_cons_of_mem _ hx))
    intro n hn
    rcases List.mem_cons.mp hn with rfl | hn
    · exact h _ (by simp)
    · exact ih' n hn

theorem reorder_liftOK (concat : List P → P) (c : List (Node P)) (h : ∀ n ∈ c, LiftOK concat n) :
    ∀ n ∈ reorder c, LiftOK concat n := by
  induction c with
  | nil => intro n hn; cases hn
  | cons nd rest ih =>
    have ih' := ih (fun x hx => h x (List.mem_cons_of_mem _ hx))
    have hnd := h nd (by simp)
    cases nd with
    | stateless a =>
      intro n hn
      simp only [reorder, List.mem_cons] at hn
      rcases hn with rfl | hn
      · trivial
      · exact ih' n hn
    | source w l s => intro n hn; simp only [reorder, List.mem_cons] at hn; rcases hn with rfl | hn; exact hnd; exact ih' n hn
    | gbk l m => intro n hn; simp only [reorder, List.mem_cons] at hn; rcases hn with rfl | hn; exact hnd; exact ih' n hn
    | combineValues lp lg m => intro n hn; simp only [reorder, List.mem_cons] at hn; rcases hn with rfl | hn; exact hnd; exact ih' n hn
    | combineGlobal l m f fo => intro n hn; simp only [reorder, List.mem_cons] at hn; rcases hn with rfl | hn; exact hnd; exact ih' n hn
    | coGroup l r cl cr e => intro n hn; simp only [reorder, List.mem_cons] at hn; rcases hn with rfl | hn; exact hnd; exact ih' n hn
    | materialized p => intro n hn; simp only [reorder, List.mem_cons] at hn; rcases hn with rfl | hn; exact hnd; exact ih' n hn

theorem liftGbk_nodeOK (concat : List P → P) (c : List (Node P))
    (h : ∀ n ∈ c, NodeOK concat n) (hl : ∀ n ∈ c, LiftOK concat n) :
    ∀ n ∈ liftGbk c, NodeOK concat n := by
  fun_induction liftGbk c with
  | case1 l m lp lg mm rest ih =>
    have ih' := ih (fun x hx => h x (by simp [hx])) (fun x hx => hl x (by simp [hx]))
    intro n hn
    rcases List.mem_cons.mp hn with rfl | hn
    · exact hl (.combineValues lp (some lg) mm) (by simp)
    · exact ih' n hn
  | case2 nd rest hne ih =>
    have ih' := ih (fun x hx => h x (by simp [hx])) (fun x hx => hl x (by simp [hx]))
    intro n hn
    rcases List.mem_cons.mp hn with rfl | hn
    · exact h _ (by simp)
    · exact ih' n hn
  | case3 => intro n hn; cases hn

theorem dropMid_subset (c : List (Node P)) : ∀ n ∈ dropMid c, n ∈ c := by
  fun_induction dropMid c with
  | case1 => intro n hn; cases hn
  | case2 x => intro n hn; exact hn
  | case3 p x rest ih => intro n hn; exact List.mem_cons_of_mem _ (ih n hn)
  | case4 m x rest hm ih =>
    intro n hn
    rcases List.mem_cons.mp hn with rfl | hn
    · simp
    · exact List.mem_cons_of_mem _ (ih n hn)

/-- the optimiser preserves the node contracts -/
theorem optimise_nodeOK (concat : List P → P) (c : List (Node P))
    (h : ∀ n ∈ c, NodeOK concat n) (hl : ∀ n ∈ c, LiftOK concat n) :
    ∀ n ∈ optimise c, NodeOK concat n := by
  intro n hn
  unfold optimise at hn
  have h1 := fuse_nodeOK concat c h
  have h1l := fuse_liftOK concat c hl
  have h2 := reorder_nodeOK concat (fuse c) h1
  have h2l := reorder_liftOK concat (fuse c) h1l
  exact liftGbk_nodeOK concat _ h2 h2l n (dropMid_subset _ n hn)

theorem reorder_source (w : P) (len : Nat) (split : Nat → List P) (rest : List (Node P)) :
    reorder (.source w len split :: rest) = .source w len split :: reorder rest := rfl

theorem liftGbk_source (w : P) (len : Nat) (split : Nat → List P) (rest : List (Node P)) :
    liftGbk (.source w len split :: rest) = .source w len split :: liftGbk rest := by
  rw [liftGbk]
  intro l m lp lg mm r h; cases h

/-- a chain that starts with a source and has no `Materialized` marker still starts with that source
    after optimisation, and the rest meets the contracts -/
theorem optimise_source_shape (concat : List P → P) (w : P) (len : Nat) (split : Nat → List P)
    (rest : List (Node P)) (h : ∀ n ∈ rest, NodeOK concat n) (hl : ∀ n ∈ rest, LiftOK concat n) :
    ∃ rest', optimise (.source w len split :: rest) = .source w len split :: rest' ∧
      ∀ n ∈ rest', NodeOK concat n := by
  have hnomat : ∀ n ∈ liftGbk (reorder (fuse rest)), Node.isMat n = false := by
    intro n hn
    have hok := liftGbk_nodeOK concat _ (reorder_nodeOK concat _ (fuse_nodeOK concat rest h))
      (reorder_liftOK concat _ (fuse_liftOK concat rest hl)) n hn
    cases n with
    | materialized p => exact absurd hok (by simp [NodeOK, SubNodeOK])
    | source _ _ _ => rfl
    | stateless _ => rfl
    | gbk _ _ => rfl
    | combineValues _ _ _ => rfl
    | combineGlobal _ _ _ _ => rfl
    | coGroup _ _ _ _ _ => rfl
  refine ⟨liftGbk (reorder (fuse rest)), ?_, ?_⟩
  · unfold optimise
    rw [fuse_source, reorder_source, liftGbk_source]
    apply dropMid_of_noMat
    intro n hn
    rcases List.mem_cons.mp hn with rfl | hn
    · rfl
    · exact hnomat n hn
  · exact liftGbk_nodeOK concat _ (reorder_nodeOK concat _ (fuse_nodeOK concat rest h))
      (reorder_liftOK concat _ (fuse_liftOK concat rest hl))

end IB
