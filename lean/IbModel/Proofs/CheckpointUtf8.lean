import IbModel.Model.Checkpoint
/-! Helper lemmas for C12: the UTF-8 validity automaton accepts the encoding of every Unicode string. -/
namespace IB.Checkpoint

theorem u8_le (a b : UInt8) : (a ≤ b) ↔ a.toNat ≤ b.toNat := UInt8.le_iff_toNat_le
theorem u8_eq (a b : UInt8) : (a = b) ↔ a.toNat = b.toNat := UInt8.toNat_inj.symm

theorem validUtf8_one (b0 : UInt8) (r : Bytes) (h : b0.toNat ≤ 0x7F) : validUtf8 (b0 :: r) = validUtf8 r := by
  conv => lhs; unfold validUtf8
  have : b0 ≤ 0x7F := by rw [u8_le]; exact h
  simp [this]

theorem validUtf8_two (b0 b1 : UInt8) (r : Bytes) (h0 : 0xC2 ≤ b0.toNat ∧ b0.toNat ≤ 0xDF)
    (h1 : 0x80 ≤ b1.toNat ∧ b1.toNat ≤ 0xBF) : validUtf8 (b0 :: b1 :: r) = validUtf8 r := by
  conv => lhs; unfold validUtf8
  have n1 : ¬ b0 ≤ 0x7F := by rw [u8_le]; simp; omega
  have n2 : (0xC2 ≤ b0 && b0 ≤ 0xDF) = true := by simp [u8_le]; omega
  have n3 : isCont b1 = true := by simp [isCont, u8_le]; omega
  simp [n1, n2, n3]

theorem validUtf8_three (b0 b1 b2 : UInt8) (r : Bytes) (h0 : 0xE0 ≤ b0.toNat ∧ b0.toNat ≤ 0xEF)
    (h1 : 0x80 ≤ b1.toNat ∧ b1.toNat ≤ 0xBF) (hE0 : b0.toNat = 0xE0 → 0xA0 ≤ b1.toNat)
    (hED : b0.toNat = 0xED → b1.toNat ≤ 0x9F) (h2 : 0x80 ≤ b2.toNat ∧ b2.toNat ≤ 0xBF) :
    validUtf8 (b0 :: b1 :: b2 :: r) = validUtf8 r := by
  conv => lhs; unfold validUtf8
  have n1 : ¬ b0 ≤ 0x7F := by rw [u8_le]; simp; omega
  have n2 : (0xC2 ≤ b0 && b0 ≤ 0xDF) = false := by simp [u8_le]; omega
  have c1 : isCont b1 = true := by simp [isCont, u8_le]; omega
  have c2 : isCont b2 = true := by simp [isCont, u8_le]; omega
  simp only [n1, n2, if_false, Bool.false_eq_true]
  by_cases e0 : b0.toNat = 0xE0
  · have : (b0 == 0xE0) = true := by simp [u8_eq]; omega
    have hb : (0xA0 ≤ b1 && b1 ≤ 0xBF) = true := by simp [u8_le]; have := hE0 e0; omega
    simp [this, hb, c2]
  · have n3 : (b0 == 0xE0) = false := by simp [u8_eq]; omega
    simp only [n3, Bool.false_eq_true, if_false]
    by_cases eD : b0.toNat = 0xED
    · have n4 : ((0xE1 ≤ b0 && b0 ≤ 0xEC) || b0 == 0xEE || b0 == 0xEF) = false := by simp [u8_le, u8_eq]; omega
      have : (b0 == 0xED) = true := by simp [u8_eq]; omega
      have hb : (0x80 ≤ b1 && b1 ≤ 0x9F) = true := by simp [u8_le]; have := hED eD; omega
      simp [n4, this, hb, c2]
    · have y4 : ((0xE1 ≤ b0 && b0 ≤ 0xEC) || b0 == 0xEE || b0 == 0xEF) = true := by simp [u8_le, u8_eq]; omega
      simp [y4, c1, c2]

theorem validUtf8_four (b0 b1 b2 b3 : UInt8) (r : Bytes) (h0 : 0xF0 ≤ b0.toNat ∧ b0.toNat ≤ 0xF4)
    (h1 : 0x80 ≤ b1.toNat ∧ b1.toNat ≤ 0xBF) (hF0 : b0.toNat = 0xF0 → 0x90 ≤ b1.toNat)
    (hF4 : b0.toNat = 0xF4 → b1.toNat ≤ 0x8F) (h2 : 0x80 ≤ b2.toNat ∧ b2.toNat ≤ 0xBF)
    (h3 : 0x80 ≤ b3.toNat ∧ b3.toNat ≤ 0xBF) :
    validUtf8 (b0 :: b1 :: b2 :: b3 :: r) = validUtf8 r := by
  conv => lhs; unfold validUtf8
  have n1 : ¬ b0 ≤ 0x7F := by rw [u8_le]; simp; omega
  have n2 : (0xC2 ≤ b0 && b0 ≤ 0xDF) = false := by simp [u8_le]; omega
  have n3 : (b0 == 0xE0) = false := by simp [u8_eq]; omega
  have n4 : ((0xE1 ≤ b0 && b0 ≤ 0xEC) || b0 == 0xEE || b0 == 0xEF) = false := by simp [u8_le, u8_eq]; omega
  have n5 : (b0 == 0xED) = false := by simp [u8_eq]; omega
  have c1 : isCont b1 = true := by simp [isCont, u8_le]; omega
  have c2 : isCont b2 = true := by simp [isCont, u8_le]; omega
  have c3 : isCont b3 = true := by simp [isCont, u8_le]; omega
  simp only [n1, n2, n3, n4, n5, if_false, Bool.false_eq_true]
  by_cases e0 : b0.toNat = 0xF0
  · have : (b0 == 0xF0) = true := by simp [u8_eq]; omega
    have hb : (0x90 ≤ b1 && b1 ≤ 0xBF) = true := by simp [u8_le]; have := hF0 e0; omega
    simp [this, hb, c2, c3]
  · have m1 : (b0 == 0xF0) = false := by simp [u8_eq]; omega
    simp only [m1, Bool.false_eq_true, if_false]
    by_cases e4 : b0.toNat = 0xF4
    · have m2 : (0xF1 ≤ b0 && b0 ≤ 0xF3) = false := by simp [u8_le]; omega
      have : (b0 == 0xF4) = true := by simp [u8_eq]; omega
      have hb : (0x80 ≤ b1 && b1 ≤ 0x8F) = true := by simp [u8_le]; have := hF4 e4; omega
      simp [m2, this, hb, c2, c3]
    · have y2 : (0xF1 ≤ b0 && b0 ≤ 0xF3) = true := by simp [u8_le]; omega
      simp [y2, c1, c2, c3]

theorem ofNat_toNat {n : Nat} (h : n < 256) : (UInt8.ofNat n).toNat = n := by
  simp [UInt8.toNat_ofNat']; omega

/-- one scalar value: its UTF-8 encoding followed by valid bytes is valid -/
theorem validUtf8_encodeChar_append (c : Char) (r : Bytes) :
    validUtf8 (String.utf8EncodeChar c ++ r) = validUtf8 r := by
  have hv : c.val.toNat < 0xD800 ∨ (0xDFFF < c.val.toNat ∧ c.val.toNat < 0x110000) := c.valid
  unfold String.utf8EncodeChar
  simp only []
  generalize c.val.toNat = v at hv
  split
  · rename_i h
    exact validUtf8_one _ r (by rw [ofNat_toNat (by omega)]; exact h)
  · split
    · rename_i h1 h2
      refine validUtf8_two _ _ r ?_ ?_
      · rw [ofNat_toNat (by omega)]; omega
      · rw [ofNat_toNat (by omega)]; omega
    · split
      · rename_i h1 h2 h3
        refine validUtf8_three _ _ _ r ?_ ?_ ?_ ?_ ?_
        · rw [ofNat_toNat (by omega)]; omega
        · rw [ofNat_toNat (by omega)]; omega
        · rw [ofNat_toNat (by omega), ofNat_toNat (by omega)]; omega
        · rw [ofNat_toNat (by omega), ofNat_toNat (by omega)]; omega
        · rw [ofNat_toNat (by omega)]; omega
      · rename_i h1 h2 h3
        refine validUtf8_four _ _ _ _ r ?_ ?_ ?_ ?_ ?_ ?_
        · rw [ofNat_toNat (by omega)]; omega
        · rw [ofNat_toNat (by omega)]; omega
        · rw [ofNat_toNat (by omega), ofNat_toNat (by omega)]; omega
        · rw [ofNat_toNat (by omega), ofNat_toNat (by omega)]; omega
        · rw [ofNat_toNat (by omega)]; omega
        · rw [ofNat_toNat (by omega)]; omega

/-- the UTF-8 encoding of an arbitrary sequence of Unicode scalar values -/
def utf8Of (cs : List Char) : Bytes := cs.flatMap String.utf8EncodeChar

theorem validUtf8_utf8Of (cs : List Char) : validUtf8 (utf8Of cs) = true := by
  induction cs with
  | nil => rfl
  | cons c r ih =>
    unfold utf8Of at *
    rw [List.flatMap_cons, validUtf8_encodeChar_append]
    exact ih

end IB.Checkpoint
