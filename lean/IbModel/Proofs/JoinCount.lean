import IbModel.Proofs.JoinSpec
/-!
# Multiplicities in the relational specification (`matched`, `unmatchedL`, `unmatchedR`)
-/
namespace IB.Join
open Val

/-- rows normalised to `pair key value` (the identity on the rows a type-checked pipeline can hold) -/
def normRows (L : List Val) : List Val := L.map (fun a => .pair a.key a.value)

theorem normRows_eq_self (L : List Val) (h : ∀ r ∈ L, ∃ k v, r = Val.pair k v) : normRows L = L := by
  unfold normRows
  induction L with
  | nil => rfl
  | cons a L ih =>
    obtain ⟨k, v, rfl⟩ := h _ (List.mem_cons_self)
    rw [List.map_cons, ih (fun r hr => h r (List.mem_cons_of_mem _ hr))]
    rfl

theorem hasKey_iff (R : List Val) (k : Val) : hasKey R k = true ↔ ∃ b ∈ R, b.key = k := by
  simp [hasKey]

theorem hasKey_false_iff (R : List Val) (k : Val) : hasKey R k = false ↔ ∀ b ∈ R, b.key ≠ k := by
  simp [hasKey]

/-- the partners of one left row -/
theorem count_matched_row (fl fr : Val → Val) (hfr : ∀ x y, fr x = fr y → x = y)
    (a k x w : Val) (R : List Val) :
    List.count (Val.pair k (.pair x (fr w)))
      ((R.filter (fun b => b.key == a.key)).map (fun b => Val.pair a.key (.pair (fl a.value) (fr b.value))))
    = if a.key = k ∧ fl a.value = x then List.count (Val.pair k w) (normRows R) else 0 := by
  simp only [List.count_eq_countP, normRows, List.countP_map, List.countP_filter]
  split
  · rename_i h
    obtain ⟨h1, h2⟩ := h
    apply List.countP_congr
    intro b _
    simp only [Function.comp_apply, Bool.and_eq_true, beq_iff_eq, Val.pair.injEq]
    constructor
    · rintro ⟨⟨_, _, h3⟩, h4⟩; exact ⟨by rw [h4, h1], hfr _ _ h3⟩
    · rintro ⟨h3, h4⟩; exact ⟨⟨h1, h2, by rw [h4]⟩, by rw [h3, h1]⟩
  · rename_i h
    rw [List.countP_eq_zero]
    intro b _
    simp only [Function.comp_apply, Bool.and_eq_true, beq_iff_eq, Val.pair.injEq, not_and]
    intro ⟨h1, h2, _⟩
    exact absurd ⟨h1, h2⟩ h

/-- one row for every pair of a left and a right row with equal keys -/
theorem count_matched (fl fr : Val → Val) (hfl : ∀ x y, fl x = fl y → x = y)
    (hfr : ∀ x y, fr x = fr y → x = y) (L R : List Val) (k v w : Val) :
    List.count (Val.pair k (.pair (fl v) (fr w))) (matched fl fr L R)
      = List.count (Val.pair k v) (normRows L) * List.count (Val.pair k w) (normRows R) := by
  induction L with
  | nil => simp [matched, normRows]
  | cons a L ih =>
    have hc : matched fl fr (a :: L) R =
        (R.filter (fun b => b.key == a.key)).map (fun b => Val.pair a.key (.pair (fl a.value) (fr b.value)))
          ++ matched fl fr L R := by simp [matched]
    rw [hc, List.count_append, ih, count_matched_row fl fr hfr]
    simp only [normRows, List.map_cons, List.count_cons, beq_iff_eq, Val.pair.injEq]
    by_cases h : a.key = k ∧ a.value = v
    · have h' : a.key = k ∧ fl a.value = fl v := ⟨h.1, by rw [h.2]⟩
      simp only [h, and_self, ↓reduceIte, Nat.add_mul, Nat.one_mul]
      omega
    · have h' : ¬ (a.key = k ∧ fl a.value = fl v) := fun ⟨h1, h2⟩ => h ⟨h1, hfl _ _ h2⟩
      simp only [h, h', ↓reduceIte, Nat.add_zero, Nat.zero_add]

theorem mem_matched (fl fr : Val → Val) (L R : List Val) (x : Val) :
    x ∈ matched fl fr L R ↔
      ∃ a ∈ L, ∃ b ∈ R, b.key = a.key ∧ x = Val.pair a.key (.pair (fl a.value) (fr b.value)) := by
  simp only [matched, List.mem_flatMap, List.mem_map, List.mem_filter, beq_iff_eq]
  constructor
  · rintro ⟨a, ha, b, ⟨hb, hk⟩, rfl⟩; exact ⟨a, ha, b, hb, hk, rfl⟩
  · rintro ⟨a, ha, b, hb, hk, rfl⟩; exact ⟨a, ha, b, ⟨hb, hk⟩, rfl⟩

theorem mem_unmatchedL (fl : Val → Val) (L R : List Val) (x : Val) :
    x ∈ unmatchedL fl L R ↔
      ∃ a ∈ L, (∀ b ∈ R, b.key ≠ a.key) ∧ x = Val.pair a.key (.pair (fl a.value) .none) := by
  simp only [unmatchedL, List.mem_map, List.mem_filter, Bool.not_eq_true', hasKey_false_iff]
  constructor
  · rintro ⟨a, ⟨ha, hk⟩, rfl⟩; exact ⟨a, ha, hk, rfl⟩
  · rintro ⟨a, ha, hk, rfl⟩; exact ⟨a, ⟨ha, hk⟩, rfl⟩

theorem mem_unmatchedR (fr : Val → Val) (L R : List Val) (x : Val) :
    x ∈ unmatchedR fr L R ↔
      ∃ b ∈ R, (∀ a ∈ L, a.key ≠ b.key) ∧ x = Val.pair b.key (.pair .none (fr b.value)) := by
  simp only [unmatchedR, List.mem_map, List.mem_filter, Bool.not_eq_true', hasKey_false_iff]
  constructor
  · rintro ⟨a, ⟨ha, hk⟩, rfl⟩; exact ⟨a, ha, hk, rfl⟩
  · rintro ⟨a, ha, hk, rfl⟩; exact ⟨a, ⟨ha, hk⟩, rfl⟩

/-- every unmatched left row exactly once, the right side absent -/
theorem count_unmatchedL (fl : Val → Val) (hfl : ∀ x y, fl x = fl y → x = y) (L R : List Val) (k v : Val) :
    List.count (Val.pair k (.pair (fl v) .none)) (unmatchedL fl L R)
      = if hasKey R k then 0 else List.count (Val.pair k v) (normRows L) := by
  simp only [List.count_eq_countP, unmatchedL, normRows, List.countP_map, List.countP_filter]
  split
  · rename_i h
    rw [List.countP_eq_zero]
    intro a _
    simp only [Function.comp_apply, Bool.and_eq_true, beq_iff_eq, Val.pair.injEq, Bool.not_eq_true',
      not_and]
    rintro ⟨h1, _⟩
    rw [h1, h]; simp
  · rename_i h
    apply List.countP_congr
    intro a _
    simp only [Function.comp_apply, Bool.and_eq_true, beq_iff_eq, Val.pair.injEq, Bool.not_eq_true',
      and_true]
    constructor
    · rintro ⟨⟨h1, h2⟩, _⟩; exact ⟨h1, hfl _ _ h2⟩
    · rintro ⟨h1, h2⟩; exact ⟨⟨h1, by rw [h2]⟩, by rw [h1]; simpa using h⟩

theorem count_unmatchedR (fr : Val → Val) (hfr : ∀ x y, fr x = fr y → x = y) (L R : List Val) (k w : Val) :
    List.count (Val.pair k (.pair .none (fr w))) (unmatchedR fr L R)
      = if hasKey L k then 0 else List.count (Val.pair k w) (normRows R) := by
  simp only [List.count_eq_countP, unmatchedR, normRows, List.countP_map, List.countP_filter]
  split
  · rename_i h
    rw [List.countP_eq_zero]
    intro a _
    simp only [Function.comp_apply, Bool.and_eq_true, beq_iff_eq, Val.pair.injEq, Bool.not_eq_true',
      not_and]
    rintro ⟨h1, _⟩
    rw [h1, h]; simp
  · rename_i h
    apply List.countP_congr
    intro a _
    simp only [Function.comp_apply, Bool.and_eq_true, beq_iff_eq, Val.pair.injEq, Bool.not_eq_true',
      true_and]
    constructor
    · rintro ⟨⟨h1, h2⟩, _⟩; exact ⟨h1, hfr _ _ h2⟩
    · rintro ⟨h1, h2⟩; exact ⟨⟨h1, by rw [h2]⟩, by rw [h1]; simpa using h⟩

theorem some_inj (x y : Val) (h : Val.some x = Val.some y) : x = y := by cases h; rfl
theorem id_inj (x y : Val) (h : id x = id y) : x = y := h

end IB.Join
