import IbModel.Model.Assertions
/-!
# Helper lemmas for C20 (`Props/C20.lean`)

* the greedy matching of one run (`markFirst` / `matchRun`) decides multiset equality of the run;
* a list sorted by key splits into "rows with the least key" ++ "the rest";
* the run walk (`walkRuns`) decides multiset equality of two key-sorted lists.
-/
namespace IB.Assertions

set_option linter.unusedSectionVars false

variable {α : Type} [DecidableEq α] {κ : Type} [DecidableEq κ]

/-! ## greedy matching inside one run -/

/-- the expected rows of the run that are not yet paired -/
def unusedOf (re : List (κ × α)) (used : List Bool) : List (κ × α) :=
  ((re.zip used).filter (fun p => !p.2)).map Prod.fst

theorem unusedOf_replicate (re : List (κ × α)) :
    unusedOf re (List.replicate re.length false) = re := by
  induction re with
  | nil => rfl
  | cons x xs ih =>
    simp only [unusedOf] at ih
    simp [unusedOf, List.replicate_succ, ih]

theorem row_test_iff (e row : κ × α) : (e.1 == row.1 && e.2 == row.2) = true ↔ e = row := by
  cases e; cases row; simp

/-- `markFirst` finds a partner iff the row is among the unpaired expected rows; the new flags
    describe the unpaired rows minus (the first occurrence of) that row. -/
theorem markFirst_spec (row : κ × α) : ∀ (re : List (κ × α)) (used : List Bool),
    match markFirst row re used with
    | some used' => row ∈ unusedOf re used ∧ unusedOf re used' = (unusedOf re used).erase row
    | none => row ∉ unusedOf re used
  | [], _ => by simp [markFirst, unusedOf]
  | _ :: _, [] => by simp [markFirst, unusedOf]
  | e :: es, u :: us => by
    have ih := markFirst_spec row es us
    unfold markFirst
    by_cases hu : u = true
    · subst hu
      simp only [Bool.not_true, Bool.false_and, Bool.false_eq_true, ↓reduceIte]
      cases hm : markFirst row es us with
      | none => rw [hm] at ih; simpa [unusedOf] using ih
      | some used' => rw [hm] at ih; simpa [unusedOf] using ih
    · have hu' : u = false := by cases u <;> simp_all
      subst hu'
      by_cases he : e = row
      · subst he
        simp [unusedOf]
      · have hne : ¬ ((e.1 == row.1 && e.2 == row.2) = true) := fun h => he ((row_test_iff e row).mp h)
        have hne' : (e == row) = false := by simpa using he
        simp only [Bool.not_false, Bool.true_and, hne]
        cases hm : markFirst row es us with
        | none =>
          rw [hm] at ih
          simp only [unusedOf] at ih
          simp [unusedOf, ih, Ne.symm he]
        | some used' =>
          rw [hm] at ih
          simp only [unusedOf] at ih
          simp [unusedOf, ih, Ne.symm he, hne']

/-- the loop over one run succeeds and leaves no expected row unpaired iff the run of `actual` is a
    permutation of the unpaired expected rows -/
theorem matchRun_iff : ∀ (ra re : List (κ × α)) (used : List Bool),
    (matchRun ra re used = true ∧ ra.length = (unusedOf re used).length) ↔
      ra.Perm (unusedOf re used)
  | [], re, used => by
    simp only [matchRun, List.length_nil, true_and, List.nil_perm]
    constructor
    · intro h; exact List.length_eq_zero_iff.mp h.symm
    · intro h; rw [h]; rfl
  | row :: rest, re, used => by
    have spec := markFirst_spec row re used
    unfold matchRun
    rw [List.cons_perm_iff_perm_erase]
    cases hm : markFirst row re used with
    | none =>
      rw [hm] at spec
      simp [spec]
    | some used' =>
      rw [hm] at spec
      have ih := matchRun_iff rest re used'
      rw [spec.2] at ih
      simp only [List.length_cons]
      rw [← ih, List.length_erase_of_mem spec.1]
      have hpos : 0 < (unusedOf re used).length := List.length_pos_of_mem spec.1
      constructor
      · rintro ⟨h1, h2⟩; exact ⟨spec.1, h1, by omega⟩
      · rintro ⟨_, h1, h2⟩; exact ⟨h1, by omega⟩

/-- one run, started with all flags cleared, for runs of equal length -/
theorem matchRun_fresh_iff (ra re : List (κ × α)) (h : ra.length = re.length) :
    matchRun ra re (List.replicate re.length false) = true ↔ ra.Perm re := by
  have := matchRun_iff ra re (List.replicate re.length false)
  rw [unusedOf_replicate] at this
  rw [← this]
  exact ⟨fun h' => ⟨h', h⟩, fun h' => h'.1⟩

/-! ## key-sorted lists -/

/-- `l` is sorted by key -/
abbrev SortedBy {β : Type} (le : κ → κ → Bool) (l : List (κ × β)) : Prop :=
  l.Pairwise (fun x y => le x.1 y.1 = true)

/-- in a key-sorted list whose keys are all `≥ k`, the rows with key `k` come first -/
theorem takeWhile_eq_filter_of_sorted {β : Type} (le : κ → κ → Bool)
    (antisymm : ∀ a b, le a b → le b a → a = b) (k : κ) :
    ∀ (l : List (κ × β)), SortedBy le l → (∀ x ∈ l, le k x.1 = true) →
      l.takeWhile (fun r => r.1 == k) = l.filter (fun r => r.1 == k) ∧
      l.dropWhile (fun r => r.1 == k) = l.filter (fun r => !(r.1 == k))
  | [], _, _ => by simp
  | x :: xs, hs, hlb => by
    have hs' := List.pairwise_cons.mp hs
    have ih := takeWhile_eq_filter_of_sorted le antisymm k xs hs'.2
      (fun y hy => hlb y (List.mem_cons_of_mem _ hy))
    by_cases hx : x.1 = k
    · simp [hx, ih.1, ih.2]
    · -- every later key is ≥ x.1 ≥ k and x.1 ≠ k, so no later key is k
      have hnone : ∀ y ∈ xs, ¬ (y.1 = k) := by
        intro y hy hyk
        have h1 : le x.1 y.1 = true := hs'.1 y hy
        have h2 : le k x.1 = true := hlb x List.mem_cons_self
        rw [hyk] at h1
        exact hx (antisymm _ _ h1 h2)
      have hf1 : xs.filter (fun r => r.1 == k) = [] := by
        rw [List.filter_eq_nil_iff]; intro y hy; simpa using hnone y hy
      have hf2 : xs.filter (fun r => !(r.1 == k)) = xs := by
        rw [List.filter_eq_self]; intro y hy; simpa using hnone y hy
      simp [hx, hf1, hf2]

/-- splitting a key-sorted list at the number of rows with the least key -/
theorem take_drop_of_sorted {β : Type} (le : κ → κ → Bool)
    (antisymm : ∀ a b, le a b → le b a → a = b) (k : κ) (l : List (κ × β)) (hs : SortedBy le l)
    (hlb : ∀ x ∈ l, le k x.1 = true) (n : Nat) (hn : n = (l.filter (fun r => r.1 == k)).length) :
    l.take n = l.filter (fun r => r.1 == k) ∧ l.drop n = l.filter (fun r => !(r.1 == k)) := by
  have h := takeWhile_eq_filter_of_sorted le antisymm k l hs hlb
  have hsplit : l = l.filter (fun r => r.1 == k) ++ l.filter (fun r => !(r.1 == k)) := by
    conv => lhs; rw [← List.takeWhile_append_dropWhile (p := fun r => r.1 == k) (l := l)]
    rw [h.1, h.2]
  constructor
  · conv => lhs; rw [hsplit]
    exact List.take_left' hn.symm
  · conv => lhs; rw [hsplit]
    exact List.drop_left' hn.symm

/-! ## the run walk -/

/-- soundness of the walk needs no order at all: whatever it accepts is multiset-equal -/
theorem walkRuns_sound : ∀ (fuel : Nat) (a e : List (κ × α)), a.length = e.length →
    walkRuns fuel a e = true → a.Perm e
  | _, [], e, hl, _ => by
    have : e = [] := List.length_eq_zero_iff.mp hl.symm
    subst this; exact List.Perm.refl _
  | 0, _ :: _, _, _, h => by simp [walkRuns] at h
  | fuel + 1, (k, v) :: rest, e, hl, h => by
    simp only [walkRuns, Bool.and_eq_true] at h
    generalize hn : 1 + (rest.takeWhile (fun r => r.1 == k)).length = n at h
    have hlen : (((k, v) :: rest).take n).length = (e.take n).length := by
      simp only [List.length_take, hl]
    have hnle : n ≤ e.length := by
      rw [← hl, ← hn]
      have := (List.takeWhile_sublist (fun r : κ × α => r.1 == k) (l := rest)).length_le
      simp only [List.length_cons]; omega
    have hen : (e.take n).length = n := by simp [List.length_take, hnle]
    have h1 : matchRun (((k, v) :: rest).take n) (e.take n)
        (List.replicate (e.take n).length false) = true := by rw [hen]; exact h.1
    have hp1 := (matchRun_fresh_iff _ _ hlen).mp h1
    have hp2 := walkRuns_sound fuel _ _ (by simp only [List.length_drop, hl]) h.2
    have := hp1.append hp2
    rwa [List.take_append_drop, List.take_append_drop] at this

/-- completeness of the walk on key-sorted inputs -/
theorem walkRuns_complete (le : κ → κ → Bool)
    (total : ∀ a b, le a b || le b a) (antisymm : ∀ a b, le a b → le b a → a = b) :
    ∀ (fuel : Nat) (a e : List (κ × α)), a.length ≤ fuel → SortedBy le a → SortedBy le e →
      a.Perm e → walkRuns fuel a e = true
  | _, [], _, _, _, _, _ => by simp [walkRuns]
  | 0, _ :: _, _, hf, _, _, _ => by simp at hf
  | fuel + 1, (k, v) :: rest, e, hf, hsa, hse, hp => by
    simp only [walkRuns, Bool.and_eq_true]
    generalize hn : 1 + (rest.takeWhile (fun r => r.1 == k)).length = n
    have hrefl : le k k = true := by simpa using total k k
    have hlba : ∀ x ∈ (k, v) :: rest, le k x.1 = true := by
      intro x hx
      rcases List.mem_cons.mp hx with rfl | hx
      · exact hrefl
      · exact (List.pairwise_cons.mp hsa).1 x hx
    have hlbe : ∀ x ∈ e, le k x.1 = true := fun x hx => hlba x (hp.mem_iff.mpr hx)
    have hta := takeWhile_eq_filter_of_sorted le antisymm k _ hsa hlba
    have hna : n = (((k, v) :: rest).filter (fun r => r.1 == k)).length := by
      rw [← hta.1, ← hn]; simp; omega
    have hne : n = (e.filter (fun r => r.1 == k)).length := by
      rw [hna]; exact (hp.filter _).length_eq
    have ha := take_drop_of_sorted le antisymm k _ hsa hlba n hna
    have he := take_drop_of_sorted le antisymm k _ hse hlbe n hne
    have hen : (e.take n).length = n := by rw [he.1]; exact hne.symm
    constructor
    · have hlen : (((k, v) :: rest).take n).length = (e.take n).length := by
        rw [ha.1, he.1]; exact (hp.filter _).length_eq
      have := (matchRun_fresh_iff _ _ hlen).mpr (by rw [ha.1, he.1]; exact hp.filter _)
      rwa [hen] at this
    · apply walkRuns_complete le total antisymm fuel
      · have : 1 ≤ n := by omega
        simp only [List.length_drop, List.length_cons] at hf ⊢; omega
      · exact hsa.sublist (List.drop_sublist _ _)
      · exact hse.sublist (List.drop_sublist _ _)
      · rw [ha.2, he.2]; exact hp.filter _

/-! ## element counts / sets (unordered and grouped assertions) -/

theorem countsEq_iff (a b : List α) : countsEq a b = true ↔ ∀ x, a.count x = b.count x := by
  unfold countsEq
  simp only [List.all_eq_true, List.mem_append, beq_iff_eq]
  constructor
  · intro h x
    by_cases hx : x ∈ a ∨ x ∈ b
    · exact h x hx
    · have ha : x ∉ a := fun h' => hx (Or.inl h')
      have hb : x ∉ b := fun h' => hx (Or.inr h')
      rw [List.count_eq_zero_of_not_mem ha, List.count_eq_zero_of_not_mem hb]
  · intro h x _; exact h x

/-! ### the counter of `first_count_mismatch` decides `countsEq` -/

/-- the table holds, for every element seen so far, how often it was seen on either side -/
def TableInv (t : List (α × Nat × Nat)) (f g : α → Nat) : Prop :=
  ∀ z, getCount z t = if f z + g z = 0 then none else some (f z, g z)

theorem lookup_bumpL (x z : α) : ∀ (t : List (α × Nat × Nat)),
    getCount z (bumpL x t) =
      if z = x then some (match getCount x t with | some (n, m) => (n + 1, m) | none => (1, 0))
      else getCount z t
  | [] => by
    by_cases h : z = x
    · simp [bumpL, getCount, h]
    · have hxz : ¬ x = z := fun e => h e.symm
      simp [bumpL, getCount, h, hxz]
  | (y, n, m) :: t => by
    have ih := lookup_bumpL x z t
    by_cases hyx : y = x
    · subst hyx
      by_cases hz : z = y
      · subst hz; simp [bumpL, getCount]
      · have hyz : ¬ y = z := fun e => hz e.symm
        simp [bumpL, getCount, hz, hyz]
    · by_cases hz : z = x
      · subst hz
        simp [bumpL, getCount, hyx, ih]
      · by_cases hyz : y = z
        · subst hyz; simp [bumpL, getCount, hyx]
        · simp [bumpL, getCount, hyx, hz, hyz, ih]

theorem lookup_bumpR (x z : α) : ∀ (t : List (α × Nat × Nat)),
    getCount z (bumpR x t) =
      if z = x then some (match getCount x t with | some (n, m) => (n, m + 1) | none => (0, 1))
      else getCount z t
  | [] => by
    by_cases h : z = x
    · simp [bumpR, getCount, h]
    · have hxz : ¬ x = z := fun e => h e.symm
      simp [bumpR, getCount, h, hxz]
  | (y, n, m) :: t => by
    have ih := lookup_bumpR x z t
    by_cases hyx : y = x
    · subst hyx
      by_cases hz : z = y
      · subst hz; simp [bumpR, getCount]
      · have hyz : ¬ y = z := fun e => hz e.symm
        simp [bumpR, getCount, hz, hyz]
    · by_cases hz : z = x
      · subst hz
        simp [bumpR, getCount, hyx, ih]
      · by_cases hyz : y = z
        · subst hyz; simp [bumpR, getCount, hyx]
        · simp [bumpR, getCount, hyx, hz, hyz, ih]

theorem tableInv_bumpL (x : α) (t : List (α × Nat × Nat)) (f g : α → Nat) (h : TableInv t f g) :
    TableInv (bumpL x t) (fun z => f z + (if x = z then 1 else 0)) g := by
  intro z
  rw [lookup_bumpL]
  by_cases hz : z = x
  · subst hz
    rw [h z]
    by_cases h0 : f z + g z = 0
    · have : f z = 0 ∧ g z = 0 := by omega
      simp [this.1, this.2]
    · simp only [h0, if_false, if_true]
      have : ¬ (f z + 1 + g z = 0) := by omega
      simp
  · have hxz : ¬ x = z := fun e => hz e.symm
    simp [hz, hxz, h z]

theorem tableInv_bumpR (x : α) (t : List (α × Nat × Nat)) (f g : α → Nat) (h : TableInv t f g) :
    TableInv (bumpR x t) f (fun z => g z + (if x = z then 1 else 0)) := by
  intro z
  rw [lookup_bumpR]
  by_cases hz : z = x
  · subst hz
    rw [h z]
    by_cases h0 : f z + g z = 0
    · have : f z = 0 ∧ g z = 0 := by omega
      simp [this.1, this.2]
    · simp only [h0, if_false, if_true]
      have : ¬ (f z + (g z + 1) = 0) := by omega
      simp
  · have hxz : ¬ x = z := fun e => hz e.symm
    simp [hz, hxz, h z]

theorem tableInv_foldL : ∀ (a : List α) (t : List (α × Nat × Nat)) (f g : α → Nat), TableInv t f g →
    TableInv (a.foldl (fun t x => bumpL x t) t) (fun z => f z + a.count z) g
  | [], t, f, g, h => by simpa using h
  | x :: a, t, f, g, h => by
    have := tableInv_foldL a _ _ _ (tableInv_bumpL x t f g h)
    intro z
    rw [List.foldl_cons, this z]
    simp only [List.count_cons, beq_iff_eq]
    have e : f z + (if x = z then 1 else 0) + a.count z = f z + (a.count z + if x = z then 1 else 0) := by omega
    rw [e]

theorem tableInv_foldR : ∀ (b : List α) (t : List (α × Nat × Nat)) (f g : α → Nat), TableInv t f g →
    TableInv (b.foldl (fun t x => bumpR x t) t) f (fun z => g z + b.count z)
  | [], t, f, g, h => by simpa using h
  | x :: b, t, f, g, h => by
    have := tableInv_foldR b _ _ _ (tableInv_bumpR x t f g h)
    intro z
    rw [List.foldl_cons, this z]
    simp only [List.count_cons, beq_iff_eq]
    have e : g z + (if x = z then 1 else 0) + b.count z = g z + (b.count z + if x = z then 1 else 0) := by omega
    rw [e]

theorem countTable_lookup (a b : List α) (z : α) :
    getCount z (countTable a b) = if a.count z + b.count z = 0 then none else some (a.count z, b.count z) := by
  have h0 : TableInv ([] : List (α × Nat × Nat)) (fun _ => 0) (fun _ => 0) := by intro z; simp [getCount]
  have := tableInv_foldR b _ _ _ (tableInv_foldL a _ _ _ h0) z
  simpa [countTable] using this

theorem firstCountMismatch_isNone (a b : List α) :
    (firstCountMismatch a b).isNone = countsEq a b := by
  rw [Bool.eq_iff_iff, Option.isNone_iff_eq_none]
  unfold firstCountMismatch countsEq
  rw [List.find?_eq_none, List.all_eq_true]
  constructor
  · intro h x hx
    have hx' := h x hx
    rw [countTable_lookup] at hx'
    have hpos : ¬ (a.count x + b.count x = 0) := by
      rcases List.mem_append.mp hx with h1 | h1
      · have := List.count_pos_iff.mpr h1; omega
      · have := List.count_pos_iff.mpr h1; omega
    simp only [hpos, if_false] at hx'
    simpa using hx'
  · intro h x hx
    have hx' := h x hx
    rw [countTable_lookup]
    by_cases hpos : a.count x + b.count x = 0
    · simp [hpos]
    · simp only [hpos, if_false]
      simpa using hx'

theorem setEq_of_perm {a b : List α} (h : a.Perm b) : setEq a b = true := by
  unfold setEq subsetB
  simp only [Bool.and_eq_true, List.all_eq_true, List.contains_iff_mem]
  exact ⟨fun x hx => h.mem_iff.mp hx, fun x hx => h.mem_iff.mpr hx⟩

/-- the per-row test of `assert_grouped_kv_equal`: same key, values equal as multisets -/
theorem groupTest_iff (r s : κ × List α) :
    (r.1 == s.1 && setEq r.2 s.2 && countsEq r.2 s.2) = true ↔ r.1 = s.1 ∧ r.2.Perm s.2 := by
  simp only [Bool.and_eq_true, beq_iff_eq]
  constructor
  · rintro ⟨⟨hk, _⟩, hc⟩
    exact ⟨hk, List.perm_iff_count.mpr ((countsEq_iff _ _).mp hc)⟩
  · rintro ⟨hk, hp⟩
    exact ⟨⟨hk, setEq_of_perm hp⟩, (countsEq_iff _ _).mpr (List.perm_iff_count.mp hp)⟩

/-! ## position-wise comparison of two lists -/

section zip
variable {β γ : Type}

theorem exists_zip_of_mem_left : ∀ (a : List β) (b : List γ), a.length = b.length →
    ∀ r ∈ a, ∃ s, (r, s) ∈ a.zip b
  | [], _, _, _, hr => by simp at hr
  | _ :: _, [], h, _, _ => by simp at h
  | x :: a, y :: b, h, r, hr => by
    rcases List.mem_cons.mp hr with rfl | hr
    · exact ⟨y, by simp⟩
    · obtain ⟨s, hs⟩ := exists_zip_of_mem_left a b (by simpa using h) r hr
      exact ⟨s, by simp [hs]⟩

theorem exists_zip_of_mem_right : ∀ (a : List β) (b : List γ), a.length = b.length →
    ∀ s ∈ b, ∃ r, (r, s) ∈ a.zip b
  | _, [], _, _, hs => by simp at hs
  | [], _ :: _, h, _, _ => by simp at h
  | x :: a, y :: b, h, s, hs => by
    rcases List.mem_cons.mp hs with rfl | hs
    · exact ⟨x, by simp⟩
    · obtain ⟨r, hr⟩ := exists_zip_of_mem_right a b (by simpa using h) s hs
      exact ⟨r, by simp [hr]⟩

/-- equal key columns ↔ equal lengths and position-wise equal keys -/
theorem map_fst_eq_iff_zip {δ ε : Type} : ∀ (a : List (β × δ)) (b : List (β × ε)),
    a.map Prod.fst = b.map Prod.fst ↔
      (a.length = b.length ∧ ∀ p ∈ a.zip b, p.1.1 = p.2.1)
  | [], [] => by simp
  | [], _ :: _ => by simp
  | _ :: _, [] => by simp
  | x :: a, y :: b => by
    have ih := map_fst_eq_iff_zip a b
    simp only [List.map_cons, List.cons.injEq, ih, List.length_cons, Nat.add_right_cancel_iff,
      List.zip_cons_cons, List.mem_cons, forall_eq_or_imp]
    constructor
    · rintro ⟨h1, h2, h3⟩; exact ⟨h2, h1, h3⟩
    · rintro ⟨h2, h1, h3⟩; exact ⟨h1, h2, h3⟩

end zip

/-- with pairwise distinct keys, two rows with the same key are the same row -/
theorem eq_of_mem_of_nodup_keys {β γ : Type} : ∀ (l : List (β × γ)), (l.map Prod.fst).Nodup →
    ∀ x ∈ l, ∀ y ∈ l, x.1 = y.1 → x = y
  | [], _, _, hx, _, _, _ => by simp at hx
  | z :: l, hnd, x, hx, y, hy, hk => by
    simp only [List.map_cons, List.nodup_cons, List.mem_map, not_exists, not_and] at hnd
    rcases List.mem_cons.mp hx with hxz | hx <;> rcases List.mem_cons.mp hy with hyz | hy
    · exact hxz.trans hyz.symm
    · exact absurd (by rw [← hxz]; exact hk.symm) (hnd.1 y hy)
    · exact absurd (by rw [← hyz]; exact hk) (hnd.1 x hx)
    · exact eq_of_mem_of_nodup_keys l hnd.2 x hx y hy hk

/-- two key-sorted lists with the same multiset of keys have the same key column -/
theorem keys_eq_of_sorted_of_perm {β γ : Type} (le : κ → κ → Bool)
    (antisymm : ∀ a b, le a b → le b a → a = b) (a : List (κ × β)) (b : List (κ × γ))
    (hsa : SortedBy le a) (hsb : SortedBy le b) (hp : (a.map Prod.fst).Perm (b.map Prod.fst)) :
    a.map Prod.fst = b.map Prod.fst := by
  have h1 : (a.map Prod.fst).Pairwise (fun x y => le x y = true) := List.pairwise_map.mpr hsa
  have h2 : (b.map Prod.fst).Pairwise (fun x y => le x y = true) := List.pairwise_map.mpr hsb
  exact List.Perm.eq_of_pairwise (fun x y _ _ hxy hyx => antisymm x y hxy hyx) h1 h2 hp

theorem sortByKey_perm {β : Type} (le : κ → κ → Bool) (l : List (κ × β)) :
    (sortByKey le l).Perm l := List.mergeSort_perm _ _

theorem sortByKey_sorted {β : Type} (le : κ → κ → Bool)
    (trans : ∀ a b c, le a b → le b c → le a c) (total : ∀ a b, le a b || le b a)
    (l : List (κ × β)) : SortedBy le (sortByKey le l) :=
  List.pairwise_mergeSort (fun x y z => trans x.1 y.1 z.1) (fun x y => total x.1 y.1) l

theorem sortByKey_of_sorted {β : Type} (le : κ → κ → Bool) (l : List (κ × β))
    (h : SortedBy le l) : sortByKey le l = l :=
  List.mergeSort_of_pairwise h

/-- flattening respects the position-wise relation "same key, values equal as multisets" -/
theorem flattenGroups_perm_of_zip : ∀ (a b : List (κ × List α)), a.length = b.length →
    (∀ p ∈ a.zip b, p.1.1 = p.2.1 ∧ p.1.2.Perm p.2.2) →
    (flattenGroups a).Perm (flattenGroups b)
  | [], [], _, _ => List.Perm.refl _
  | [], _ :: _, h, _ => by simp at h
  | _ :: _, [], h, _ => by simp at h
  | (k, vs) :: a, (k', ws) :: b, h, hz => by
    have h0 := hz ((k, vs), (k', ws)) (by simp)
    have ih := flattenGroups_perm_of_zip a b (by simpa using h)
      (fun p hp => hz p (by simp [hp]))
    simp only at h0
    obtain ⟨rfl, hvw⟩ := h0
    simp only [flattenGroups, List.flatMap_cons]
    exact (hvw.map _).append ih

theorem sameValues_iff (vs ws : List α) : sameValues vs ws = true ↔ vs.Perm ws := by
  have := groupTest_iff ((), vs) ((), ws)
  simpa [sameValues, firstCountMismatch_isNone] using this

/-! ## the grouped run walk = the key/value run walk on rows whose value is the group *up to order*

`MSet α` is the quotient of `List α` by `Perm`; on rows `(k, ⟦vs⟧)` the grouped row test
(`same key ∧ sameValues`) is plain equality, so every statement about `markFirst` / `matchRun` /
`walkRuns` / `assertKv` transfers. -/

/-- a group's values up to order -/
abbrev MSet (α : Type) := Quotient (List.isSetoid α)

noncomputable instance instDecEqMSet : DecidableEq (MSet α) := fun _ _ => Classical.propDecidable _

/-- a grouped row with its values taken up to order -/
def qrow (r : κ × List α) : κ × MSet α := (r.1, Quotient.mk _ r.2)

theorem qrow_eq_iff (r s : κ × List α) : qrow r = qrow s ↔ r.1 = s.1 ∧ r.2.Perm s.2 := by
  cases r; cases s
  simp only [qrow, Prod.mk.injEq]
  exact ⟨fun ⟨h1, h2⟩ => ⟨h1, Quotient.exact h2⟩, fun ⟨h1, h2⟩ => ⟨h1, Quotient.sound h2⟩⟩

theorem sameValues_eq_beq (row e : κ × List α) :
    sameValues row.2 e.2 = ((qrow e).2 == (qrow row).2) := by
  rw [Bool.eq_iff_iff, sameValues_iff, beq_iff_eq]
  exact ⟨fun h => Quotient.sound h.symm, fun h => (Quotient.exact h).symm⟩

theorem markFirstG_eq (row : κ × List α) : ∀ (re : List (κ × List α)) (used : List Bool),
    markFirstG row re used = markFirst (qrow row) (re.map qrow) used
  | [], _ => by simp [markFirstG, markFirst]
  | _ :: _, [] => by simp [markFirstG, markFirst]
  | e :: es, u :: us => by
    have ih := markFirstG_eq row es us
    simp only [markFirstG, markFirst, List.map_cons, ih, sameValues_eq_beq row e]
    rfl

theorem matchRunG_eq : ∀ (ra re : List (κ × List α)) (used : List Bool),
    matchRunG ra re used = matchRun (ra.map qrow) (re.map qrow) used
  | [], _, _ => by simp [matchRunG, matchRun]
  | row :: rest, re, used => by
    simp only [matchRunG, matchRun, List.map_cons, markFirstG_eq]
    cases markFirst (qrow row) (re.map qrow) used with
    | none => rfl
    | some used' => exact matchRunG_eq rest re used'

theorem walkRunsG_eq : ∀ (fuel : Nat) (a e : List (κ × List α)),
    walkRunsG fuel a e = walkRuns fuel (a.map qrow) (e.map qrow)
  | _, [], _ => by simp [walkRunsG, walkRuns]
  | 0, _ :: _, _ => by simp [walkRunsG, walkRuns]
  | fuel + 1, (k, vs) :: rest, e => by
    have htw : ((rest.map qrow).takeWhile (fun r => r.1 == k)).length =
        (rest.takeWhile (fun r => r.1 == k)).length := by
      rw [List.takeWhile_map, List.length_map]; rfl
    simp only [walkRunsG, walkRuns, List.map_cons, qrow, htw]
    rw [matchRunG_eq, walkRunsG_eq fuel]
    simp only [List.map_take, List.map_drop, List.map_cons, qrow]

theorem sortByKey_map_qrow (le : κ → κ → Bool) (l : List (κ × List α)) :
    (sortByKey le l).map qrow = sortByKey le (l.map qrow) :=
  List.map_mergeSort (fun _ _ _ _ => rfl)

/-- the current grouped assertion is the key/value assertion on the rows `(k, ⟦vs⟧)` -/
theorem assertGrouped_eq_assertKv (le : κ → κ → Bool) (a b : List (κ × List α)) :
    assertGrouped le a b = assertKv le (a.map qrow) (b.map qrow) := by
  simp only [assertGrouped, assertKv, walkRunsG_eq, sortByKey_map_qrow]
  rw [← sortByKey_map_qrow, ← sortByKey_map_qrow, List.length_map, List.length_map]

/-- `l` is a rearrangement of the image of `b`: rearrange `b` itself -/
theorem exists_perm_map_eq {β γ : Type} (f : β → γ) : ∀ {l m : List γ}, l.Perm m →
    ∀ b : List β, m = b.map f → ∃ b' : List β, b'.Perm b ∧ b'.map f = l := by
  intro l m h
  induction h with
  | nil =>
    intro b hb
    exact ⟨[], by rw [List.eq_nil_of_map_eq_nil hb.symm], rfl⟩
  | cons x _ ih =>
    intro b hb
    match b, hb with
    | y :: b1, hb =>
      simp only [List.map_cons, List.cons.injEq] at hb
      obtain ⟨b1', hp, hm⟩ := ih b1 hb.2
      exact ⟨y :: b1', hp.cons y, by simp [hm, hb.1]⟩
  | swap x y t =>
    intro b hb
    match b, hb with
    | u :: v :: b2, hb =>
      simp only [List.map_cons, List.cons.injEq] at hb
      exact ⟨v :: u :: b2, List.Perm.swap _ _ _, by simp [hb.1, hb.2.1, hb.2.2]⟩
  | trans _ _ ih1 ih2 =>
    intro b hb
    obtain ⟨b2, hp2, hm2⟩ := ih2 b hb
    obtain ⟨b1, hp1, hm1⟩ := ih1 b2 hm2.symm
    exact ⟨b1, hp1.trans hp2, hm1⟩

/-- position-wise "same key, values equal as multisets" ↔ equal images under `qrow` -/
theorem map_qrow_eq_iff_zip : ∀ (a b : List (κ × List α)),
    a.map qrow = b.map qrow ↔
      (a.length = b.length ∧ ∀ p ∈ a.zip b, p.1.1 = p.2.1 ∧ p.1.2.Perm p.2.2)
  | [], [] => by simp
  | [], _ :: _ => by simp
  | _ :: _, [] => by simp
  | x :: a, y :: b => by
    have ih := map_qrow_eq_iff_zip a b
    simp only [List.map_cons, List.cons.injEq, ih, qrow_eq_iff, List.length_cons,
      Nat.add_right_cancel_iff, List.zip_cons_cons, List.mem_cons, forall_eq_or_imp]
    constructor
    · rintro ⟨h1, h2, h3⟩; exact ⟨h2, h1, h3⟩
    · rintro ⟨h2, h1, h3⟩; exact ⟨h1, h2, h3⟩

/-- equal as multisets of groups, without the quotient: `b` can be rearranged so that the two sides
    agree position by position in key and value multiset -/
theorem perm_map_qrow_iff (a b : List (κ × List α)) :
    (a.map qrow).Perm (b.map qrow) ↔
      ∃ b', b'.Perm b ∧ a.length = b'.length ∧
        ∀ p ∈ a.zip b', p.1.1 = p.2.1 ∧ p.1.2.Perm p.2.2 := by
  constructor
  · intro h
    obtain ⟨b', hp, hm⟩ := exists_perm_map_eq qrow h b rfl
    exact ⟨b', hp, (map_qrow_eq_iff_zip a b').mp hm.symm⟩
  · rintro ⟨b', hp, hz⟩
    rw [(map_qrow_eq_iff_zip a b').mpr hz]
    exact hp.map qrow

/-- occurrences of a group up to order = rows passing the grouped row test against it -/
theorem count_qrow (l : List (κ × List α)) (k : κ) (vs : List α) :
    (l.map qrow).count (qrow (k, vs)) = l.countP (fun r => r.1 == k && sameValues r.2 vs) := by
  rw [List.count_eq_countP, List.countP_map]
  apply List.countP_congr
  intro r _
  simp only [Function.comp, beq_iff_eq, qrow_eq_iff, Bool.and_eq_true, sameValues_iff]

theorem eq_of_mem_zip_self {β : Type} : ∀ (a : List β) (p : β × β), p ∈ a.zip a → p.1 = p.2
  | [], _, h => by simp at h
  | x :: a, p, h => by
    simp only [List.zip_cons_cons, List.mem_cons] at h
    rcases h with rfl | h
    · rfl
    · exact eq_of_mem_zip_self a p h

/-! ## maps (`assert_maps_equal`) -/

theorem lookup_insertKV (k : κ) (v : α) (k' : κ) : ∀ (m : List (κ × α)),
    (insertKV k v m).lookup k' = if k' = k then some v else m.lookup k'
  | [] => by
    by_cases h : k' = k
    · subst h; simp [insertKV]
    · have hb : (k' == k) = false := by simpa using h
      simp [insertKV, List.lookup_cons, hb, h]
  | (k1, v1) :: t => by
    have ih := lookup_insertKV k v k' t
    by_cases h1 : k1 = k
    · subst h1
      by_cases h : k' = k1
      · subst h; simp [insertKV]
      · have hb : (k' == k1) = false := by simpa using h
        simp [insertKV, List.lookup_cons, hb, h]
    · have hb1 : (k1 == k) = false := by simpa using h1
      by_cases h2 : k' = k1
      · subst h2
        simp [insertKV, hb1, h1]
      · have hb2 : (k' == k1) = false := by simpa using h2
        simp [insertKV, List.lookup_cons, hb1, hb2, ih]

theorem keys_insertKV (k : κ) (v : α) : ∀ (m : List (κ × α)),
    ∀ x, x ∈ (insertKV k v m).map Prod.fst ↔ x = k ∨ x ∈ m.map Prod.fst
  | [], x => by simp [insertKV]
  | (k1, v1) :: t, x => by
    have ih := keys_insertKV k v t x
    by_cases h1 : k1 = k
    · subst h1; simp [insertKV]
    · simp only [insertKV, beq_iff_eq, h1, ↓reduceIte, List.map_cons, List.mem_cons, ih]
      constructor
      · rintro (h | h | h)
        · exact Or.inr (Or.inl h)
        · exact Or.inl h
        · exact Or.inr (Or.inr h)
      · rintro (h | h | h)
        · exact Or.inr (Or.inl h)
        · exact Or.inl h
        · exact Or.inr (Or.inr h)

theorem nodup_insertKV (k : κ) (v : α) : ∀ (m : List (κ × α)), (m.map Prod.fst).Nodup →
    ((insertKV k v m).map Prod.fst).Nodup
  | [], _ => by simp [insertKV]
  | (k1, v1) :: t, h => by
    simp only [List.map_cons, List.nodup_cons] at h
    by_cases h1 : k1 = k
    · subst h1; simpa [insertKV] using h
    · simp only [insertKV, beq_iff_eq, h1, ↓reduceIte, List.map_cons, List.nodup_cons]
      refine ⟨?_, nodup_insertKV k v t h.2⟩
      intro hm
      rcases (keys_insertKV k v t k1).mp hm with h' | h'
      · exact h1 h'
      · exact h.1 h'

theorem foldl_insertKV_nodup : ∀ (rows m : List (κ × α)), (m.map Prod.fst).Nodup →
    ((rows.foldl (fun m r => insertKV r.1 r.2 m) m).map Prod.fst).Nodup
  | [], _, h => h
  | r :: rows, m, h => foldl_insertKV_nodup rows _ (nodup_insertKV r.1 r.2 m h)

/-- the value a sequence of inserts leaves for a key is the LAST one inserted for it -/
theorem foldl_insertKV_lookup (k : κ) : ∀ (rows m : List (κ × α)),
    (rows.foldl (fun m r => insertKV r.1 r.2 m) m).lookup k =
      (rows.reverse.lookup k).or (m.lookup k)
  | [], m => by simp
  | (k1, v1) :: rows, m => by
    rw [List.foldl_cons, foldl_insertKV_lookup k rows, lookup_insertKV, List.reverse_cons,
      List.lookup_append]
    by_cases h : k = k1
    · subst h; cases (rows.reverse.lookup k) <;> simp [List.lookup]
    · have hb : (k == k1) = false := by simpa using h
      cases (rows.reverse.lookup k) <;> simp [List.lookup, h, hb]

/-- with pairwise distinct keys, `lookup` finds exactly the entries -/
theorem lookup_eq_some_iff_mem : ∀ (m : List (κ × α)), (m.map Prod.fst).Nodup →
    ∀ k v, m.lookup k = some v ↔ (k, v) ∈ m
  | [], _, k, v => by simp [List.lookup]
  | (k1, v1) :: t, h, k, v => by
    simp only [List.map_cons, List.nodup_cons, List.mem_map, not_exists, not_and] at h
    have ih := lookup_eq_some_iff_mem t h.2 k v
    by_cases hk : k = k1
    · subst hk
      simp only [List.lookup_cons, beq_self_eq_true, Option.some.injEq, List.mem_cons,
        Prod.mk.injEq, true_and]
      constructor
      · intro h'; exact Or.inl h'.symm
      · rintro (h' | h')
        · exact h'.symm
        · exact absurd rfl (h.1 (k, v) h')
    · have hb : (k == k1) = false := by simpa using hk
      simp [List.lookup_cons, hb, ih, hk]

theorem nodup_of_nodup_keys {β γ : Type} (l : List (β × γ)) (h : (l.map Prod.fst).Nodup) : l.Nodup := by
  induction l with
  | nil => exact List.nodup_nil
  | cons x t ih =>
    simp only [List.map_cons, List.nodup_cons, List.mem_map, not_exists, not_and] at h ⊢
    exact ⟨fun hx => h.1 x hx rfl, ih h.2⟩

/-- a duplicate-free list included in a list of the same length is a rearrangement of it -/
theorem perm_of_subset_of_length_eq : ∀ (e a : List α), e.Nodup → (∀ x ∈ e, x ∈ a) →
    a.length = e.length → a.Perm e
  | [], a, _, _, hl => by
    have : a = [] := List.length_eq_zero_iff.mp hl
    subst this; exact List.Perm.refl _
  | x :: e, a, hnd, hsub, hl => by
    have hx : x ∈ a := hsub x List.mem_cons_self
    have hnd' := List.nodup_cons.mp hnd
    have hsub' : ∀ y ∈ e, y ∈ a.erase x := by
      intro y hy
      have hne : y ≠ x := fun h => hnd'.1 (h ▸ hy)
      exact (List.mem_erase_of_ne hne).mpr (hsub y (List.mem_cons_of_mem _ hy))
    have hl' : (a.erase x).length = e.length := by
      rw [List.length_erase_of_mem hx]; simp only [List.length_cons] at hl; omega
    exact (List.perm_cons_erase hx).trans ((perm_of_subset_of_length_eq e _ hnd'.2 hsub' hl').cons x)

/-! ## file readers (`parseAll`, `readJsonl`) -/

section files
variable {L : Type}

/-- helper: `parseAll` succeeds with `xs` iff every line parses and the parsed records, in file order, are `xs` -/
theorem parseAll_eq_some_iff (parse : L → Option α) : ∀ (ls : List L) (xs : List α),
    parseAll parse ls = some xs ↔ ls.map parse = xs.map some
  | [], xs => by cases xs <;> simp [parseAll]
  | l :: ls, xs => by
    cases hp : parse l with
    | none => cases xs <;> simp [parseAll, hp]
    | some r =>
      cases xs with
      | nil => cases h : parseAll parse ls <;> simp [parseAll, hp, h]
      | cons x xs =>
        have ih := parseAll_eq_some_iff parse ls xs
        cases h : parseAll parse ls with
        | none =>
          simp only [parseAll, hp, h, Option.map_none, List.map_cons, List.cons.injEq, Option.some.injEq, reduceCtorEq, false_iff, not_and]
          intro _ hm
          rw [h] at ih
          exact absurd (ih.mpr hm) (by simp)
        | some ys =>
          rw [h] at ih
          simp only [parseAll, hp, h, Option.map_some, Option.some.injEq, List.cons.injEq, List.map_cons]
          constructor
          · rintro ⟨rfl, rfl⟩; exact ⟨rfl, ih.mp rfl⟩
          · rintro ⟨rfl, hm⟩; exact ⟨rfl, Option.some.inj (ih.mpr hm)⟩

theorem readJsonl_eq_parseAll_filter (isBlank : L → Bool) (parse : L → Option α) : ∀ (lines : List L),
    readJsonl isBlank parse lines = parseAll parse (lines.filter (fun l => !isBlank l))
  | [] => rfl
  | l :: ls => by
    have ih := readJsonl_eq_parseAll_filter isBlank parse ls
    cases hb : isBlank l <;> simp [readJsonl, parseAll, hb, ih]

theorem parseAll_map_ser (parse : L → Option α) (ser : α → L) (h : ∀ x, parse (ser x) = some x)
    (xs : List α) : parseAll parse (xs.map ser) = some xs := by
  rw [parseAll_eq_some_iff]; simp [List.map_map, Function.comp_def, h]

end files

end IB.Assertions
