import IbModel.Model.PlannerExplain
import IbModel.Proofs.PlannerSem
/-!
# Lemmas about the tracked passes, `explain` and the partition choice (used by Props/C03)
-/
namespace IB
variable {P : Type}

/-! ## fusion: the decision is reported iff the chain changed -/

@[simp] theorem countStateless_nil : countStateless ([] : List (Node P)) = 0 := rfl
theorem countStateless_cons (n : Node P) (c : List (Node P)) :
    countStateless (n :: c) = (if n.isStateless then 1 else 0) + countStateless c := by
  unfold countStateless
  by_cases h : n.isStateless = true <;> simp [h] <;> omega

/-- every fusion removes one node and one `Stateless` block -/
theorem fuse_length_add (c : List (Node P)) :
    (fuse c).length + countStateless c = c.length + countStateless (fuse c) := by
  induction c with
  | nil => rfl
  | cons n rest ih =>
    cases n with
    | stateless a =>
      simp only [fuse]
      split
      · next b r h =>
        rw [h] at ih
        simp only [countStateless_cons, Node.isStateless, List.length_cons, if_true] at ih ⊢
        omega
      · next h =>
        simp only [countStateless_cons, Node.isStateless, List.length_cons, if_true]
        omega
    | source w l s => simp only [fuse, countStateless_cons, Node.isStateless, List.length_cons]; omega
    | gbk l m => simp only [fuse, countStateless_cons, Node.isStateless, List.length_cons]; omega
    | combineValues lp lg m => simp only [fuse, countStateless_cons, Node.isStateless, List.length_cons]; omega
    | combineGlobal l m f fo => simp only [fuse, countStateless_cons, Node.isStateless, List.length_cons]; omega
    | coGroup l r cl cr e => simp only [fuse, countStateless_cons, Node.isStateless, List.length_cons]; omega
    | materialized p => simp only [fuse, countStateless_cons, Node.isStateless, List.length_cons]; omega

theorem fuse_length_le (c : List (Node P)) : (fuse c).length ≤ c.length := by
  induction c with
  | nil => exact Nat.le_refl _
  | cons n rest ih =>
    cases n with
    | stateless a =>
      simp only [fuse]
      split
      · next b r h => rw [h] at ih; simp only [List.length_cons] at ih ⊢; omega
      · next h => simp only [List.length_cons]; omega
    | source w l s => simp only [fuse, List.length_cons]; omega
    | gbk l m => simp only [fuse, List.length_cons]; omega
    | combineValues lp lg m => simp only [fuse, List.length_cons]; omega
    | combineGlobal l m f fo => simp only [fuse, List.length_cons]; omega
    | coGroup l r cl cr e => simp only [fuse, List.length_cons]; omega
    | materialized p => simp only [fuse, List.length_cons]; omega

theorem fuse_eq_self_of_length (c : List (Node P)) (h : (fuse c).length = c.length) : fuse c = c := by
  induction c with
  | nil => rfl
  | cons n rest ih =>
    cases n with
    | stateless a =>
      simp only [fuse] at h ⊢
      split at h
      · next b r hb =>
        have := fuse_length_le rest
        rw [hb] at this
        simp only [List.length_cons] at h this
        omega
      · next hb =>
        simp only [List.length_cons, Nat.add_right_cancel_iff] at h
        rw [ih h]
    | source w l s => simp only [fuse, List.length_cons, Nat.add_right_cancel_iff] at h ⊢; rw [ih h]
    | gbk l m => simp only [fuse, List.length_cons, Nat.add_right_cancel_iff] at h ⊢; rw [ih h]
    | combineValues lp lg m => simp only [fuse, List.length_cons, Nat.add_right_cancel_iff] at h ⊢; rw [ih h]
    | combineGlobal l m f fo => simp only [fuse, List.length_cons, Nat.add_right_cancel_iff] at h ⊢; rw [ih h]
    | coGroup l r cl cr e => simp only [fuse, List.length_cons, Nat.add_right_cancel_iff] at h ⊢; rw [ih h]
    | materialized p => simp only [fuse, List.length_cons, Nat.add_right_cancel_iff] at h ⊢; rw [ih h]

theorem fuseTracked_fst (c : List (Node P)) : (fuseTracked c).1 = fuse c := by
  unfold fuseTracked
  cases c with
  | nil => rfl
  | cons n rest => simp

theorem fuseTracked_snd (c : List (Node P)) :
    (fuseTracked c).2 =
      if countStateless c > countStateless (fuse c)
      then some (.fusedStateless (countStateless c) (countStateless (fuse c)) (statelessOpCount c)) else none := by
  unfold fuseTracked
  cases c with
  | nil => simp [fuse]
  | cons n rest => simp

/-! ## lift -/

theorem liftGbk_length_le (c : List (Node P)) : (liftGbk c).length ≤ c.length := by
  fun_induction liftGbk c with
  | case1 l m lp lg mm rest ih => simp only [List.length_cons]; omega
  | case2 n rest h ih => simp only [List.length_cons]; omega
  | case3 => exact Nat.le_refl _

theorem liftFires_iff_shorter (c : List (Node P)) : liftFires c = true ↔ (liftGbk c).length < c.length := by
  fun_induction liftGbk c with
  | case1 l m lp lg mm rest ih =>
    have := liftGbk_length_le rest
    simp only [liftFires, List.length_cons, true_iff]
    omega
  | case2 n rest h ih =>
    have hf : liftFires (n :: rest) = liftFires rest := by
      rw [liftFires.eq_def]
      split
      · next l m lp lg mm r heq =>
        simp only [List.cons.injEq] at heq
        obtain ⟨rfl, rfl⟩ := heq
        exact (h l m lp lg mm r rfl rfl).elim
      · next n' r' _ heq =>
        simp only [List.cons.injEq] at heq
        obtain ⟨_, rfl⟩ := heq
        rfl
      · next heq => simp at heq
    rw [hf, ih]
    simp only [List.length_cons]
    omega
  | case3 => simp [liftFires]

theorem liftGbk_eq_self_of_not_fires (c : List (Node P)) (h : liftFires c = false) : liftGbk c = c := by
  fun_induction liftGbk c with
  | case1 l m lp lg mm rest ih => simp [liftFires] at h
  | case2 n rest hn ih =>
    have hf : liftFires (n :: rest) = liftFires rest := by
      rw [liftFires.eq_def]
      split
      · next l m lp lg mm r heq =>
        simp only [List.cons.injEq] at heq
        obtain ⟨rfl, rfl⟩ := heq
        exact (hn l m lp lg mm r rfl rfl).elim
      · next n' r' _ heq =>
        simp only [List.cons.injEq] at heq
        obtain ⟨_, rfl⟩ := heq
        rfl
      · next heq => simp at heq
    rw [ih (hf ▸ h)]
  | case3 => rfl

/-! ## drop_mid -/

theorem dropMid_length_add (c : List (Node P)) : (dropMid c).length + midMatCount c = c.length := by
  fun_induction dropMid c with
  | case1 => rfl
  | case2 n => rfl
  | case3 p n rest ih => simp only [midMatCount, List.length_cons] at ih ⊢; omega
  | case4 m n rest hm ih =>
    have : midMatCount (m :: n :: rest) = midMatCount (n :: rest) := by
      cases m with
      | materialized p => exact absurd rfl (hm p)
      | _ => rfl
    rw [this]
    simp only [List.length_cons] at ih ⊢
    omega

theorem dropMid_eq_self_of_length (c : List (Node P)) (h : (dropMid c).length = c.length) : dropMid c = c := by
  fun_induction dropMid c with
  | case1 => rfl
  | case2 n => rfl
  | case3 p n rest ih =>
    have := dropMid_length_add (n :: rest)
    simp only [List.length_cons] at h this
    omega
  | case4 m n rest hm ih =>
    simp only [List.length_cons, Nat.add_right_cancel_iff] at h
    rw [ih (by simpa using h)]

/-! ## `explain`: the loop against its declarative reading -/

/-- the step `explain` pushes for node `n` at 0-based position `idx` -/
def stepOf (idx : Nat) (n : Node P) : ExplainStep :=
  { step := idx + 1, nodeType := n.typeName, description := n.description, isBarrier := n.isBarrier,
    costHint := n.stepCost }

def stepsFrom : Nat → List (Node P) → List ExplainStep
  | _, [] => []
  | i, n :: rest => stepOf i n :: stepsFrom (i + 1) rest

/-- what a node adds to `total_ops`: its ops for a block, 0 for a source, 1 otherwise -/
def Node.opWeight : Node P → Nat
  | .source .. => 0
  | .stateless ops => ops.length
  | _ => 1

def totalOpCount : List (Node P) → Nat
  | [] => 0
  | n :: rest => n.opWeight + totalOpCount rest

def barrierCount (c : List (Node P)) : Nat := (c.filter Node.isBarrier).length

/-- the size of the LAST `Source` node met (the loop overwrites), `init` if there is none -/
def lastSourceLen (init : Option Nat) : List (Node P) → Option Nat
  | [] => init
  | .source _ len _ :: rest => lastSourceLen (some len) rest
  | _ :: rest => lastSourceLen init rest

theorem explainLoop_steps (acc : ExplainAcc) (idx : Nat) (c : List (Node P)) :
    (explainLoop acc idx c).steps = acc.steps ++ stepsFrom idx c := by
  induction c generalizing acc idx with
  | nil => simp [explainLoop, stepsFrom]
  | cons n rest ih =>
    rw [explainLoop, ih]
    cases n <;> simp [explainIter, stepsFrom, stepOf]

theorem explainLoop_barriers (acc : ExplainAcc) (idx : Nat) (c : List (Node P)) :
    (explainLoop acc idx c).barriers = acc.barriers + barrierCount c := by
  induction c generalizing acc idx with
  | nil => simp [explainLoop, barrierCount]
  | cons n rest ih =>
    rw [explainLoop, ih]
    cases n <;> simp [explainIter, barrierCount, Node.isBarrier, List.filter_cons] <;> omega

theorem explainLoop_totalOps (acc : ExplainAcc) (idx : Nat) (c : List (Node P)) :
    (explainLoop acc idx c).totalOps = acc.totalOps + totalOpCount c := by
  induction c generalizing acc idx with
  | nil => simp [explainLoop, totalOpCount]
  | cons n rest ih =>
    rw [explainLoop, ih]
    cases n <;> simp [explainIter, totalOpCount, Node.opWeight] <;> omega

theorem explainLoop_statelessOps (acc : ExplainAcc) (idx : Nat) (c : List (Node P)) :
    (explainLoop acc idx c).statelessOps = acc.statelessOps + statelessOpCount c := by
  induction c generalizing acc idx with
  | nil => simp [explainLoop, statelessOpCount]
  | cons n rest ih =>
    rw [explainLoop, ih]
    cases n <;> simp [explainIter, statelessOpCount] <;> omega

theorem explainLoop_sourceSize (acc : ExplainAcc) (idx : Nat) (c : List (Node P)) :
    (explainLoop acc idx c).sourceSize = lastSourceLen acc.sourceSize c := by
  induction c generalizing acc idx with
  | nil => simp [explainLoop, lastSourceLen]
  | cons n rest ih =>
    rw [explainLoop, ih]
    cases n <;> simp [explainIter, lastSourceLen]

theorem stepsFrom_length (i : Nat) (c : List (Node P)) : (stepsFrom i c).length = c.length := by
  induction c generalizing i with
  | nil => rfl
  | cons n rest ih => simp [stepsFrom, ih]

theorem stepsFrom_map_type (i : Nat) (c : List (Node P)) :
    (stepsFrom i c).map (·.nodeType) = c.map Node.typeName := by
  induction c generalizing i with
  | nil => rfl
  | cons n rest ih => simp [stepsFrom, stepOf, ih]

theorem stepsFrom_map_barrier (i : Nat) (c : List (Node P)) :
    (stepsFrom i c).map (·.isBarrier) = c.map Node.isBarrier := by
  induction c generalizing i with
  | nil => rfl
  | cons n rest ih => simp [stepsFrom, stepOf, ih]

theorem stepsFrom_map_cost (i : Nat) (c : List (Node P)) :
    (stepsFrom i c).map (·.costHint) = c.map Node.stepCost := by
  induction c generalizing i with
  | nil => rfl
  | cons n rest ih => simp [stepsFrom, stepOf, ih]

theorem stepsFrom_map_description (i : Nat) (c : List (Node P)) :
    (stepsFrom i c).map (·.description) = c.map Node.description := by
  induction c generalizing i with
  | nil => rfl
  | cons n rest ih => simp [stepsFrom, stepOf, ih]

theorem stepsFrom_map_step (i : Nat) (c : List (Node P)) :
    (stepsFrom i c).map (·.step) = List.range' (i + 1) c.length := by
  induction c generalizing i with
  | nil => rfl
  | cons n rest ih => simp [stepsFrom, stepOf, ih, List.range'_succ]

end IB
