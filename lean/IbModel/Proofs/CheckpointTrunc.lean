import IbModel.Proofs.CheckpointCodec
/-! Helper lemmas for C12: the decoder is *extension-stable* — appending bytes to an input never changes a
success (only the left-over grows) nor an error other than "unexpected end". Consequences: every strict prefix of
a file that decodes completely fails with "unexpected end"; trailing bytes never matter. -/
namespace IB.Checkpoint

/-- a field reader (input left, bytes claimed) ↦ value and new reader state -/
def Ext {α : Type} (d : Bytes × Nat → Except DecErr (α × (Bytes × Nat))) : Prop :=
  ∀ (p : Bytes) (c : Nat) (q : Bytes),
    (∀ a r c', d (p, c) = .ok (a, (r, c')) → d (p ++ q, c) = .ok (a, (r ++ q, c'))) ∧
    (∀ e, d (p, c) = .error e → e ≠ .eof → d (p ++ q, c) = .error e)

/-- the rest of a record decoder: reader state ↦ value and left-over input -/
def ExtK {β : Type} (k : Bytes × Nat → Except DecErr (β × Bytes)) : Prop :=
  ∀ (p : Bytes) (c : Nat) (q : Bytes),
    (∀ b r, k (p, c) = .ok (b, r) → k (p ++ q, c) = .ok (b, r ++ q)) ∧
    (∀ e, k (p, c) = .error e → e ≠ .eof → k (p ++ q, c) = .error e)

theorem ExtK.bind {α β : Type} {d : Bytes × Nat → Except DecErr (α × (Bytes × Nat))}
    {k : α × (Bytes × Nat) → Except DecErr (β × Bytes)} (hd : Ext d)
    (hk : ∀ a, ExtK (fun st => k (a, st))) : ExtK (fun st => andThen (d st) k) := by
  intro p c q
  obtain ⟨hd1, hd2⟩ := hd p c q
  cases h : d (p, c) with
  | error e =>
    refine ⟨fun b r hb => (by simp [h] at hb), fun e' he' hne => ?_⟩
    simp only [h, andThen_error] at he'
    injection he' with he'; subst he'
    simp only [hd2 e h hne, andThen_error]
  | ok x =>
    obtain ⟨a, r, c'⟩ := x
    simp only [h, hd1 a r c' h, andThen_ok]
    exact hk a r c' q

theorem ExtK.last {α β : Type} {d : Bytes × Nat → Except DecErr (α × (Bytes × Nat))} (hd : Ext d) (f : α → β) :
    ExtK (fun st => andThen (d st) fun x => .ok (f x.1, x.2.1)) := by
  intro p c q
  obtain ⟨hd1, hd2⟩ := hd p c q
  cases h : d (p, c) with
  | error e =>
    refine ⟨fun b r hb => (by simp [h] at hb), fun e' he' hne => ?_⟩
    simp only [h, andThen_error] at he'
    injection he' with he'; subst he'
    simp only [hd2 e h hne, andThen_error]
  | ok x =>
    obtain ⟨a, r, c'⟩ := x
    simp only [h, hd1 a r c' h, andThen_ok]
    refine ⟨fun b r' hb => ?_, fun e he => by cases he⟩
    injection hb with hb
    injection hb with h1 h2
    subst h1; subst h2; rfl

theorem takeN_ext (n : Nat) (p q : Bytes) :
    (∀ a r, takeN n p = .ok (a, r) → takeN n (p ++ q) = .ok (a, r ++ q)) ∧
    (∀ e, takeN n p = .error e → e = .eof) := by
  unfold takeN
  constructor
  · intro a r h
    split at h
    · rename_i hle
      injection h with h
      injection h with h1 h2
      subst h1; subst h2
      rw [if_pos (by rw [List.length_append]; omega), List.take_append_of_le_length hle,
        List.drop_append_of_le_length hle]
    · cases h
  · intro e h
    split at h
    · cases h
    · injection h with h; exact h.symm

theorem andThen_takeN_ext {β : Type} (n : Nat) (p q : Bytes) (f : Bytes → β) :
    (∀ b r, (andThen (takeN n p) fun x => .ok (f x.1, x.2)) = .ok (b, r) →
      (andThen (takeN n (p ++ q)) fun x => .ok (f x.1, x.2)) = .ok (b, r ++ q)) ∧
    (∀ e, (andThen (takeN n p) fun x => (.ok (f x.1, x.2) : Except DecErr (β × Bytes))) = .error e → e = .eof) := by
  obtain ⟨h1, h2⟩ := takeN_ext n p q
  cases h : takeN n p with
  | error e =>
    refine ⟨fun b r hb => (by simp at hb), fun e' he' => ?_⟩
    simp only [andThen_error] at he'
    injection he' with he'; subst he'; exact h2 e h
  | ok x =>
    obtain ⟨a, r⟩ := x
    simp only [h1 a r h, andThen_ok]
    refine ⟨fun b r' hb => ?_, fun e he => by cases he⟩
    injection hb with hb
    injection hb with e1 e2
    subst e1; subst e2; rfl

theorem readVarint_ext (p q : Bytes) :
    (∀ v r, readVarint p = .ok (v, r) → readVarint (p ++ q) = .ok (v, r ++ q)) ∧
    (∀ e, readVarint p = .error e → e ≠ .eof → readVarint (p ++ q) = .error e) := by
  cases p with
  | nil =>
    refine ⟨fun v r h => (by simp [readVarint] at h), fun e h hne => ?_⟩
    simp only [readVarint] at h
    injection h with h; exact absurd h.symm hne
  | cons b rest =>
    simp only [readVarint, List.cons_append]
    split
    · refine ⟨fun v r h => ?_, fun e h => by cases h⟩
      injection h with h; injection h with h1 h2; subst h1; subst h2; rfl
    · split
      · obtain ⟨h1, h2⟩ := andThen_takeN_ext 2 rest q leVal
        exact ⟨h1, fun e he hne => absurd (h2 e he) hne⟩
      · split
        · obtain ⟨h1, h2⟩ := andThen_takeN_ext 4 rest q leVal
          exact ⟨h1, fun e he hne => absurd (h2 e he) hne⟩
        · split
          · obtain ⟨h1, h2⟩ := andThen_takeN_ext 8 rest q leVal
            exact ⟨h1, fun e he hne => absurd (h2 e he) hne⟩
          · exact ⟨fun v r h => (by cases h), fun e h _ => h⟩

theorem ext_decU64 (cfg : Cfg) : Ext (decU64 cfg) := by
  intro p c q
  obtain ⟨h1, h2⟩ := readVarint_ext p q
  unfold decU64
  simp only
  cases hc : claim cfg c 8 with
  | error e =>
    exact ⟨fun a r c' h => (by simp at h), fun e' h _ => by simpa using h⟩
  | ok c1 =>
    simp only [andThen_ok]
    cases hr : readVarint p with
    | error e =>
      refine ⟨fun a r c' h => (by simp at h), fun e' h hne => ?_⟩
      simp only [andThen_error] at h
      injection h with h; subst h
      simp only [h2 e hr hne, andThen_error]
    | ok x =>
      obtain ⟨v, r⟩ := x
      simp only [h1 v r hr, andThen_ok]
      refine ⟨fun a r' c' h => ?_, fun e h => by cases h⟩
      injection h with h
      injection h with e1 e2
      injection e2 with e2 e3
      subst e1; subst e2; subst e3; rfl

theorem ext_decU8 (cfg : Cfg) : Ext (decU8 cfg) := by
  intro p c q
  unfold decU8
  simp only
  cases hc : claim cfg c 1 with
  | error e =>
    exact ⟨fun a r c' h => (by simp at h), fun e' h _ => by simpa using h⟩
  | ok c1 =>
    simp only [andThen_ok]
    cases p with
    | nil =>
      refine ⟨fun a r c' h => (by cases h), fun e h hne => ?_⟩
      injection h with h; exact absurd h.symm hne
    | cons b rest =>
      simp only [List.cons_append]
      refine ⟨fun a r c' h => ?_, fun e h => by cases h⟩
      injection h with h
      injection h with e1 e2
      injection e2 with e2 e3
      subst e1; subst e2; subst e3; rfl

theorem ext_decString (cfg : Cfg) : Ext (decString cfg) := by
  intro p c q
  obtain ⟨h1, h2⟩ := ext_decU64 cfg p c q
  unfold decString
  cases hl : decU64 cfg (p, c) with
  | error e =>
    refine ⟨fun a r c' h => (by simp at h), fun e' h hne => ?_⟩
    simp only [andThen_error] at h
    injection h with h; subst h
    simp only [h2 e hl hne, andThen_error]
  | ok x =>
    obtain ⟨len, r, c1⟩ := x
    simp only [h1 len r c1 hl, andThen_ok]
    cases hc : claim cfg c1 len with
    | error e => exact ⟨fun a r c' h => (by simp at h), fun e' h _ => by simpa using h⟩
    | ok c2 =>
      simp only [andThen_ok]
      cases ha : alloc cfg len with
      | error e => exact ⟨fun a r c' h => (by simp at h), fun e' h _ => by simpa using h⟩
      | ok u =>
        simp only [andThen_ok]
        obtain ⟨t1, t2⟩ := takeN_ext len r q
        cases ht : takeN len r with
        | error e =>
          refine ⟨fun a r c' h => (by simp at h), fun e' h hne => ?_⟩
          simp only [andThen_error] at h
          injection h with h; subst h
          exact absurd (t2 e ht) hne
        | ok y =>
          obtain ⟨body, r2⟩ := y
          simp only [t1 body r2 ht, andThen_ok]
          split
          · refine ⟨fun a r' c' h => ?_, fun e h => by cases h⟩
            injection h with h
            injection h with e1 e2
            injection e2 with e2 e3
            subst e1; subst e2; subst e3; rfl
          · exact ⟨fun a r' c' h => (by cases h), fun e h _ => h⟩

/-- the record decoder is extension-stable -/
theorem decodeState_ext (cfg : Cfg) (p q : Bytes) :
    (∀ s r, decodeState cfg p = .ok (s, r) → decodeState cfg (p ++ q) = .ok (s, r ++ q)) ∧
    (∀ e, decodeState cfg p = .error e → e ≠ .eof → decodeState cfg (p ++ q) = .error e) := by
  have S := ext_decString cfg
  have U := ext_decU64 cfg
  unfold decodeState
  refine (?_ : ExtK (fun st => andThen (decString cfg st) _)) p 0 q
  refine ExtK.bind S fun pid => ?_
  dsimp only
  refine ExtK.bind U fun idx => ?_
  dsimp only
  refine ExtK.bind U fun ts => ?_
  dsimp only
  refine ExtK.bind U fun pc => ?_
  dsimp only
  refine ExtK.bind S fun ck => ?_
  dsimp only
  refine ExtK.bind S fun em => ?_
  dsimp only
  refine ExtK.bind U fun tn => ?_
  dsimp only
  refine ExtK.bind S fun lnt => ?_
  dsimp only
  exact ExtK.last (ext_decU8 cfg) (fun b =>
    ({ pipelineId := pid, completedNodeIndex := idx, timestamp := ts, partitionCount := pc, checksum := ck,
       execMode := em, metadata := { totalNodes := tn, lastNodeType := lnt, progressPercent := b } } : State))

/-- **every strict prefix of an input that decodes completely is "unexpected end"** -/
theorem decodeState_strict_prefix {cfg : Cfg} {bytes : Bytes} {s : State}
    (h : decodeState cfg bytes = .ok (s, [])) (n : Nat) (hn : n < bytes.length) :
    decodeState cfg (bytes.take n) = .error .eof := by
  have hsplit : bytes = bytes.take n ++ bytes.drop n := (List.take_append_drop n bytes).symm
  have hq : bytes.drop n ≠ [] := by
    intro e
    have := congrArg List.length e
    simp at this; omega
  obtain ⟨h1, h2⟩ := decodeState_ext cfg (bytes.take n) (bytes.drop n)
  rw [← hsplit] at h1 h2
  cases hd : decodeState cfg (bytes.take n) with
  | ok x =>
    obtain ⟨s', r⟩ := x
    have := h1 s' r hd
    rw [h] at this
    injection this with this
    injection this with _ e2
    have : bytes.drop n = [] := (List.append_eq_nil_iff.mp e2.symm).2
    exact absurd this hq
  | error e =>
    by_cases he : e = .eof
    · rw [he]
    · have := h2 e hd he
      rw [h] at this; cases this

end IB.Checkpoint

namespace IB.Checkpoint

/-! ## what an accepted input has claimed against the limit -/

theorem andThen_eq_ok {α β : Type} {x : Except DecErr α} {f : α → Except DecErr β} {y : β}
    (h : andThen x f = .ok y) : ∃ a, x = .ok a ∧ f a = .ok y := by
  cases x with
  | error e => cases h
  | ok a => exact ⟨a, rfl, h⟩

theorem takeN_ok_length {n : Nat} {inp : Bytes} {x : Bytes × Bytes} (h : takeN n inp = .ok x) : x.1.length = n := by
  unfold takeN at h
  split at h
  · rename_i hle
    injection h with h; subst h
    simp only [List.length_take]; omega
  · cases h

theorem decU64_ok_counter {cfg : Cfg} {st : Bytes × Nat} {x : Nat × (Bytes × Nat)} (h : decU64 cfg st = .ok x) :
    x.2.2 = st.2 + 8 ∧ overLimit cfg x.2.2 = false := by
  unfold decU64 at h
  obtain ⟨c, hc, h⟩ := andThen_eq_ok h
  obtain ⟨p, _, h⟩ := andThen_eq_ok h
  injection h with h; subst h
  obtain ⟨h1, h2⟩ := claim_ok_inv hc
  exact ⟨h2, by rw [h2]; exact h1⟩

theorem decU8_ok_counter {cfg : Cfg} {st : Bytes × Nat} {x : UInt8 × (Bytes × Nat)} (h : decU8 cfg st = .ok x) :
    x.2.2 = st.2 + 1 ∧ overLimit cfg x.2.2 = false := by
  unfold decU8 at h
  obtain ⟨c, hc, h⟩ := andThen_eq_ok h
  obtain ⟨h1, h2⟩ := claim_ok_inv hc
  split at h
  · cases h
  · injection h with h; subst h
    exact ⟨h2, by simp only; rw [h2]; exact h1⟩

theorem decString_ok_counter {cfg : Cfg} {st : Bytes × Nat} {x : Bytes × (Bytes × Nat)}
    (h : decString cfg st = .ok x) :
    x.2.2 = st.2 + 8 + x.1.length ∧ overLimit cfg x.2.2 = false := by
  unfold decString at h
  obtain ⟨lp, hlp, h⟩ := andThen_eq_ok h
  obtain ⟨c, hc, h⟩ := andThen_eq_ok h
  obtain ⟨_, _, h⟩ := andThen_eq_ok h
  obtain ⟨p, hp, h⟩ := andThen_eq_ok h
  obtain ⟨l1, _⟩ := decU64_ok_counter hlp
  obtain ⟨h1, h2⟩ := claim_ok_inv hc
  have hlen := takeN_ok_length hp
  split at h
  · injection h with h; subst h
    simp only
    exact ⟨by rw [h2, l1, hlen], by rw [h2]; exact h1⟩
  · cases h

/-- **the total an accepted record has claimed** — 8 per integer and length prefix, 1 for the `u8`, and EVERY byte of
    all four string buffers together — passed the limit check -/
theorem decodeState_ok_claims {cfg : Cfg} {bytes rest : Bytes} {s : State}
    (h : decodeState cfg bytes = .ok (s, rest)) : overLimit cfg (claims s) = false := by
  unfold decodeState at h
  obtain ⟨pid, h1, h⟩ := andThen_eq_ok h
  obtain ⟨idx, h2, h⟩ := andThen_eq_ok h
  obtain ⟨ts, h3, h⟩ := andThen_eq_ok h
  obtain ⟨pc, h4, h⟩ := andThen_eq_ok h
  obtain ⟨ck, h5, h⟩ := andThen_eq_ok h
  obtain ⟨em, h6, h⟩ := andThen_eq_ok h
  obtain ⟨tn, h7, h⟩ := andThen_eq_ok h
  obtain ⟨lnt, h8, h⟩ := andThen_eq_ok h
  obtain ⟨pp, h9, h⟩ := andThen_eq_ok h
  injection h with h
  injection h with hs _
  obtain ⟨c1, _⟩ := decString_ok_counter h1
  obtain ⟨c2, _⟩ := decU64_ok_counter h2
  obtain ⟨c3, _⟩ := decU64_ok_counter h3
  obtain ⟨c4, _⟩ := decU64_ok_counter h4
  obtain ⟨c5, _⟩ := decString_ok_counter h5
  obtain ⟨c6, _⟩ := decString_ok_counter h6
  obtain ⟨c7, _⟩ := decU64_ok_counter h7
  obtain ⟨c8, _⟩ := decString_ok_counter h8
  obtain ⟨c9, l9⟩ := decU8_ok_counter h9
  have : claims s = pp.2.2 := by
    subst hs
    simp only [claims]
    simp only at c1
    omega
  rw [this]; exact l9

end IB.Checkpoint
