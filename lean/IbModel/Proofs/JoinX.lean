import IbModel.Model.ProgramJoinX
import IbModel.Proofs.ProgramBuilt
/-!
# Joins whose right side is not a fresh collection: the lineage equals that of the program with fresh right sides

Helper lemmas for `Props/C07.lean` §7 (`Model/ProgramJoinX.lean`).
-/
namespace IB

theorem applyXSteps_nil (acc : List (Node Part)) : applyXSteps acc [] = acc := rfl
theorem applyXSteps_cons (acc : List (Node Part)) (s : XStep) (rest : List XStep) :
    applyXSteps acc (s :: rest) = applyXSteps (XStep.apply acc s) rest := rfl

theorem litChain_snoc_apply (src : List Val) (done : List Step) (s : Step) :
    litChain src (done ++ [s]) = Step.apply (litChain src done) s := by
  unfold litChain
  rw [applySteps_append, applySteps_cons, applySteps_nil]

theorem litChain_append_apply (src : List Val) (done more : List Step) :
    litChain src (done ++ more) = applySteps (litChain src done) more := by
  unfold litChain
  rw [applySteps_append]

/-- a join with another pipeline's / a sibling-accompanied right side has the lineage of the plain join -/
theorem XStep.apply_joinOther (acc : List (Node Part)) (k : JoinKind) (rsrc : List Val) (rsteps : List Step) :
    XStep.apply acc (.joinOther k rsrc rsteps) = Step.apply acc (.join k rsrc rsteps) := by
  rw [Step.apply_join]; rfl

theorem XStep.apply_joinSibling (acc : List (Node Part)) (k : JoinKind) (rsrc : List Val) (rsteps : List Step)
    (ssrc : List Val) (ssteps : List Step) :
    XStep.apply acc (.joinSibling k rsrc rsteps ssrc ssteps) = Step.apply acc (.join k rsrc rsteps) := by
  rw [Step.apply_join]; rfl

/-- a branched (self / shared-prefix) join over the lineage `litChain src done` has the lineage of: the left
    continuation, then a plain join with a FRESH right side `src ; done ++ rs` -/
theorem XStep.apply_joinShared (src : List Val) (done : List Step) (k : JoinKind) (ls rs : List Step) :
    XStep.apply (litChain src done) (.joinShared k ls rs)
      = litChain src (done ++ ls ++ [.join k src (done ++ rs)]) := by
  rw [litChain_snoc_apply, Step.apply_join, litChain_append_apply src done ls, litChain_append_apply src done rs]
  rfl

theorem applyXSteps_eq_fresh (src : List Val) (xs : List XStep) : ∀ done : List Step,
    applyXSteps (litChain src done) xs = litChain src (done ++ desugarFrom src done xs) := by
  induction xs with
  | nil => intro done; simp [applyXSteps_nil, desugarFrom]
  | cons x rest ih =>
    intro done
    rw [applyXSteps_cons]
    cases x with
    | plain s =>
      have e : XStep.apply (litChain src done) (.plain s) = litChain src (done ++ [s]) := by
        rw [litChain_snoc_apply]; rfl
      rw [e, ih (done ++ [s])]
      simp [desugarFrom]
    | joinOther k rsrc rsteps =>
      rw [XStep.apply_joinOther, ← litChain_snoc_apply, ih (done ++ [Step.join k rsrc rsteps])]
      simp [desugarFrom]
    | joinShared k ls rs =>
      rw [XStep.apply_joinShared, ih (done ++ ls ++ [Step.join k src (done ++ rs)])]
      simp [desugarFrom]
    | joinSibling k rsrc rsteps ssrc ssteps =>
      rw [XStep.apply_joinSibling, ← litChain_snoc_apply, ih (done ++ [Step.join k rsrc rsteps])]
      simp [desugarFrom]

end IB
