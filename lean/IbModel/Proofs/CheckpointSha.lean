import IbModel.Model.Checkpoint
import IbModel.Model.CheckpointSha
import IbModel.Proofs.CheckpointUtf8
/-! Helper lemmas for C12: the shape of `sha256Hex`'s output (64 ASCII hex digits) for EVERY input. -/
namespace IB.Checkpoint.Sha
open IB.Checkpoint

theorem hexNibble_ascii (n : UInt8) (h : n.toNat < 16) : (hexNibble n).toNat ≤ 0x7F := by
  unfold hexNibble
  split
  · rw [UInt8.toNat_add]; simp only [UInt8.reduceToNat]; omega
  · rw [UInt8.toNat_add]; simp only [UInt8.reduceToNat]; omega

theorem shr4_lt (b : UInt8) : (b >>> 4).toNat < 16 := by
  rw [UInt8.toNat_shiftRight]
  have := b.toNat_lt
  simp only [UInt8.reduceToNat, Nat.reduceMod, Nat.shiftRight_eq_div_pow]
  omega

theorem and15_lt (b : UInt8) : (b &&& 0x0f).toNat < 16 := by
  rw [UInt8.toNat_and]
  have : b.toNat &&& (0x0f : UInt8).toNat ≤ (0x0f : UInt8).toNat := Nat.and_le_right
  simp only [UInt8.reduceToNat] at this ⊢
  omega

theorem byteHex_ascii (b : UInt8) : ∀ x ∈ byteHex b, x.toNat ≤ 0x7F := by
  intro x hx
  simp only [byteHex, List.mem_cons, List.not_mem_nil, or_false] at hx
  rcases hx with rfl | rfl
  · exact hexNibble_ascii _ (shr4_lt b)
  · exact hexNibble_ascii _ (and15_lt b)

theorem wordHex_ascii (w : UInt32) : ∀ x ∈ wordHex w, x.toNat ≤ 0x7F := by
  intro x hx
  simp only [wordHex, List.mem_append] at hx
  rcases hx with ((hx | hx) | hx) | hx <;> exact byteHex_ascii _ x hx

theorem wordHex_length (w : UInt32) : (wordHex w).length = 8 := by
  simp [wordHex, byteHex]

/-- the digest is printed as exactly 64 characters … -/
theorem sha256Hex_length (msg : Bytes) : (sha256Hex msg).length = 64 := by
  simp [sha256Hex, wordHex_length]

/-- … all of them ASCII (`0-9a-f`) -/
theorem sha256Hex_ascii (msg : Bytes) : ∀ x ∈ sha256Hex msg, x.toNat ≤ 0x7F := by
  intro x hx
  simp only [sha256Hex, List.mem_append] at hx
  rcases hx with ((((((hx | hx) | hx) | hx) | hx) | hx) | hx) | hx <;> exact wordHex_ascii _ x hx

theorem validUtf8_of_ascii : ∀ (l : Bytes), (∀ x ∈ l, x.toNat ≤ 0x7F) → validUtf8 l = true
  | [], _ => by simp [validUtf8]
  | b :: r, h => by
    rw [validUtf8_one b r (h b (List.mem_cons_self ..))]
    exact validUtf8_of_ascii r (fun x hx => h x (List.mem_cons_of_mem _ hx))

theorem sha256Hex_validUtf8 (msg : Bytes) : validUtf8 (sha256Hex msg) = true :=
  validUtf8_of_ascii _ (sha256Hex_ascii msg)

end IB.Checkpoint.Sha
