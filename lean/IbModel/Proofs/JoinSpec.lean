import IbModel.Proofs.JoinAList
/-!
# The four join closures are permutations of the relational (nested-loop) join

`matched fl fr L R` is the nested-loop equi-join (every pair of a left and a right row with equal keys,
`fl`/`fr` wrap the two values: `id` on a required side, `Val.some` on an optional side);
`unmatchedL` / `unmatchedR` are the rows of a preserved side that have no partner, each exactly once.
-/
namespace IB.Join
open Val

def matched (fl fr : Val → Val) (L R : List Val) : List Val :=
  L.flatMap (fun a => (R.filter (fun b => b.key == a.key)).map
    (fun b => .pair a.key (.pair (fl a.value) (fr b.value))))

def unmatchedL (fl : Val → Val) (L R : List Val) : List Val :=
  (L.filter (fun a => !hasKey R a.key)).map (fun a => .pair a.key (.pair (fl a.value) .none))

def unmatchedR (fr : Val → Val) (L R : List Val) : List Val :=
  (R.filter (fun b => !hasKey L b.key)).map (fun b => .pair b.key (.pair .none (fr b.value)))

/-- the relational specification of the four joins (a list only because `Perm` relates lists;
    all theorems treat it as a multiset) -/
def joinSpec : JoinKind → List Val → List Val → List Val
  | .inner, L, R => matched id id L R
  | .left, L, R => matched id Val.some L R ++ unmatchedL id L R
  | .right, L, R => matched Val.some id L R ++ unmatchedR id L R
  | .full, L, R => matched Val.some Val.some L R ++ unmatchedL Val.some L R ++ unmatchedR Val.some L R

theorem matched_eq_valuesAt (fl fr : Val → Val) (L R : List Val) :
    matched fl fr L R = L.flatMap (fun a => (valuesAt R a.key).map
      (fun w => .pair a.key (.pair (fl a.value) (fr w)))) := by
  simp [matched, valuesAt, List.map_map, Function.comp_def]

/-- the same nested loop with the right side outermost -/
theorem matched_swap (fl fr : Val → Val) (L R : List Val) :
    (matched fl fr L R).Perm (R.flatMap (fun b => (valuesAt L b.key).map
      (fun v => .pair b.key (.pair (fl v) (fr b.value))))) := by
  unfold matched
  refine (flatMap_filter_swap L R (fun a b => b.key == a.key)
    (fun a b => Val.pair a.key (.pair (fl a.value) (fr b.value)))).trans ?_
  apply List.Perm.of_eq
  apply flatMap_congr_mem
  intro b _
  simp only [valuesAt, List.map_map]
  have hf : (L.filter fun a => b.key == a.key) = L.filter (fun a => a.key == b.key) := by
    apply List.filter_congr; intro a _; exact Bool.eq_iff_iff.mpr ⟨fun h => by simpa using (eq_comm.mp (by simpa using h)), fun h => by simpa using (eq_comm.mp (by simpa using h))⟩
  rw [hf]
  apply List.map_congr_left
  intro a ha
  have : a.key = b.key := by simpa using (List.mem_filter.mp ha).2
  simp [this]

theorem flatMap_filter_eq {α β : Type} (l : List α) (p : α → Bool) (G : α → List β) :
    (l.filter p).flatMap G = l.flatMap (fun x => if p x then G x else []) := by
  induction l with
  | nil => rfl
  | cons a l ih =>
    simp only [List.filter_cons, List.flatMap_cons]
    cases h : p a <;> simp [ih]

theorem map_eq_flatMap_single {α β : Type} (l : List α) (f : α → β) :
    l.map f = l.flatMap (fun a => [f a]) := by
  induction l with
  | nil => rfl
  | cons a l ih => simp [ih]

/-! ## the expansion functions after regrouping -/

/-- expansion of one preserved-side row `(k, v)` against the other side `O`:
    all partners, or the single "absent" row when there is none -/
private theorem outer_rows_split {γ : Type} (rows O : List Val) (pairF : Val → Val → Val → γ)
    (absentF : Val → Val → γ) :
    (rows.flatMap (fun r => if hasKey O r.key then (valuesAt O r.key).map (pairF r.key r.value)
        else [absentF r.key r.value])).Perm
      (rows.flatMap (fun r => (valuesAt O r.key).map (pairF r.key r.value)) ++
        (rows.filter (fun r => !hasKey O r.key)).map (fun r => absentF r.key r.value)) := by
  rw [← flatMap_ite_singleton]
  refine List.Perm.trans (List.Perm.of_eq ?_) (flatMap_append_perm rows _ _)
  apply flatMap_congr_mem
  intro r _
  cases h : hasKey O r.key
  · simp [valuesAt, valuesAt_eq_nil_of_not_hasKey O r.key h]
  · simp

theorem joinInner_perm (L R : List Val) : (joinInner L R).Perm (matched id id L R) := by
  rw [matched_eq_valuesAt]
  have h : joinInner L R = (groupRows L).flatMap (fun kv => kv.2.flatMap
      (fun v => (valuesAt R kv.1).map (fun w => Val.pair kv.1 (.pair v w)))) := by
    unfold joinInner
    apply flatMap_congr_mem
    intro kv _
    rw [lookupKV_groupRows]
    cases h : hasKey R kv.1
    · simp [valuesAt, valuesAt_eq_nil_of_not_hasKey R kv.1 h]
    · simp
  rw [h]
  exact groupRows_flatMap_perm (fun k v => (valuesAt R k).map (fun w => Val.pair k (.pair v w))) L

theorem joinLeft_perm (L R : List Val) :
    (joinLeft L R).Perm (matched id Val.some L R ++ unmatchedL id L R) := by
  rw [matched_eq_valuesAt]
  have h : joinLeft L R = (groupRows L).flatMap (fun kv => kv.2.flatMap
      (fun v => if hasKey R kv.1 then (valuesAt R kv.1).map (fun w => Val.pair kv.1 (.pair v (.some w)))
        else [Val.pair kv.1 (.pair v .none)])) := by
    unfold joinLeft
    apply flatMap_congr_mem
    intro kv _
    rw [lookupKV_groupRows]
    cases h : hasKey R kv.1
    · simp [map_eq_flatMap_single]
    · simp
  rw [h]
  refine (groupRows_flatMap_perm (fun k v => if hasKey R k then
      (valuesAt R k).map (fun w => Val.pair k (.pair v (.some w))) else [Val.pair k (.pair v .none)]) L).trans ?_
  exact outer_rows_split L R (fun k v w => Val.pair k (.pair v (.some w))) (fun k v => Val.pair k (.pair v .none))

theorem joinRight_perm (L R : List Val) :
    (joinRight L R).Perm (matched Val.some id L R ++ unmatchedR id L R) := by
  have h : joinRight L R = (groupRows R).flatMap (fun kw => kw.2.flatMap
      (fun w => if hasKey L kw.1 then (valuesAt L kw.1).map (fun v => Val.pair kw.1 (.pair (.some v) w))
        else [Val.pair kw.1 (.pair .none w)])) := by
    unfold joinRight
    apply flatMap_congr_mem
    intro kw _
    rw [lookupKV_groupRows]
    cases h : hasKey L kw.1
    · simp [map_eq_flatMap_single]
    · simp
  rw [h]
  refine (groupRows_flatMap_perm (fun k w => if hasKey L k then
      (valuesAt L k).map (fun v => Val.pair k (.pair (.some v) w)) else [Val.pair k (.pair .none w)]) R).trans ?_
  refine (outer_rows_split R L (fun k w v => Val.pair k (.pair (.some v) w))
    (fun k w => Val.pair k (.pair .none w))).trans ?_
  exact (matched_swap Val.some id L R).symm.append (List.Perm.refl _)

theorem joinFull_perm (L R : List Val) :
    (joinFull L R).Perm
      (matched Val.some Val.some L R ++ unmatchedL Val.some L R ++ unmatchedR Val.some L R) := by
  unfold joinFull
  simp only [List.flatMap_append]
  apply List.Perm.append
  · -- keys of the left map
    rw [matched_eq_valuesAt, List.flatMap_map]
    refine (List.Perm.of_eq (flatMap_congr_mem (groupRows L) (g := fun kv => kv.2.flatMap
          (fun v => if hasKey R kv.1 then (valuesAt R kv.1).map (fun w => Val.pair kv.1 (.pair (.some v) (.some w)))
            else [Val.pair kv.1 (.pair (.some v) .none)])) ?_)).trans ?_
    · intro kv hkv
      rw [lookupKV_groupRows_of_mem L kv hkv, lookupKV_groupRows]
      cases h : hasKey R kv.1
      · simp [map_eq_flatMap_single]
      · simp
    refine (groupRows_flatMap_perm (fun k v => if hasKey R k then
        (valuesAt R k).map (fun w => Val.pair k (.pair (.some v) (.some w)))
        else [Val.pair k (.pair (.some v) .none)]) L).trans ?_
    exact outer_rows_split L R (fun k v w => Val.pair k (.pair (.some v) (.some w)))
      (fun k v => Val.pair k (.pair (.some v) .none))
  · -- the right-only keys
    rw [List.filter_map, List.flatMap_map, flatMap_filter_eq]
    refine (List.Perm.of_eq (flatMap_congr_mem (groupRows R) (g := fun kw => kw.2.flatMap
          (fun w => if !hasKey L kw.1 then [Val.pair kw.1 (.pair .none (.some w))] else [])) ?_)).trans ?_
    · intro kw hkw
      simp only [Function.comp_apply, lookupKV_groupRows_of_mem R kw hkw, lookupKV_groupRows L]
      cases h : hasKey L kw.1
      · simp [map_eq_flatMap_single]
      · simp
    refine (groupRows_flatMap_perm (fun k w => if !hasKey L k then
        [Val.pair k (.pair .none (.some w))] else []) R).trans ?_
    rw [flatMap_ite_singleton R (fun b => !hasKey L b.key)
      (fun b => Val.pair b.key (.pair .none (.some b.value)))]
    exact List.Perm.refl _

/-- C07 core: every join closure returns a permutation of its relational specification -/
theorem joinExec_perm_spec (kind : JoinKind) (L R : List Val) :
    (joinExec kind L R).Perm (joinSpec kind L R) := by
  cases kind
  · exact joinInner_perm L R
  · exact joinLeft_perm L R
  · exact joinRight_perm L R
  · exact joinFull_perm L R

/-! ## the specification does not depend on the order of either input -/

theorem hasKey_perm {R R' : List Val} (h : R.Perm R') (k : Val) : hasKey R k = hasKey R' k :=
  perm_any_eq h _

theorem matched_perm_congr (fl fr : Val → Val) {L L' R R' : List Val} (hL : L.Perm L') (hR : R.Perm R') :
    (matched fl fr L R).Perm (matched fl fr L' R') := by
  unfold matched
  refine (List.Perm.flatMap_right _ hL).trans ?_
  apply perm_flatMap_congr
  intro a _
  exact (hR.filter _).map _

theorem unmatchedL_perm_congr (fl : Val → Val) {L L' R R' : List Val} (hL : L.Perm L') (hR : R.Perm R') :
    (unmatchedL fl L R).Perm (unmatchedL fl L' R') := by
  unfold unmatchedL
  have : (fun a : Val => !hasKey R a.key) = (fun a => !hasKey R' a.key) := by
    funext a; rw [hasKey_perm hR]
  rw [this]
  exact (hL.filter _).map _

theorem unmatchedR_perm_congr (fr : Val → Val) {L L' R R' : List Val} (hL : L.Perm L') (hR : R.Perm R') :
    (unmatchedR fr L R).Perm (unmatchedR fr L' R') := by
  unfold unmatchedR
  have : (fun b : Val => !hasKey L b.key) = (fun b => !hasKey L' b.key) := by
    funext b; rw [hasKey_perm hL]
  rw [this]
  exact (hR.filter _).map _

theorem joinSpec_perm_congr (kind : JoinKind) {L L' R R' : List Val} (hL : L.Perm L') (hR : R.Perm R') :
    (joinSpec kind L R).Perm (joinSpec kind L' R') := by
  cases kind <;> simp only [joinSpec]
  · exact matched_perm_congr _ _ hL hR
  · exact (matched_perm_congr _ _ hL hR).append (unmatchedL_perm_congr _ hL hR)
  · exact (matched_perm_congr _ _ hL hR).append (unmatchedR_perm_congr _ hL hR)
  · exact ((matched_perm_congr _ _ hL hR).append (unmatchedL_perm_congr _ hL hR)).append
      (unmatchedR_perm_congr _ hL hR)

end IB.Join
