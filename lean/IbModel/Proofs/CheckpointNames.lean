import IbModel.Model.Checkpoint
/-! Helper lemmas for C12: decimal rendering/parsing, the checksum string, checkpoint file names. -/
namespace IB.Checkpoint

/-! ## generic list facts -/

theorem append_cons_inj_of_notMem {α : Type} {x : α} :
    ∀ {l1 l2 r1 r2 : List α}, x ∉ l1 → x ∉ l2 → l1 ++ x :: r1 = l2 ++ x :: r2 → l1 = l2 ∧ r1 = r2
  | [], [], _, _, _, _, h => by simpa using h
  | [], b :: l2, _, _, _, h2, h => by
    simp at h; exact absurd h.1 (by intro e; apply h2; simp [e])
  | a :: l1, [], _, _, h1, _, h => by
    simp at h; exact absurd h.1 (by intro e; apply h1; simp [e])
  | a :: l1, b :: l2, r1, r2, h1, h2, h => by
    simp at h
    have ih := append_cons_inj_of_notMem (l1 := l1) (l2 := l2) (r1 := r1) (r2 := r2)
      (by intro m; apply h1; simp [m]) (by intro m; apply h2; simp [m]) h.2
    exact ⟨by rw [h.1, ih.1], ih.2⟩

/-- split at the LAST occurrence of a separator: the part after it is separator-free -/
theorem snoc_sep_inj {α : Type} {x : α} {a a' d d' : List α} (hd : x ∉ d) (hd' : x ∉ d')
    (h : a ++ x :: d = a' ++ x :: d') : a = a' ∧ d = d' := by
  have hr : d.reverse ++ x :: a.reverse = d'.reverse ++ x :: a'.reverse := by
    have := congrArg List.reverse h
    simpa using this
  have := append_cons_inj_of_notMem (by simpa using hd) (by simpa using hd') hr
  exact ⟨List.reverse_inj.mp this.2, List.reverse_inj.mp this.1⟩

theorem stripPrefix_eq_some : ∀ {p s r : Bytes}, stripPrefix p s = some r ↔ s = p ++ r
  | [], s, r => by simp [stripPrefix]
  | _ :: _, [], r => by simp [stripPrefix]
  | p :: ps, c :: cs, r => by
    unfold stripPrefix
    by_cases h : p = c
    · simp [h, stripPrefix_eq_some (p := ps) (s := cs) (r := r)]
    · simp [h]; intro e; exact absurd e.symm h

theorem stripPrefix_append (p r : Bytes) : stripPrefix p (p ++ r) = some r :=
  stripPrefix_eq_some.mpr rfl

theorem stripSuffix_eq_some {suf s r : Bytes} : stripSuffix suf s = some r ↔ s = r ++ suf := by
  unfold stripSuffix
  constructor
  · intro h
    cases hh : stripPrefix suf.reverse s.reverse with
    | none => simp [hh] at h
    | some t =>
      simp [hh] at h
      have := stripPrefix_eq_some.mp hh
      have := congrArg List.reverse this
      simp at this
      rw [this, h]
  · intro h
    subst h
    simp [stripPrefix_append]

theorem stripSuffix_append (r suf : Bytes) : stripSuffix suf (r ++ suf) = some r :=
  stripSuffix_eq_some.mpr rfl

/-! ## decimal digits -/

theorem digit_toNat {d : Nat} (h : d < 10) : (digit d).toNat = 48 + d := by
  unfold digit; simp [UInt8.toNat_ofNat']; omega

theorem isDigit_iff (b : UInt8) : isDigit b = true ↔ 48 ≤ b.toNat ∧ b.toNat ≤ 57 := by
  unfold isDigit
  simp [UInt8.le_iff_toNat_le]

theorem isDigit_digit {d : Nat} (h : d < 10) : isDigit (digit d) = true := by
  rw [isDigit_iff, digit_toNat h]; omega

theorem decDigits_unfold (n : Nat) :
    decDigits n = if n < 10 then [digit n] else decDigits (n / 10) ++ [digit (n % 10)] := by
  rw [decDigits]

theorem decDigits_all_digit (n : Nat) : ∀ b ∈ decDigits n, isDigit b = true := by
  induction n using Nat.strongRecOn with
  | _ n ih =>
    rw [decDigits_unfold]
    split
    · intro b hb; simp at hb; subst hb; exact isDigit_digit (by omega)
    · intro b hb
      simp at hb
      rcases hb with hb | hb
      · exact ih (n / 10) (by omega) b hb
      · subst hb; exact isDigit_digit (Nat.mod_lt _ (by omega))

theorem decDigits_ne_nil (n : Nat) : decDigits n ≠ [] := by
  rw [decDigits_unfold]; split <;> simp

theorem parseDigitsAux_append (acc : Nat) (xs ys : Bytes) :
    parseDigitsAux acc (xs ++ ys) = (parseDigitsAux acc xs).bind (fun v => parseDigitsAux v ys) := by
  induction xs generalizing acc with
  | nil => simp [parseDigitsAux]
  | cons b r ih =>
    simp only [List.cons_append, parseDigitsAux]
    split
    · split
      · exact ih _
      · rfl
    · rfl

theorem parseDigitsAux_decDigits (n : Nat) (h : n ≤ u64Max) : parseDigitsAux 0 (decDigits n) = some n := by
  induction n using Nat.strongRecOn with
  | _ n ih =>
    rw [decDigits_unfold]
    split
    · rename_i hn
      simp [parseDigitsAux, isDigit_digit hn, digit_toNat hn, h]
    · have hq := ih (n / 10) (by omega) (by omega)
      have hd : n % 10 < 10 := Nat.mod_lt _ (by omega)
      rw [parseDigitsAux_append, hq]
      simp only [Option.bind, parseDigitsAux, isDigit_digit hd, digit_toNat hd, if_true]
      have : n / 10 * 10 + (48 + n % 10 - 48) = n := by omega
      rw [this, if_pos h]

/-- unbounded value of a digit string -/
def digitsVal (acc : Nat) : Bytes → Nat
  | [] => acc
  | b :: r => digitsVal (acc * 10 + (b.toNat - 48)) r

theorem digitsVal_append (acc : Nat) (xs ys : Bytes) :
    digitsVal acc (xs ++ ys) = digitsVal (digitsVal acc xs) ys := by
  induction xs generalizing acc with
  | nil => rfl
  | cons b r ih =>
    show digitsVal (acc * 10 + (b.toNat - 48)) (r ++ ys) = digitsVal (digitsVal (acc * 10 + (b.toNat - 48)) r) ys
    exact ih _

theorem digitsVal_decDigits (n : Nat) : digitsVal 0 (decDigits n) = n := by
  induction n using Nat.strongRecOn with
  | _ n ih =>
    rw [decDigits_unfold]
    by_cases hn : n < 10
    · rw [if_pos hn]
      show 0 * 10 + ((digit n).toNat - 48) = n
      rw [digit_toNat hn]; omega
    · rw [if_neg hn]
      have hd : n % 10 < 10 := Nat.mod_lt _ (by omega)
      rw [digitsVal_append, ih (n / 10) (by omega)]
      show n / 10 * 10 + ((digit (n % 10)).toNat - 48) = n
      rw [digit_toNat hd]; omega

theorem decDigits_injective {a b : Nat} (h : decDigits a = decDigits b) : a = b := by
  have := congrArg (digitsVal 0) h
  simpa [digitsVal_decDigits] using this

theorem not_isDigit_not_mem_decDigits {x : UInt8} (hx : isDigit x = false) (n : Nat) : x ∉ decDigits n := by
  intro h; have := decDigits_all_digit n x h; simp [hx] at this

theorem colon_not_mem_decDigits (n : Nat) : colon ∉ decDigits n :=
  not_isDigit_not_mem_decDigits (by decide) n

theorem underscore_not_mem_decDigits (n : Nat) : underscore ∉ decDigits n :=
  not_isDigit_not_mem_decDigits (by decide) n

/-! ## the checksum string determines the protected fields -/

theorem metaString_injective {s t : State} (h : metaString s = metaString t) :
    protectedFields s = protectedFields t := by
  unfold metaString at h
  simp only [List.append_assoc, List.singleton_append] at h
  -- peel from the right: partition count, timestamp, index
  have h1 := snoc_sep_inj (x := colon)
    (a := s.pipelineId ++ colon :: (decDigits s.completedNodeIndex ++ colon :: decDigits s.timestamp))
    (a' := t.pipelineId ++ colon :: (decDigits t.completedNodeIndex ++ colon :: decDigits t.timestamp))
    (colon_not_mem_decDigits _) (colon_not_mem_decDigits _) (by simpa using h)
  have h2 := snoc_sep_inj (x := colon)
    (a := s.pipelineId ++ colon :: decDigits s.completedNodeIndex)
    (a' := t.pipelineId ++ colon :: decDigits t.completedNodeIndex)
    (colon_not_mem_decDigits _) (colon_not_mem_decDigits _) (by simpa using h1.1)
  have h3 := snoc_sep_inj (x := colon) (colon_not_mem_decDigits _) (colon_not_mem_decDigits _) h2.1
  unfold protectedFields
  rw [h3.1, decDigits_injective h3.2, decDigits_injective h2.2, decDigits_injective h1.2]

/-! ## file names -/

theorem rustParseU64_decDigits (n : Nat) (h : n ≤ u64Max) : rustParseU64 (decDigits n) = some n := by
  unfold rustParseU64
  cases hd : decDigits n with
  | nil => exact absurd hd (decDigits_ne_nil n)
  | cons b r =>
    have hb : isDigit b = true := decDigits_all_digit n b (by simp [hd])
    have : b ≠ 43 := by intro e; subst e; revert hb; decide
    simp only [this, if_false]
    rw [← hd]; exact parseDigitsAux_decDigits n h

theorem fileStamp_fileNameOf (pid : Bytes) (ts : Nat) (h : ts ≤ u64Max) :
    fileStamp (pfx pid) (fileNameOf pid ts) = some ts := by
  unfold fileStamp fileNameOf
  rw [List.append_assoc, stripPrefix_append]
  simp only [stripSuffix_append]
  have h1 : (decDigits ts).isEmpty = false := by
    cases hd : decDigits ts with
    | nil => exact absurd hd (decDigits_ne_nil ts)
    | cons _ _ => rfl
  have h2 : (decDigits ts).all isDigit = true := List.all_eq_true.mpr (decDigits_all_digit ts)
  simp [h1, h2, rustParseU64_decDigits ts h]

/-- shape of an accepted name: `checkpoint_<pid>_<digits>.bin` -/
theorem fileStamp_some {pre : Bytes} {name : Name} {t : Nat} (h : fileStamp pre name = some t) :
    ∃ ds, name = pre ++ ds ++ dotBin ∧ ds ≠ [] ∧ (∀ b ∈ ds, isDigit b = true) ∧ rustParseU64 ds = some t := by
  unfold fileStamp at h
  split at h
  · cases h
  · rename_i r hr
    split at h
    · cases h
    · rename_i ds hds
      split at h
      · cases h
      · rename_i hc
        simp only [Bool.or_eq_true, Bool.not_eq_true', not_or, Bool.not_eq_false] at hc
        refine ⟨ds, ?_, ?_, ?_, h⟩
        · rw [stripPrefix_eq_some.mp hr, stripSuffix_eq_some.mp hds, List.append_assoc]
        · intro e; simp [e] at hc
        · exact List.all_eq_true.mp hc.2

theorem sortKey_of_fileStamp {pre : Bytes} {name : Name} {t : Nat} (h : fileStamp pre name = some t) :
    sortKey pre name = t := by
  unfold fileStamp at h
  unfold sortKey
  split at h
  · cases h
  · rename_i r hr
    split at h
    · cases h
    · rename_i ds hds
      split at h
      · cases h
      · simp [h]

theorem underscore_not_mem_of_digits {ds : Bytes} (h : ∀ b ∈ ds, isDigit b = true) : underscore ∉ ds := by
  intro m; have := h _ m; revert this; decide

/-- a well-formed name belongs to exactly one pipeline -/
theorem isOwn_unique {p q : Bytes} {name : Name} (hp : isOwn p name = true) (hq : isOwn q name = true) : p = q := by
  unfold isOwn at hp hq
  obtain ⟨t, ht⟩ := Option.isSome_iff_exists.mp hp
  obtain ⟨u, hu⟩ := Option.isSome_iff_exists.mp hq
  obtain ⟨ds, e1, _, d1, _⟩ := fileStamp_some ht
  obtain ⟨es, e2, _, d2, _⟩ := fileStamp_some hu
  rw [e1] at e2
  have e3 := List.append_cancel_right e2
  unfold pfx at e3
  simp only [List.append_assoc, List.singleton_append] at e3
  have e4 := List.append_cancel_left e3
  exact (snoc_sep_inj (underscore_not_mem_of_digits d1) (underscore_not_mem_of_digits d2) e4).1

end IB.Checkpoint
