import IbModel.Model.Closures
import IbModel.Proofs.ParSeq
/-!
# Engine facts for `coGroup` nodes: nested joins are rejected, join results flow downstream

`stepSeq`/`stepPar` run the LEFT sub-chain first, then the RIGHT one; a `coGroup` node inside a
sub-chain makes `stepSubSeq`/`stepSubPar` throw `Err.nestedCoGroup`.
-/
namespace IB.Join
variable {P : Type}

def isCoGroup : Node P → Bool
  | .coGroup .. => true
  | _ => false

/-- transforms that can legitimately follow the source of a sub-chain -/
def isPlain : Node P → Bool
  | .stateless _ | .gbk .. | .combineValues .. | .combineGlobal .. => true
  | _ => false

/-- "a join fed by another join": the chain is a source, then plain transforms, then a `coGroup` node,
    then anything (this is the only way `chain_from` can produce a sub-chain containing a `coGroup`
    whose own prefix runs) -/
def NestedAfterSource (chain : List (Node P)) : Prop :=
  ∃ w len split pre cg post, chain = .source w len split :: (pre ++ cg :: post) ∧
    (∀ nd ∈ pre, isPlain nd = true) ∧ isCoGroup cg = true

/-- weakest form: a `coGroup` node anywhere in the chain -/
def HasCoGroup (chain : List (Node P)) : Prop := ∃ nd ∈ chain, isCoGroup nd = true

theorem NestedAfterSource.hasCoGroup {chain : List (Node P)} (h : NestedAfterSource chain) :
    HasCoGroup chain := by
  obtain ⟨w, len, split, pre, cg, post, rfl, _, hcg⟩ := h
  exact ⟨cg, by simp, hcg⟩

@[simp] theorem except_error_bind {ε α β : Type} (e : ε) (f : α → Except ε β) :
    ((Except.error e : Except ε α) >>= f) = Except.error e := rfl

@[simp] theorem except_ok_bind {ε α β : Type} (a : α) (f : α → Except ε β) :
    ((Except.ok a : Except ε α) >>= f) = f a := rfl

/-- once a step has failed the fold stays failed -/
theorem foldlM_cons_error {α β : Type} (f : β → α → M β) (a : α) (l : List α) (b : β) (e : Err)
    (h : f b a = .error e) : (a :: l).foldlM f b = .error e := by
  simp only [List.foldlM_cons, h]; rfl

theorem foldlM_cons_ok {α β : Type} (f : β → α → M β) (a : α) (l : List α) (b b' : β)
    (h : f b a = .ok b') : (a :: l).foldlM f b = l.foldlM f b' := by
  simp only [List.foldlM_cons, h]; rfl

/-! ## sequential sub-plan -/

abbrev subSeqStep (cur : Option P) (n : Node P) : M (Option P) := do
  let b ← stepSubSeq cur n; pure (some b)

theorem stepSubSeq_some (b : P) (nd : Node P) (h : isCoGroup nd = false) :
    ∃ b', stepSubSeq (some b) nd = .ok b' := by
  cases nd <;> first | exact ⟨_, rfl⟩ | simp [isCoGroup] at h

theorem stepSubSeq_coGroup (cur : Option P) (nd : Node P) (h : isCoGroup nd = true) :
    stepSubSeq cur nd = .error .nestedCoGroup := by
  cases nd <;> first | rfl | simp [isCoGroup] at h

/-- with a buffer in hand, the sequential sub-plan fails with `nestedCoGroup` at the first `coGroup` -/
theorem foldSubSeq_nested (rest : List (Node P)) (b : P) (h : HasCoGroup rest) :
    rest.foldlM (fun cur n => do let b ← stepSubSeq cur n; pure (some b)) (some b)
      = .error .nestedCoGroup := by
  induction rest generalizing b with
  | nil => obtain ⟨nd, hnd, _⟩ := h; simp at hnd
  | cons nd rest ih =>
    cases hc : isCoGroup nd
    · obtain ⟨b', hb'⟩ := stepSubSeq_some b nd hc
      rw [foldlM_cons_ok _ nd rest (some b) (some b') (by simp only [hb']; rfl)]
      apply ih
      obtain ⟨x, hx, hxc⟩ := h
      rcases List.mem_cons.mp hx with rfl | hx'
      · rw [hc] at hxc; cases hxc
      · exact ⟨x, hx', hxc⟩
    · exact foldlM_cons_error _ nd rest (some b) _ (by simp only [stepSubSeq_coGroup _ nd hc]; rfl)

theorem runSubSeq_nested (w : P) (len : Nat) (split : Nat → List P) (rest : List (Node P))
    (h : HasCoGroup rest) : runSubSeq (.source w len split :: rest) = .error .nestedCoGroup := by
  have h0 : stepSubSeq (none : Option P) (.source w len split) = .ok w := rfl
  unfold runSubSeq
  rw [foldlM_cons_ok _ _ rest none (some w) (by simp only [h0]; rfl), foldSubSeq_nested rest w h]
  rfl

/-- a sub-chain with a `coGroup` node anywhere never yields a buffer -/
theorem foldSubSeq_hasCoGroup (chain : List (Node P)) (cur : Option P) (h : HasCoGroup chain) :
    ∃ e, chain.foldlM (fun cur n => do let b ← stepSubSeq cur n; pure (some b)) cur = .error e := by
  induction chain generalizing cur with
  | nil => obtain ⟨nd, hnd, _⟩ := h; simp at hnd
  | cons nd rest ih =>
    cases hs : stepSubSeq cur nd with
    | error e => exact ⟨e, foldlM_cons_error _ nd rest cur e (by simp only [hs]; rfl)⟩
    | ok b' =>
      rw [foldlM_cons_ok _ nd rest cur (some b') (by simp only [hs]; rfl)]
      apply ih
      obtain ⟨x, hx, hxc⟩ := h
      rcases List.mem_cons.mp hx with rfl | hx'
      · rw [stepSubSeq_coGroup cur x hxc] at hs; cases hs
      · exact ⟨x, hx', hxc⟩

theorem runSubSeq_hasCoGroup (chain : List (Node P)) (h : HasCoGroup chain) :
    ∃ e, runSubSeq chain = .error e := by
  obtain ⟨e, he⟩ := foldSubSeq_hasCoGroup chain none h
  exact ⟨e, by unfold runSubSeq; rw [he]; rfl⟩

/-! ## parallel sub-plan -/

theorem fanIn_total (m : List P → P) (f : Nat) (hf : 2 ≤ f) :
    ∀ (fuel : Nat) (accs : List P), accs.length ≤ fuel + 1 → ∃ r, fanIn m f fuel accs = some r := by
  intro fuel
  induction fuel with
  | zero => intro accs h; exact ⟨accs, by simp [fanIn]; omega⟩
  | succ fuel ih =>
    intro accs h
    unfold fanIn
    by_cases h1 : accs.length ≤ 1
    · exact ⟨accs, by simp [h1]⟩
    · simp only [h1, ↓reduceIte]
      apply ih
      have := chunksOf_length f hf accs.length accs
      simp only [List.length_map]
      omega

/-- the current reduction (`.max(2)`) terminates for every merge function and fan-out -/
theorem reduceGlobal_total (m : List P → P) (fo : Option Nat) (accs : List P) :
    ∃ x, reduceGlobal m fo accs = .ok x := by
  unfold reduceGlobal reduceGlobalWith
  cases fo with
  | none =>
    by_cases h : accs.length ≤ 1
    · simp only [h, ↓reduceIte]
      cases accs with
      | nil => exact ⟨_, rfl⟩
      | cons a t => exact ⟨_, rfl⟩
    · simp only [h, ↓reduceIte]; exact ⟨_, rfl⟩
  | some f =>
    obtain ⟨r, hr⟩ := fanIn_total m (max f 2) (by omega) accs.length accs (by omega)
    simp only [hr]
    cases r with
    | nil => exact ⟨_, rfl⟩
    | cons a t => exact ⟨_, rfl⟩

theorem stepSubPar_plain (curr : List P) (nd : Node P) (h : isPlain nd = true) :
    ∃ c', stepSubPar curr nd = .ok c' := by
  cases nd with
  | combineGlobal l m f fo =>
    obtain ⟨x, hx⟩ := reduceGlobal_total m fo (curr.map l)
    exact ⟨[f x], by simp only [stepSubPar, hx]; rfl⟩
  | stateless ops => exact ⟨_, rfl⟩
  | gbk l m => exact ⟨_, rfl⟩
  | combineValues lp lg m => exact ⟨_, rfl⟩
  | source w len split => simp [isPlain] at h
  | materialized p => simp [isPlain] at h
  | coGroup l r cl cr ex => simp [isPlain] at h

theorem stepSubPar_coGroup (curr : List P) (nd : Node P) (h : isCoGroup nd = true) :
    stepSubPar curr nd = .error .nestedCoGroup := by
  cases nd <;> first | rfl | simp [isCoGroup] at h

theorem foldSubPar_nested (pre : List (Node P)) (cg : Node P) (post : List (Node P))
    (hpre : ∀ nd ∈ pre, isPlain nd = true) (hcg : isCoGroup cg = true) (curr : List P) :
    (pre ++ cg :: post).foldlM stepSubPar curr = .error .nestedCoGroup := by
  induction pre generalizing curr with
  | nil => exact foldlM_cons_error _ cg post curr _ (stepSubPar_coGroup curr cg hcg)
  | cons nd pre ih =>
    obtain ⟨c', hc'⟩ := stepSubPar_plain curr nd (hpre nd (by simp))
    rw [List.cons_append, foldlM_cons_ok _ nd _ curr c' hc']
    exact ih (fun x hx => hpre x (by simp [hx])) c'

theorem runSubPar_nested (chain : List (Node P)) (h : NestedAfterSource chain) (n : Nat) :
    runSubPar chain n = .error .nestedCoGroup := by
  obtain ⟨w, len, split, pre, cg, post, rfl, hpre, hcg⟩ := h
  exact foldSubPar_nested pre cg post hpre hcg _

theorem runSubSeq_nested' (chain : List (Node P)) (h : NestedAfterSource chain) :
    runSubSeq chain = .error .nestedCoGroup := by
  obtain ⟨w, len, split, pre, cg, post, rfl, _, hcg⟩ := h
  exact runSubSeq_nested w len split _ ⟨cg, by simp, hcg⟩

theorem foldSubPar_hasCoGroup (rest : List (Node P)) (curr : List P) (h : HasCoGroup rest) :
    ∃ e, rest.foldlM stepSubPar curr = .error e := by
  induction rest generalizing curr with
  | nil => obtain ⟨nd, hnd, _⟩ := h; simp at hnd
  | cons nd rest ih =>
    cases hs : stepSubPar curr nd with
    | error e => exact ⟨e, foldlM_cons_error _ nd rest curr e hs⟩
    | ok c' =>
      rw [foldlM_cons_ok _ nd rest curr c' hs]
      apply ih
      obtain ⟨x, hx, hxc⟩ := h
      rcases List.mem_cons.mp hx with rfl | hx'
      · rw [stepSubPar_coGroup curr x hxc] at hs; cases hs
      · exact ⟨x, hx', hxc⟩

theorem runSubPar_hasCoGroup (chain : List (Node P)) (h : HasCoGroup chain) (n : Nat) :
    ∃ e, runSubPar chain n = .error e := by
  cases chain with
  | nil => exact ⟨_, rfl⟩
  | cons hd rest =>
    cases hd with
    | source w len split =>
      obtain ⟨x, hx, hxc⟩ := h
      rcases List.mem_cons.mp hx with rfl | hx'
      · simp [isCoGroup] at hxc
      · exact foldSubPar_hasCoGroup rest _ ⟨x, hx', hxc⟩
    | stateless ops => exact ⟨_, rfl⟩
    | gbk l m => exact ⟨_, rfl⟩
    | combineValues lp lg m => exact ⟨_, rfl⟩
    | combineGlobal l m f fo => exact ⟨_, rfl⟩
    | coGroup l r cl cr ex => exact ⟨_, rfl⟩
    | materialized p => exact ⟨_, rfl⟩

/-! ## the `coGroup` step of the outer engines -/

theorem stepSeq_coGroup_left_err (cur : Option P) (l r : List (Node P)) (cl cr : List P → P)
    (ex : P → P → P) (e : Err) (h : runSubSeq l = .error e) :
    stepSeq cur (.coGroup l r cl cr ex) = .error e := by
  simp only [stepSeq, h]; rfl

theorem stepSeq_coGroup_right_err (cur : Option P) (l r : List (Node P)) (cl cr : List P → P)
    (ex : P → P → P) (lp : P) (e : Err) (hl : runSubSeq l = .ok lp) (h : runSubSeq r = .error e) :
    stepSeq cur (.coGroup l r cl cr ex) = .error e := by
  simp only [stepSeq, hl, h]; rfl

theorem stepSeq_coGroup_ok (cur : Option P) (l r : List (Node P)) (cl cr : List P → P)
    (ex : P → P → P) (lp rp : P) (hl : runSubSeq l = .ok lp) (hr : runSubSeq r = .ok rp) :
    stepSeq cur (.coGroup l r cl cr ex) = .ok (ex lp rp) := by
  simp only [stepSeq, hl, hr]; rfl

theorem stepPar_coGroup_left_err (n : Nat) (curr : List P) (l r : List (Node P)) (cl cr : List P → P)
    (ex : P → P → P) (e : Err) (h : runSubPar l n = .error e) :
    stepPar n curr (.coGroup l r cl cr ex) = .error e := by
  simp only [stepPar, h]; rfl

theorem stepPar_coGroup_right_err (n : Nat) (curr : List P) (l r : List (Node P)) (cl cr : List P → P)
    (ex : P → P → P) (lps : List P) (e : Err) (hl : runSubPar l n = .ok lps)
    (h : runSubPar r n = .error e) :
    stepPar n curr (.coGroup l r cl cr ex) = .error e := by
  simp only [stepPar, hl, h]; rfl

/-- a failing `coGroup` directly after the source fails the whole sequential run with the same error -/
theorem execSeq_source_step_err (w : P) (len : Nat) (split : Nat → List P) (nd : Node P)
    (rest : List (Node P)) (e : Err) (h : stepSeq (some w) nd = .error e) :
    execSeq (.source w len split :: nd :: rest) = .error e := by
  have h0 : stepSeq (none : Option P) (.source w len split) = .ok w := rfl
  unfold execSeq
  rw [foldlM_cons_ok _ _ _ none (some w) (by simp only [h0]; rfl),
    foldlM_cons_error _ nd rest (some w) e (by simp only [h]; rfl)]
  rfl

theorem execPar_source_step_err (concat : List P → P) (w : P) (len : Nat) (split : Nat → List P)
    (nd : Node P) (rest : List (Node P)) (n : Nat) (e : Err)
    (h : stepPar n (split (clampParts n len)) nd = .error e) :
    execPar concat (.source w len split :: nd :: rest) n = .error e := by
  unfold execPar
  simp only []
  rw [foldlM_cons_error _ nd rest _ e h]
  rfl

/-- downstream of a successful `coGroup` the sequential run continues exactly as from a
    materialised buffer holding `exec lp rp` (the dummy source does not leak) -/
theorem execSeq_coGroup_downstream (w : P) (len : Nat) (split : Nat → List P)
    (l r : List (Node P)) (cl cr : List P → P) (ex : P → P → P) (rest : List (Node P)) (lp rp : P)
    (hl : runSubSeq l = .ok lp) (hr : runSubSeq r = .ok rp) :
    execSeq (.source w len split :: .coGroup l r cl cr ex :: rest)
      = execSeq (.materialized (ex lp rp) :: rest) := by
  have h0 : stepSeq (none : Option P) (.source w len split) = .ok w := rfl
  have h1 := stepSeq_coGroup_ok (some w) l r cl cr ex lp rp hl hr
  have h2 : stepSeq (none : Option P) (.materialized (ex lp rp)) = .ok (ex lp rp) := rfl
  unfold execSeq
  rw [foldlM_cons_ok _ _ _ none (some w) (by simp only [h0]; rfl),
    foldlM_cons_ok _ _ rest (some w) (some (ex lp rp)) (by simp only [h1]; rfl),
    foldlM_cons_ok _ _ rest none (some (ex lp rp)) (by simp only [h2]; rfl)]

end IB.Join

namespace IB.Join
variable {P : Type}

theorem stepSeq_eq_stepSubSeq (cur : Option P) (nd : Node P) (h : isCoGroup nd = false) :
    stepSeq cur nd = stepSubSeq cur nd := by
  cases nd <;> first | rfl | simp [isCoGroup] at h

/-- a chain without `coGroup` nodes runs the same as a sub-plan and as a plan of its own
    (so "the side's result" is what collecting that side sequentially returns) -/
theorem runSubSeq_eq_execSeq (chain : List (Node P)) (h : ∀ nd ∈ chain, isCoGroup nd = false) :
    runSubSeq chain = execSeq chain := by
  unfold runSubSeq execSeq
  have : ∀ cur : Option P,
      chain.foldlM (fun cur n => do let b ← stepSubSeq cur n; pure (some b)) cur =
      chain.foldlM (fun cur n => do let b ← stepSeq cur n; pure (some b)) cur := by
    induction chain with
    | nil => intro cur; rfl
    | cons nd rest ih =>
      intro cur
      simp only [List.foldlM_cons, stepSeq_eq_stepSubSeq cur nd (h nd (by simp))]
      congr 1
      funext x
      exact ih (fun y hy => h y (by simp [hy])) x
  rw [this]

/-! ## concrete sub-chains that meet the `SubChainOK List.flatten` contract -/

theorem vecSplit_flatten (xs : List Val) (n : Nat) : (vecSplit xs n).flatten = xs := by
  unfold vecSplit
  split
  · simp
  · rename_i h
    have h1 : ¬ n ≤ 1 := fun h' => h (Or.inl h')
    have h2 : ¬ xs.length ≤ 1 := fun h' => h (Or.inr h')
    apply chunksOf_flatten _ _ _ _ (Nat.le_refl _)
    have : n ≤ xs.length + n - 1 := by omega
    exact (Nat.le_div_iff_mul_le (by omega)).mpr (by omega)

theorem dummySource_flatten (n : Nat) : (vecSplit [Val.int 0] n).flatten = [Val.int 0] :=
  vecSplit_flatten _ n

theorem subNodeOK_map (f : Val → Val) : SubNodeOK List.flatten (.stateless [mapOp f]) := by
  intro op hop ps
  simp only [List.mem_singleton] at hop
  subst hop
  show List.map f ps.flatten = (ps.map (List.map f)).flatten
  rw [List.map_flatten]

theorem subNodeOK_mapValues (f : Val → Val) : SubNodeOK List.flatten (.stateless [mapValuesOp f]) := by
  intro op hop ps
  simp only [List.mem_singleton] at hop
  subst hop
  show List.map _ ps.flatten = (ps.map (List.map _)).flatten
  rw [List.map_flatten]

theorem subNodeOK_filter (p : Val → Bool) : SubNodeOK List.flatten (.stateless [filterOp p]) := by
  intro op hop ps
  simp only [List.mem_singleton] at hop
  subst hop
  show List.filter p ps.flatten = (ps.map (List.filter p)).flatten
  rw [List.filter_flatten]

end IB.Join

namespace IB.Join

theorem subChainOK_intro {P : Type} (concat : List P → P) (w : P) (len : Nat) (split : Nat → List P)
    (rest : List (Node P)) (h1 : ∀ n, concat (split n) = w) (h2 : ∀ nd ∈ rest, SubNodeOK concat nd) :
    SubChainOK concat (.source w len split :: rest) := ⟨h1, h2⟩

theorem subChainOK_vecSource (xs : List Val) (rest : List (Node Part))
    (h : ∀ nd ∈ rest, SubNodeOK List.flatten nd) : SubChainOK List.flatten (vecSource xs :: rest) :=
  subChainOK_intro _ _ _ _ _ (vecSplit_flatten xs) h

end IB.Join
