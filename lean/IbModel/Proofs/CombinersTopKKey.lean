import IbModel.Proofs.CombinersTopK
import IbModel.Proofs.CombinersFloat
/-!
# Helper lemmas for C06: `TopK<T>` when `Ord` does not see the whole value

`le` compares `key a` with `key b` by a total order `leκ` on the keys (`le a b = leκ (key a) (key b)`), so `le` is
a total PREorder: distinct values can be `Equal`. Projecting on the keys commutes with every operation of the
model, hence the key-level theorems (where `Equal` means identical) apply to the projection; and whatever the
tie-breaking, the output is a selection (sub-multiset) of the input.
-/
namespace IB.Combiners
open IB

section
variable {α κ : Type} {le : α → α → Bool} {leκ : κ → κ → Bool} {key : α → κ}
  (hle : ∀ a b, le a b = leκ (key a) (key b))
include hle

theorem heapPush_map (l : List α) (v : α) :
    (heapPush le l v).map key = heapPush leκ (l.map key) (key v) := by
  induction l with
  | nil => rfl
  | cons x xs ih =>
    simp only [heapPush, List.map_cons, hle v x]
    split
    · rfl
    · simp only [List.map_cons, ih]

theorem topAdd_map (k : Nat) (acc : List α) (v : α) :
    (topAdd le k acc v).map key = topAdd leκ k (acc.map key) (key v) := by
  simp only [topAdd]
  rw [← heapPush_map hle, List.length_map]
  split
  · exact List.map_tail
  · rfl

theorem foldl_topAdd_map (k : Nat) (xs : List α) : ∀ acc : List α,
    (xs.foldl (topAdd le k) acc).map key = (xs.map key).foldl (topAdd leκ k) (acc.map key) := by
  induction xs with
  | nil => intro acc; rfl
  | cons x xs ih => intro acc; simp only [List.foldl_cons, List.map_cons]; rw [ih, topAdd_map hle]

theorem foldl_heapPush_map (xs : List α) : ∀ acc : List α,
    (xs.foldl (heapPush le) acc).map key = (xs.map key).foldl (heapPush leκ) (acc.map key) := by
  induction xs with
  | nil => intro acc; rfl
  | cons x xs ih => intro acc; simp only [List.foldl_cons, List.map_cons]; rw [ih, heapPush_map hle]

theorem twoPointer_map (n : Nat) : ∀ X Y : List α,
    (twoPointer le n X Y).map key = twoPointer leκ n (X.map key) (Y.map key) := by
  induction n with
  | zero => intro X Y; simp [twoPointer]
  | succ n ih =>
    intro X Y
    cases X with
    | nil =>
      cases Y with
      | nil => simp [twoPointer]
      | cons y ys => simp only [twoPointer, List.map_cons, List.map_nil]; rw [← List.map_nil (f := key), ih]
    | cons x xs =>
      cases Y with
      | nil => simp only [twoPointer, List.map_cons, List.map_nil]; rw [← List.map_nil (f := key), ih]
      | cons y ys =>
        simp only [twoPointer, List.map_cons, hle y x]
        split
        · simp only [List.map_cons]; rw [ih xs (y :: ys)]; rfl
        · simp only [List.map_cons]; rw [ih (x :: xs) ys]; rfl

theorem mergeSort_map_key (l : List α) : (l.mergeSort le).map key = (l.map key).mergeSort leκ :=
  List.map_mergeSort (fun a _ b _ => hle a b)

theorem topMerge_map (k : Nat) (acc other : List α) :
    (topMerge le k acc other).map key = topMerge leκ k (acc.map key) (other.map key) := by
  simp only [topMerge, List.length_map]
  split
  · exact foldl_heapPush_map hle other acc
  · rw [foldl_heapPush_map hle, twoPointer_map hle, List.map_reverse, List.map_reverse, mergeSort_map_key hle]
    rfl

theorem topBuild_map (k : Nat) (xs : List α) :
    (topBuild le k xs).map key = topBuild leκ k (xs.map key) :=
  foldl_topAdd_map hle k xs []

/-- projecting on the keys commutes with the evaluation of every merge tree -/
theorem topKBy_eval_map (k : Nat) (t : MergeTree α) :
    (t.eval (topKBy le k)).map key = (t.map key).eval (topKBy leκ k) := by
  induction t with
  | leaf xs => exact foldl_topAdd_map hle k xs []
  | built xs => exact topBuild_map hle k xs
  | node l r ihl ihr =>
    show (topMerge le k (l.eval (topKBy le k)) (r.eval (topKBy le k))).map key = topMerge leκ k _ _
    rw [topMerge_map hle, ihl, ihr]
  | more t xs ih =>
    show (xs.foldl (topAdd le k) (t.eval (topKBy le k))).map key = (xs.map key).foldl (topAdd leκ k) _
    rw [foldl_topAdd_map hle, ih]

end

/-! ## the output is a selection of the input (no hypothesis on `le` at all) -/

/-- `l` is a selection of `L`: a permutation of a sub-list (a sub-multiset) -/
def Sel {α : Type} (l L : List α) : Prop := ∃ l', l.Perm l' ∧ l'.Sublist L

namespace Sel
variable {α : Type}

theorem refl (l : List α) : Sel l l := ⟨l, List.Perm.refl l, List.Sublist.refl l⟩
theorem of_perm {l L : List α} (p : l.Perm L) : Sel l L := ⟨L, p, List.Sublist.refl L⟩
theorem of_sublist {l L : List α} (s : l.Sublist L) : Sel l L := ⟨l, List.Perm.refl l, s⟩

theorem trans {a b c : List α} (h1 : Sel a b) (h2 : Sel b c) : Sel a c := by
  obtain ⟨a', pa, sa⟩ := h1
  obtain ⟨b', pb, sb⟩ := h2
  obtain ⟨a'', pa'', sa''⟩ := List.exists_perm_sublist sa pb
  exact ⟨a'', pa.trans pa''.symm, sa''.trans sb⟩

theorem append {a b c d : List α} (h1 : Sel a b) (h2 : Sel c d) : Sel (a ++ c) (b ++ d) := by
  obtain ⟨a', pa, sa⟩ := h1
  obtain ⟨c', pc, sc⟩ := h2
  exact ⟨a' ++ c', pa.append pc, sa.append sc⟩

theorem length_le {l L : List α} (h : Sel l L) : l.length ≤ L.length := by
  obtain ⟨l', p, s⟩ := h
  rw [p.length_eq]; exact s.length_le

theorem mem {l L : List α} (h : Sel l L) {x : α} (hx : x ∈ l) : x ∈ L := by
  obtain ⟨l', p, s⟩ := h
  exact s.subset (p.mem_iff.mp hx)

end Sel

section
variable {α : Type} (le : α → α → Bool)

theorem topAdd_sel (k : Nat) (acc : List α) (v : α) : Sel (topAdd le k acc v) (acc ++ [v]) := by
  have p : (heapPush le acc v).Perm (acc ++ [v]) :=
    (heapPush_perm (le := le) acc v).trans (List.perm_append_singleton v acc).symm
  simp only [topAdd]
  split
  · exact (Sel.of_sublist (List.tail_sublist _)).trans (Sel.of_perm p)
  · exact Sel.of_perm p

theorem foldl_topAdd_sel (k : Nat) (xs : List α) : ∀ (acc L : List α), Sel acc L →
    Sel (xs.foldl (topAdd le k) acc) (L ++ xs) := by
  induction xs with
  | nil => intro acc L h; simpa using h
  | cons x xs ih =>
    intro acc L h
    simp only [List.foldl_cons]
    have step : Sel (topAdd le k acc x) (L ++ [x]) :=
      (topAdd_sel le k acc x).trans (Sel.append h (Sel.refl [x]))
    have := ih _ _ step
    simpa [List.append_assoc] using this

theorem foldl_heapPush_perm (xs : List α) : ∀ acc : List α, (xs.foldl (heapPush le) acc).Perm (acc ++ xs) := by
  induction xs with
  | nil => intro acc; simp
  | cons x xs ih =>
    intro acc
    simp only [List.foldl_cons]
    refine (ih _).trans ?_
    have p : (heapPush le acc x).Perm (acc ++ [x]) :=
      (heapPush_perm (le := le) acc x).trans (List.perm_append_singleton x acc).symm
    simpa [List.append_assoc] using p.append_right xs

theorem topMerge_sel (k : Nat) (acc other : List α) : Sel (topMerge le k acc other) (acc ++ other) := by
  simp only [topMerge]
  split
  · exact Sel.of_perm (foldl_heapPush_perm le other acc)
  · have p0 := foldl_heapPush_perm le (twoPointer le k acc.reverse (other.mergeSort le).reverse) []
    rw [List.nil_append] at p0
    refine (Sel.of_perm p0).trans ?_
    rw [twoPointer_eq]
    refine (Sel.of_sublist (List.take_sublist _ _)).trans ?_
    refine (Sel.of_perm (List.merge_perm_append (geOf le))).trans ?_
    exact Sel.of_perm ((List.reverse_perm acc).append ((List.reverse_perm _).trans (List.mergeSort_perm other le)))

/-- every accumulator a merge tree of `TopK` produces is a selection (sub-multiset) of the tree's values,
    whatever `le` is -/
theorem topKBy_eval_sel (k : Nat) (t : MergeTree α) : Sel (t.eval (topKBy le k)) t.leaves := by
  induction t with
  | leaf xs =>
    show Sel (xs.foldl (topAdd le k) []) xs
    have := foldl_topAdd_sel le k xs [] [] (Sel.refl _)
    simpa using this
  | built xs =>
    show Sel (xs.foldl (topAdd le k) []) xs
    have := foldl_topAdd_sel le k xs [] [] (Sel.refl _)
    simpa using this
  | node l r ihl ihr =>
    exact (topMerge_sel le k _ _).trans (Sel.append ihl ihr)
  | more t xs ih => exact foldl_topAdd_sel le k xs _ _ ih

end

/-! ## instances -/

theorem leKey_hom : ∀ a b : Tagged, leKey a b = leInt a.1 b.1 := fun _ _ => rfl

end IB.Combiners
