import IbModel.Model.Checkpoint
/-! Helper lemmas for C12: the directory scans, for an arbitrary candidate filter and sort key. -/
namespace IB.Checkpoint

variable (cand : Name → Bool) (key : Name → Nat)

def keyLe (key : Name → Nat) (a b : Name) : Bool := decide (key a ≤ key b)

theorem keyLe_trans (a b c : Name) : keyLe key a b = true → keyLe key b c = true → keyLe key a c = true := by
  unfold keyLe; simp only [decide_eq_true_eq]; omega

theorem keyLe_total (a b : Name) : (keyLe key a b || keyLe key b a) = true := by
  unfold keyLe; simp only [Bool.or_eq_true, decide_eq_true_eq]; omega

/-- the candidates in listing order, stably sorted by key -/
def sortedCands (listing : List Name) : List Name :=
  (listing.filter cand).mergeSort (fun a b => decide (key a ≤ key b))

theorem sortedCands_perm (l : List Name) : (sortedCands cand key l).Perm (l.filter cand) :=
  List.mergeSort_perm _ _

theorem sortedCands_pairwise (l : List Name) :
    (sortedCands cand key l).Pairwise (fun a b => key a ≤ key b) := by
  have := List.pairwise_mergeSort (le := keyLe key) (keyLe_trans key) (keyLe_total key) (l.filter cand)
  unfold sortedCands
  refine List.Pairwise.imp ?_ this
  intro a b h; simpa [keyLe] using h

theorem mem_sortedCands {l : List Name} {a : Name} : a ∈ sortedCands cand key l ↔ a ∈ l ∧ cand a = true := by
  unfold sortedCands; simp [List.mem_mergeSort, List.mem_filter]

theorem doomed_eq (m : Nat) (l : List Name) :
    doomed cand key m l =
      if (l.filter cand).length ≤ m then [] else (sortedCands cand key l).take ((l.filter cand).length - m) := rfl

theorem doomed_subset {m : Nat} {l : List Name} {a : Name} (h : a ∈ doomed cand key m l) :
    a ∈ l ∧ cand a = true := by
  rw [doomed_eq] at h
  split at h
  · cases h
  · exact (mem_sortedCands cand key).mp (List.mem_of_mem_take h)

theorem names_filter (fs : FS) (p : Name → Bool) : names (fs.filter (fun f => p f.1)) = (names fs).filter p := by
  unfold names
  induction fs with
  | nil => rfl
  | cons f r ih =>
    simp only [List.filter_cons, List.map_cons]
    split <;> simp [ih]

theorem names_cleanup (m : Nat) (fs : FS) :
    names (cleanupWith cand key (some m) fs) =
      (names fs).filter (fun n => !(doomed cand key m (names fs)).contains n) := by
  unfold cleanupWith
  exact names_filter fs (fun n => !(doomed cand key m (names fs)).contains n)

/-- own files that survive: the candidates that are not doomed -/
theorem own_after_cleanup (m : Nat) (fs : FS) :
    (names (cleanupWith cand key (some m) fs)).filter cand =
      ((names fs).filter cand).filter (fun n => !(doomed cand key m (names fs)).contains n) := by
  rw [names_cleanup, List.filter_filter, List.filter_filter]
  congr 1; funext n; exact Bool.and_comm _ _

theorem filter_take_drop_of_nodup {l : List Name} (hn : l.Nodup) (k : Nat) :
    l.filter (fun n => !(l.take k).contains n) = l.drop k := by
  conv => lhs; arg 2; rw [← List.take_append_drop k l]
  rw [List.filter_append]
  have hdis : ∀ a ∈ l.drop k, a ∉ l.take k := by
    have h := hn
    rw [← List.take_append_drop k l, List.nodup_append] at h
    intro a ha hb
    exact h.2.2 a hb a ha rfl
  have h1 : (l.take k).filter (fun n => !(l.take k).contains n) = [] := by
    apply List.filter_eq_nil_iff.mpr
    intro a ha; simp [ha]
  have h2 : (l.drop k).filter (fun n => !(l.take k).contains n) = l.drop k := by
    apply List.filter_eq_self.mpr
    intro a ha; simpa using hdis a ha
  rw [h1, h2, List.nil_append]

theorem nodup_sortedCands {l : List Name} (hn : l.Nodup) : (sortedCands cand key l).Nodup :=
  (sortedCands_perm cand key l).nodup_iff.mpr (hn.filter _)

/-- **Retention count**: after a clean-up exactly `min max (#candidates)` candidates remain. -/
theorem own_count_after_cleanup (m : Nat) (fs : FS) (hn : (names fs).Nodup) :
    ((names (cleanupWith cand key (some m) fs)).filter cand).length =
      min m ((names fs).filter cand).length := by
  rw [own_after_cleanup, doomed_eq]
  split
  · rename_i h
    have : ((names fs).filter cand).filter (fun n => !([] : List Name).contains n) = (names fs).filter cand :=
      List.filter_eq_self.mpr (by intro a _; simp)
    rw [this]
    omega
  · rename_i h
    have hp := sortedCands_perm cand key (names fs)
    have hlen := (hp.filter (fun n => !((sortedCands cand key (names fs)).take
      (((names fs).filter cand).length - m)).contains n)).length_eq
    rw [← hlen, filter_take_drop_of_nodup (nodup_sortedCands cand key hn), List.length_drop, hp.length_eq]
    omega

/-- **The kept ones are the newest**: every candidate that was removed has a key ≤ every candidate kept. -/
theorem cleanup_keeps_greatest (m : Nat) (fs : FS) (kept dropped : Name)
    (hk : kept ∈ (names (cleanupWith cand key (some m) fs)).filter cand)
    (hd : dropped ∈ (names fs).filter cand)
    (hd' : dropped ∉ names (cleanupWith cand key (some m) fs)) :
    key dropped ≤ key kept := by
  rw [own_after_cleanup] at hk
  rw [names_cleanup] at hd'
  have hdm : dropped ∈ doomed cand key m (names fs) := by
    have : dropped ∈ names fs := (List.mem_filter.mp hd).1
    simp only [List.mem_filter, this, true_and, Bool.not_eq_true', List.contains_eq_mem,
      decide_eq_false_iff_not, Decidable.not_not] at hd'
    exact hd'
  have hkn : kept ∉ doomed cand key m (names fs) := by
    have := (List.mem_filter.mp hk).2
    simpa using this
  rw [doomed_eq] at hdm hkn
  split at hdm
  · cases hdm
  · rename_i hlt
    rw [if_neg hlt] at hkn
    have hks : kept ∈ sortedCands cand key (names fs) :=
      (sortedCands_perm cand key _).mem_iff.mpr (List.mem_filter.mp hk).1
    have hpw := sortedCands_pairwise cand key (names fs)
    rw [← List.take_append_drop (((names fs).filter cand).length - m) (sortedCands cand key (names fs))] at hpw hks
    rcases List.mem_append.mp hks with h | h
    · exact absurd h hkn
    · exact (List.pairwise_append.mp hpw).2.2 dropped hdm kept h

/-- clean-up never touches a non-candidate, and never creates anything -/
theorem cleanup_keeps_noncandidates (max : Option Nat) (fs : FS) (f : Name × Bytes) (hf : f ∈ fs)
    (hc : cand f.1 = false) : f ∈ cleanupWith cand key max fs := by
  cases max with
  | none => exact hf
  | some m =>
    unfold cleanupWith
    refine List.mem_filter.mpr ⟨hf, ?_⟩
    simp only [Bool.not_eq_true', List.contains_eq_mem, decide_eq_false_iff_not]
    intro h; have := (doomed_subset cand key h).2; simp [hc] at this

theorem cleanup_sublist (max : Option Nat) (fs : FS) : (cleanupWith cand key max fs).Sublist fs := by
  cases max with
  | none => exact List.Sublist.refl _
  | some m => exact List.filter_sublist

theorem cleanup_none (fs : FS) : cleanupWith cand key none fs = fs := rfl

/-- **Latest**: the returned name is a candidate with the greatest key. -/
theorem latestWith_some {fs : FS} {n : Name} (h : latestWith cand key true fs = some n) :
    (n ∈ names fs ∧ cand n = true) ∧ ∀ c ∈ names fs, cand c = true → key c ≤ key n := by
  unfold latestWith at h
  simp only [Bool.not_true, Bool.false_eq_true, if_false] at h
  obtain ⟨ys, hys⟩ := List.getLast?_eq_some_iff.mp h
  have hmem : ∀ a, a ∈ sortedCands cand key (names fs) ↔ a ∈ ys ∨ a = n := by
    intro a; unfold sortedCands; rw [hys]; simp
  constructor
  · exact (mem_sortedCands cand key).mp ((hmem n).mpr (Or.inr rfl))
  · intro c hc hcc
    have hpw := sortedCands_pairwise cand key (names fs)
    unfold sortedCands at hpw
    rw [hys] at hpw
    rcases (hmem c).mp ((mem_sortedCands cand key).mpr ⟨hc, hcc⟩) with h1 | h1
    · exact (List.pairwise_append.mp hpw).2.2 c h1 n (by simp)
    · rw [h1]; exact Nat.le_refl _

theorem latestWith_none {fs : FS} : latestWith cand key true fs = none ↔ (names fs).filter cand = [] := by
  unfold latestWith
  simp only [Bool.not_true, Bool.false_eq_true, if_false, List.getLast?_eq_none_iff]
  constructor
  · intro h
    have := List.length_mergeSort (le := fun a b => decide (key a ≤ key b)) ((names fs).filter cand)
    rw [h] at this
    exact List.length_eq_zero_iff.mp this.symm
  · intro h; rw [h]; simp

theorem latestWith_disabled (fs : FS) : latestWith cand key false fs = none := rfl

/-- clear removes exactly the candidates -/
theorem mem_clearWith {fs : FS} {f : Name × Bytes} : f ∈ clearWith cand fs ↔ f ∈ fs ∧ cand f.1 = false := by
  unfold clearWith; simp [List.mem_filter]

/-! ## the file system invariant: names are unique -/

theorem names_write_nodup {fs : FS} (hn : (names fs).Nodup) (name : Name) (content : Bytes) :
    (names (write fs name content)).Nodup := by
  unfold write
  split
  · -- overwrite: the list of names is unchanged
    have : names (fs.map (fun f => if f.1 == name then (name, content) else f)) = names fs := by
      unfold names
      rw [List.map_map]
      apply List.map_congr_left
      intro f _
      simp only [Function.comp]
      split
      · rename_i h; simpa using (beq_iff_eq.mp h).symm
      · rfl
    rw [this]; exact hn
  · rename_i h
    unfold names at *
    rw [List.map_append, List.nodup_append]
    refine ⟨hn, by simp, ?_⟩
    intro a ha b hb
    simp at hb; subst hb
    intro e; subst e
    apply h
    obtain ⟨f, hf, hfe⟩ := List.mem_map.mp ha
    exact List.any_eq_true.mpr ⟨f, hf, by simp [hfe]⟩

theorem mem_names_write (fs : FS) (name : Name) (content : Bytes) (a : Name) :
    a ∈ names (write fs name content) ↔ a ∈ names fs ∨ a = name := by
  unfold write
  split
  · rename_i h
    have hin : name ∈ names fs := by
      obtain ⟨f, hf, hfe⟩ := List.any_eq_true.mp h
      exact List.mem_map.mpr ⟨f, hf, by simpa using hfe⟩
    have : names (fs.map (fun f => if f.1 == name then (name, content) else f)) = names fs := by
      unfold names
      rw [List.map_map]
      apply List.map_congr_left
      intro f _
      simp only [Function.comp]
      split
      · rename_i h; simpa using (beq_iff_eq.mp h).symm
      · rfl
    rw [this]
    constructor
    · exact Or.inl
    · rintro (h | h)
      · exact h
      · rw [h]; exact hin
  · unfold names; simp

theorem names_cleanup_nodup {fs : FS} (hn : (names fs).Nodup) (max : Option Nat) :
    (names (cleanupWith cand key max fs)).Nodup := by
  cases max with
  | none => exact hn
  | some m => rw [names_cleanup]; exact hn.filter _

end IB.Checkpoint

namespace IB.Checkpoint

/-! ## reading back what was written -/

variable (cand : Name → Bool) (key : Name → Nat)

theorem read_write_same (fs : FS) (name : Name) (content : Bytes) :
    read (write fs name content) name = some content := by
  unfold write read
  split
  · rename_i h
    induction fs with
    | nil => simp at h
    | cons f r ih =>
      simp only [List.map_cons, List.find?_cons]
      by_cases hf : (f.1 == name) = true
      · simp [hf]
      · have hf' : (f.1 == name) = false := by simpa using hf
        simp only [hf', Bool.false_eq_true, if_false]
        simp only [List.any_cons, hf', Bool.false_or] at h
        exact ih h
  · rename_i h
    have hnone : fs.find? (fun f => f.1 == name) = none := by
      apply List.find?_eq_none.mpr
      intro f hf hfe
      exact h (List.any_eq_true.mpr ⟨f, hf, hfe⟩)
    simp [List.find?_append, hnone]

theorem read_filter_of_keep (fs : FS) (p : Name → Bool) (name : Name) (hp : p name = true) :
    read (fs.filter (fun f => p f.1)) name = read fs name := by
  unfold read
  induction fs with
  | nil => rfl
  | cons f r ih =>
    by_cases hf : (f.1 == name) = true
    · have hfn : f.1 = name := by simpa using hf
      have hk : p f.1 = true := by rw [hfn]; exact hp
      simp [hk, hf]
    · have hf' : (f.1 == name) = false := by simpa using hf
      by_cases hk : p f.1 = true
      · simp only [List.filter_cons, hk, if_true, List.find?_cons, hf']; exact ih
      · simp only [List.filter_cons, hk, Bool.false_eq_true, if_false, List.find?_cons, hf']; exact ih

theorem read_cleanup_of_mem (max : Option Nat) (fs : FS) (name : Name)
    (h : name ∈ names (cleanupWith cand key max fs)) :
    read (cleanupWith cand key max fs) name = read fs name := by
  cases max with
  | none => rfl
  | some m =>
    have hp : (fun n => !(doomed cand key m (names fs)).contains n) name = true := by
      rw [names_cleanup] at h
      exact (List.mem_filter.mp h).2
    unfold cleanupWith
    exact read_filter_of_keep fs (fun n => !(doomed cand key m (names fs)).contains n) name hp

end IB.Checkpoint
