import IbModel.Proofs.ElementwiseTyped
/-!
# C02 helpers (6): the typed run the driver evaluates (`PIPEW` requests)

`typedChain` is the literal chain of a program over TWO element types (tags), built from the definitions of
`Proofs/ElementwiseTyped.lean` (`typedSource`, `TStep.toOp = typedOp tin tout …`); the driver runs it through the
same planner and engines as every pipeline, in parallel mode with the terminal concatenation `concatT`
(`exec_par` downcasts every part to the SAME `Vec<T>`; `none` = a downcast failed somewhere).
Main result: `typed_par_eq_seq` — for every partition count the parallel typed run returns exactly what the
sequential typed run returns, the downcast panic included.
-/
namespace IB

def tagIs (t : Nat) : TPart → Bool
  | some (t', _) => t' == t
  | none => false

def rowsOf : TPart → List Val
  | some (_, r) => r
  | none => []

/-- terminal concatenation of typed partitions: all parts present and of one element type, else `none` -/
def concatT : List TPart → TPart
  | [] => none
  | none :: _ => none
  | some (t, r) :: rest => if rest.all (tagIs t) then some (t, r ++ (rest.map rowsOf).flatten) else none

/-- the literal chain of a typed program: one `Stateless` node per builder call -/
def typedChain (t0 : Nat) (xs : List Val) (steps : List TStep) : List (Node TPart) :=
  typedSource t0 xs :: (steps.map TStep.toOp).map (fun o => .stateless [o])

theorem typedChain_eq (t0 : Nat) (xs : List Val) (steps : List TStep) :
    typedChain t0 xs steps = typedSource t0 xs :: singles (steps.map TStep.toOp) := rfl

theorem concatT_single (p : TPart) : concatT [p] = p := by
  cases p with
  | none => rfl
  | some tr => obtain ⟨t, r⟩ := tr; simp [concatT]

theorem typedOp_none (tin tout : Nat) (op : DynOp Part) : (typedOp tin tout op).apply none = none := rfl
theorem typedOp_some (tin tout : Nat) (op : DynOp Part) (t : Nat) (r : List Val) :
    (typedOp tin tout op).apply (some (t, r)) = if t = tin then some (tout, op.apply r) else none := rfl

/-- a downcasting operator commutes with the typed concatenation whenever its closure commutes with `flatten` -/
theorem typedOp_concatT (tin tout : Nat) (op : DynOp Part)
    (hop : ∀ ps : List Part, op.apply ps.flatten = (ps.map op.apply).flatten) (ps : List TPart) :
    (typedOp tin tout op).apply (concatT ps) = concatT (ps.map (typedOp tin tout op).apply) := by
  cases ps with
  | nil => rfl
  | cons p rest =>
    cases p with
    | none => rfl
    | some tr =>
      obtain ⟨t, r⟩ := tr
      by_cases hall : rest.all (tagIs t) = true
      · -- every part carries the tag `t`
        have hL : concatT (some (t, r) :: rest) = some (t, r ++ (rest.map rowsOf).flatten) := by
          simp [concatT, hall]
        rw [hL, typedOp_some, List.map_cons, typedOp_some]
        by_cases ht : t = tin
        · subst ht
          simp only [↓reduceIte]
          have hq : ∀ q ∈ rest, (typedOp t tout op).apply q = some (tout, op.apply (rowsOf q)) := by
            intro q hqm
            have := List.all_eq_true.mp hall q hqm
            cases q with
            | none => simp [tagIs] at this
            | some tr' =>
              obtain ⟨t', r'⟩ := tr'
              simp only [tagIs, beq_iff_eq] at this
              subst this
              simp [typedOp_some, rowsOf]
          have hall2 : (rest.map (typedOp t tout op).apply).all (tagIs tout) = true := by
            rw [List.all_eq_true]
            intro q hqm
            obtain ⟨q0, hq0, rfl⟩ := List.mem_map.mp hqm
            rw [hq q0 hq0]; simp [tagIs]
          have hrows : (rest.map (typedOp t tout op).apply).map rowsOf = (rest.map rowsOf).map op.apply := by
            rw [List.map_map, List.map_map]
            apply List.map_congr_left
            intro q hq0
            simp [Function.comp, hq q hq0, rowsOf]
          simp only [concatT, hall2, ↓reduceIte, hrows]
          have := hop (r :: rest.map rowsOf)
          simp only [List.flatten_cons, List.map_cons] at this
          rw [this]
        · simp [ht, concatT]
      · have hall' : rest.all (tagIs t) = false := by simpa using hall
        have hL : concatT (some (t, r) :: rest) = none := by simp [concatT, hall']
        rw [hL, typedOp_none, List.map_cons, typedOp_some]
        by_cases ht : t = tin
        · subst ht
          simp only [↓reduceIte]
          have : (rest.map (typedOp t tout op).apply).all (tagIs tout) = false := by
            rw [List.all_eq_false] at hall' ⊢
            obtain ⟨q, hq, hqt⟩ := hall'
            refine ⟨(typedOp t tout op).apply q, List.mem_map.mpr ⟨q, hq, rfl⟩, ?_⟩
            cases q with
            | none => simp [typedOp_none, tagIs]
            | some tr' =>
              obtain ⟨t', r'⟩ := tr'
              have hne : ¬ t' = t := by simpa [tagIs] using hqt
              simp [typedOp_some, hne, tagIs]
          simp [concatT, this]
        · simp [ht, concatT]

theorem vecSplit_ne_nil (xs : List Val) (n : Nat) : vecSplit xs n ≠ [] := by
  intro h
  have hf := vecSplit_flatten' xs n
  rw [h] at hf
  have hx : xs = [] := by simpa using hf.symm
  subst hx
  simp [vecSplit] at h

/-- the typed source meets the source contract w.r.t. `concatT`, for every requested partition count -/
theorem typedSource_split (t0 : Nat) (xs : List Val) (k : Nat) :
    concatT ((vecSplit xs k).map (fun p => some (t0, p))) = some (t0, xs) := by
  have hf := vecSplit_flatten' xs k
  have hne := vecSplit_ne_nil xs k
  cases hv : vecSplit xs k with
  | nil => exact absurd hv hne
  | cons p rest =>
    rw [hv] at hf
    have hall : (rest.map (fun p => (some (t0, p) : TPart))).all (tagIs t0) = true := by
      rw [List.all_eq_true]
      intro q hq
      obtain ⟨q0, _, rfl⟩ := List.mem_map.mp hq
      simp [tagIs]
    have hrows : (rest.map (fun p => (some (t0, p) : TPart))).map rowsOf = rest := by
      rw [List.map_map]
      have : (rowsOf ∘ fun p => (some (t0, p) : TPart)) = id := by funext p; rfl
      rw [this, List.map_id]
    simp only [List.map_cons, concatT, hall, ↓reduceIte, hrows]
    simp only [List.flatten_cons] at hf
    rw [hf]

/-- the shape of the planned chain of single-operator nodes (any partition type, any operators) -/
theorem optimise_source_singles {P : Type} (w : P) (len : Nat) (split : Nat → List P) (ops : List (DynOp P)) :
    optimise (.source w len split :: singles ops)
      = if ops = [] then [.source w len split] else [.source w len split, .stateless (reorderBlock ops)] := by
  unfold optimise
  rw [fuse_source]
  by_cases h : ops = []
  · subst h; rfl
  · rw [fuse_singles ops h, if_neg h]; rfl

/-- parallel = sequential for the PLANNED chain of arbitrary single-operator nodes whose operators commute with
    the concatenation (any partition type) -/
theorem execPar_optimise_singles {P : Type} (concat : List P → P) (hc1 : ∀ p, concat [p] = p)
    (w : P) (len : Nat) (split : Nat → List P) (hsplit : ∀ k, concat (split k) = w) (ops : List (DynOp P))
    (hops : ∀ op ∈ ops, ∀ ps, op.apply (concat ps) = concat (ps.map op.apply)) (n : Nat) :
    execPar concat (optimise (.source w len split :: singles ops)) n
      = execSeq (optimise (.source w len split :: singles ops)) := by
  rw [optimise_source_singles]
  split
  · exact execPar_eq_execSeq concat hc1 w len split hsplit [] (by simp) n
  · refine execPar_eq_execSeq concat hc1 w len split hsplit _ ?_ n
    intro nd hnd
    simp only [List.mem_singleton] at hnd
    subst hnd
    intro op hop
    exact hops op ((reorderBlock_is_perm ops).mem_iff.mp hop)

/-- **the typed run is mode-independent**: for every type assignment (type-checked or not), every input and
    every partition count, the parallel run of the planned typed chain returns what the sequential run returns —
    the same rows with the same element type, or the same downcast panic (`none`) -/
theorem typed_par_eq_seq (t0 : Nat) (xs : List Val) (steps : List TStep)
    (hp : ∀ s ∈ steps, s.step.ParOK) (n : Nat) :
    execPar concatT (optimise (typedChain t0 xs steps)) n = execSeq (optimise (typedChain t0 xs steps)) := by
  rw [typedChain_eq]
  unfold typedSource
  refine execPar_optimise_singles concatT concatT_single _ _ _ (typedSource_split t0 xs) _ ?_ n
  intro op hop ps
  obtain ⟨s, hs, rfl⟩ := List.mem_map.mp hop
  exact typedOp_concatT s.tin s.tout s.step.toOp (toOp_flatten s.step (hp s hs)) ps

end IB
