import IbModel.Model.Io
import IbModel.Proofs.Io
/-!
# Helper lemmas for C09, third round: Parquet batch arithmetic, the directory model of the parallel
writers, the integer line codec. Core Lean only.
-/
namespace IB.Io

/-! ## `readAll` over a concatenation -/

theorem readAll_append {Line Rec : Type} (blank : Line → Bool) (de : Line → Option Rec)
    (xs ys : List Line) :
    readAll blank de (xs ++ ys) =
      (readAll blank de xs).bind fun a => (readAll blank de ys).map (a ++ ·) := by
  induction xs with
  | nil =>
    simp only [List.nil_append, readAll, Option.bind_some]
    cases readAll blank de ys <;> simp
  | cons x xs ih =>
    simp only [List.cons_append, readAll]
    cases hb : blank x
    · simp only [Bool.false_eq_true, if_false]
      cases hd : de x with
      | none => simp
      | some r =>
        simp only [ih]
        cases readAll blank de xs <;> cases readAll blank de ys <;> simp
    · simp only [if_true, ih]

/-! ## Parquet -/

section parquetIO
variable {Row Rec : Type}

/-- row-wise decoding of a list of stored rows -/
def decRows (decRow : Row → Option Rec) : List Row → Option (List Rec) :=
  readAll (fun _ => false) decRow

theorem pqBatches_flatten (b : Nat) (rows : List Row) : (pqBatches b rows).flatten = rows := by
  unfold pqBatches
  exact chunksFuel_flatten _ (by omega) _ _ (Nat.le_refl _)

theorem pqGroups_flatten (m : Nat) (rows : List Row) : (pqGroups m rows).flatten = rows := by
  unfold pqGroups
  exact chunksFuel_flatten _ (by omega) _ _ (Nat.le_refl _)

/-- whatever the batch boundaries are, appending the decoded batches = decoding all rows -/
theorem readBatches_flatten (dec : List Row → Option (List Rec)) (decRow : Row → Option Rec)
    (hdec : ∀ batch, dec batch = decRows decRow batch) :
    ∀ bs : List (List Row), readBatches dec bs = decRows decRow bs.flatten := by
  intro bs
  induction bs with
  | nil => simp [readBatches, readAll, decRows]
  | cons b bs ih =>
    rw [List.flatten_cons]
    unfold decRows at *
    rw [readAll_append, readBatches, hdec b, ih]
    cases readAll (fun _ => false) decRow b <;> simp

theorem groupRows_all (groups : List (List Row)) :
    groupRows groups 0 groups.length = groups.flatten := by
  simp [groupRows]

theorem groupRows_split (groups : List (List Row)) (a m b : Nat) (h1 : a ≤ m) (h2 : m ≤ b) :
    groupRows groups a m ++ groupRows groups m b = groupRows groups a b := by
  unfold groupRows
  rw [← List.flatten_append, take_drop_append groups a m b h1 h2]

theorem decRows_chain (decRow : Row → Option Rec) (groups : List (List Row)) {a b : Nat}
    {rs : List (Nat × Nat)} (h : Chain a b rs) :
    (rs.mapM fun r => decRows decRow (groupRows groups r.1 r.2)).map List.flatten =
      decRows decRow (groupRows groups a b) := by
  induction h with
  | nil a =>
    simp [groupRows, readAll, decRows]
  | @cons a m b rs h1 h2 ih =>
    have hmb := h2.le
    rw [List.mapM_cons, ← groupRows_split groups a m b h1 hmb]
    unfold decRows at *
    rw [readAll_append, ← ih]
    cases readAll (fun _ => false) decRow (groupRows groups a m) <;>
      cases (rs.mapM fun r => readAll (fun _ => false) decRow (groupRows groups r.1 r.2)) <;> simp

end parquetIO

/-! ## the directory model -/

section parfs
variable {α : Type}

/-- what `writeParts` leaves behind: every listed part holds its slice, everything else is untouched -/
theorem writeParts_spec (ser : α → List Char) (part : Nat → String)
    (hinj : ∀ i j, part i = part j → i = j) (data : List α) :
    ∀ (bs : List (Nat × Nat × Nat)) (fs : Fs) (parts : List (List α)),
      (bs.map (·.1)).Nodup →
      bs.mapM (fun b => slice? data b.2.1 b.2.2) = some parts →
      ∃ fs1, writeParts ser part data bs fs = some fs1 ∧
        concatParts part fs1 (bs.map (·.1)) = some ((parts.map (writeJsonl ser)).flatten) ∧
        (∀ q, (∀ b ∈ bs, q ≠ part b.1) → fs1 q = fs q) := by
  intro bs
  induction bs with
  | nil =>
    intro fs parts _ hp
    simp only [List.mapM_nil] at hp
    cases hp
    exact ⟨fs, rfl, rfl, fun _ _ => rfl⟩
  | cons b bs ih =>
    intro fs parts hnd hp
    rw [List.map_cons, List.nodup_cons] at hnd
    rw [List.mapM_cons] at hp
    cases hs : slice? data b.2.1 b.2.2 with
    | none => rw [hs] at hp; simp at hp
    | some xs =>
      rw [hs] at hp
      cases hr : bs.mapM (fun b => slice? data b.2.1 b.2.2) with
      | none => rw [hr] at hp; simp at hp
      | some rest =>
        rw [hr] at hp
        simp only [Option.bind_eq_bind, Option.bind_some, Option.pure_def, Option.some.injEq] at hp
        subst hp
        obtain ⟨fs1, hw, hc, hu⟩ := ih (fsCreate fs (part b.1) (writeJsonl ser xs)) rest hnd.2 hr
        refine ⟨fs1, ?_, ?_, ?_⟩
        · simp only [writeParts, hs, hw]
        · have hb : fs1 (part b.1) = some (writeJsonl ser xs) := by
            rw [hu (part b.1)]
            · simp [fsCreate]
            · intro b' hb' heq
              have := hinj _ _ heq
              exact hnd.1 (this ▸ List.mem_map_of_mem hb')
          simp only [List.map_cons, concatParts, hb, hc, List.flatten_cons, Option.map_some]
        · intro q hq
          rw [hu q (fun b' hb' => hq b' (List.mem_cons_of_mem _ hb'))]
          have : q ≠ part b.1 := hq b (List.mem_cons_self ..)
          simp [fsCreate, this]

theorem concatParts_congr (part : Nat → String) (fs fs' : Fs) :
    ∀ is : List Nat, (∀ i ∈ is, fs' (part i) = fs (part i)) →
      concatParts part fs' is = concatParts part fs is := by
  intro is
  induction is with
  | nil => intro _; rfl
  | cons i is ih =>
    intro h
    simp only [concatParts, h i (List.mem_cons_self ..),
      ih (fun j hj => h j (List.mem_cons_of_mem _ hj))]

theorem removeParts_spec (part : Nat → String) :
    ∀ (is : List Nat) (fs : Fs) (q : String),
      removeParts part is fs q = if ∃ i ∈ is, q = part i then none else fs q := by
  intro is
  induction is with
  | nil => intro fs q; simp [removeParts]
  | cons i is ih =>
    intro fs q
    rw [removeParts, ih]
    by_cases h1 : ∃ j ∈ is, q = part j
    · have : ∃ j ∈ i :: is, q = part j := by
        obtain ⟨j, hj, hq⟩ := h1
        exact ⟨j, List.mem_cons_of_mem _ hj, hq⟩
      rw [if_pos h1, if_pos this]
    · rw [if_neg h1]
      by_cases h2 : q = part i
      · have : ∃ j ∈ i :: is, q = part j := ⟨i, List.mem_cons_self .., h2⟩
        rw [if_pos this]
        simp [fsRemove, h2]
      · have : ¬ ∃ j ∈ i :: is, q = part j := by
          rintro ⟨j, hj, hq⟩
          rcases List.mem_cons.mp hj with rfl | hj
          · exact h2 hq
          · exact h1 ⟨j, hj, hq⟩
        rw [if_neg this]
        simp [fsRemove, h2]

theorem jsonlShardBounds_idx (n sc : Nat) :
    (jsonlShardBounds n sc).map (·.1) = List.range sc := by
  unfold jsonlShardBounds
  simp [List.map_map, Function.comp_def]

end parfs

/-! ## the integer line codec -/

theorem digit_toNat (d : Nat) (h : d < 10) : (Char.ofNat (48 + d)).toNat - 48 = d := by
  have : d = 0 ∨ d = 1 ∨ d = 2 ∨ d = 3 ∨ d = 4 ∨ d = 5 ∨ d = 6 ∨ d = 7 ∨ d = 8 ∨ d = 9 := by omega
  rcases this with rfl | rfl | rfl | rfl | rfl | rfl | rfl | rfl | rfl | rfl <;> decide

theorem digit_isDigit (d : Nat) (h : d < 10) : (Char.ofNat (48 + d)).isDigit = true := by
  have : d = 0 ∨ d = 1 ∨ d = 2 ∨ d = 3 ∨ d = 4 ∨ d = 5 ∨ d = 6 ∨ d = 7 ∨ d = 8 ∨ d = 9 := by omega
  rcases this with rfl | rfl | rfl | rfl | rfl | rfl | rfl | rfl | rfl | rfl <;> decide

theorem digit_zero_iff (d : Nat) (h : d < 10) : Char.ofNat (48 + d) = '0' ↔ d = 0 := by
  have : d = 0 ∨ d = 1 ∨ d = 2 ∨ d = 3 ∨ d = 4 ∨ d = 5 ∨ d = 6 ∨ d = 7 ∨ d = 8 ∨ d = 9 := by omega
  rcases this with rfl | rfl | rfl | rfl | rfl | rfl | rfl | rfl | rfl | rfl <;> decide

/-- facts about a digit character that the codec laws need -/
theorem isDigit_facts (c : Char) (h : c.isDigit = true) :
    jsonWs c = false ∧ isWhiteSpace c = false ∧ c ≠ '\n' ∧ c ≠ '\r' ∧ c ≠ '-' := by
  have h' : 48 ≤ c.val ∧ c.val ≤ 57 := by
    simpa [Char.isDigit] using h
  have hn : 48 ≤ c.toNat ∧ c.toNat ≤ 57 := by
    constructor
    · exact UInt32.le_iff_toNat_le.mp h'.1
    · exact UInt32.le_iff_toNat_le.mp h'.2
  refine ⟨?_, ?_, ?_, ?_, ?_⟩
  · unfold jsonWs
    have e1 : c ≠ ' ' := by rintro rfl; simp at hn
    have e2 : c ≠ '\t' := by rintro rfl; simp at hn
    have e3 : c ≠ '\n' := by rintro rfl; simp at hn
    have e4 : c ≠ '\r' := by rintro rfl; simp at hn
    simp [e1, e2, e3, e4]
  · unfold isWhiteSpace
    simp only [Bool.or_eq_false_iff, Bool.and_eq_false_iff, decide_eq_false_iff_not, beq_eq_false_iff_ne]
    omega
  · rintro rfl; simp at hn
  · rintro rfl; simp at hn
  · rintro rfl; simp at hn

theorem serNat_spec : ∀ n : Nat,
    (serNat n).all Char.isDigit = true ∧ parseDigits (serNat n) = n ∧ serNat n ≠ [] ∧
    ((serNat n).length > 1 → (serNat n).head? ≠ some '0') := by
  intro n
  induction n using Nat.strongRecOn with
  | _ n ih =>
    rw [serNat]
    split
    · next h =>
      refine ⟨by simp [digit_isDigit n h], by simp [parseDigits, digit_toNat n h], by simp, by simp⟩
    · next h =>
      have hlt : n / 10 < n := by omega
      obtain ⟨h1, h2, h3, h4⟩ := ih (n / 10) hlt
      have hd : n % 10 < 10 := Nat.mod_lt _ (by omega)
      refine ⟨?_, ?_, by simp, ?_⟩
      · simp [h1, digit_isDigit _ hd]
      · unfold parseDigits at h2 ⊢
        rw [List.foldl_append, h2]
        simp only [List.foldl_cons, List.foldl_nil, digit_toNat _ hd]
        omega
      · intro _
        cases hs : serNat (n / 10) with
        | nil => exact absurd hs h3
        | cons c cs =>
          simp only [List.cons_append, List.head?_cons, ne_eq, Option.some.injEq]
          intro hc
          subst hc
          by_cases hl : (serNat (n / 10)).length > 1
          · have := h4 hl
            rw [hs] at this
            simp at this
          · -- single digit `0` would mean n / 10 = 0
            rw [hs] at hl h2
            have hcs : cs = [] := by
              cases cs with
              | nil => rfl
              | cons _ _ => simp at hl
            subst hcs
            simp [parseDigits] at h2
            omega

theorem dropWhile_of_head {α : Type} (p : α → Bool) (a : α) (l : List α) (h : p a = false) :
    (a :: l).dropWhile p = a :: l := by
  simp [List.dropWhile, h]

theorem trimJsonWs_id (l : List Char) (a z : Char) (m : List Char) (hl : l = a :: m)
    (hz : l.getLast? = some z) (ha : jsonWs a = false) (hzz : jsonWs z = false) :
    trimJsonWs l = l := by
  unfold trimJsonWs
  subst hl
  rw [dropWhile_of_head _ _ _ ha]
  cases hr : (a :: m).reverse with
  | nil => simp at hr
  | cons y t =>
    have hh : (a :: m).reverse.head? = some z := by rw [List.head?_reverse]; exact hz
    rw [hr] at hh
    simp only [List.head?_cons, Option.some.injEq] at hh
    subst hh
    rw [dropWhile_of_head _ _ _ hzz, ← hr, List.reverse_reverse]

theorem all_digits_getLast (l : List Char) (h : l.all Char.isDigit = true) (hne : l ≠ []) :
    ∃ z, l.getLast? = some z ∧ z.isDigit = true := by
  refine ⟨l.getLast hne, List.getLast?_eq_some_getLast hne, ?_⟩
  exact (List.all_eq_true.mp h) _ (List.getLast_mem hne)

theorem deInt_of_digits (neg : Bool) (ds : List Char) (hd : ds.all Char.isDigit = true) (hne : ds ≠ [])
    (hlz : ds.length > 1 → ds.head? ≠ some '0') (hn0 : neg = true → parseDigits ds ≠ 0)
    (hr : (if neg then - (Int.ofNat (parseDigits ds)) else Int.ofNat (parseDigits ds)) ≥ -9223372036854775808 ∧
          (if neg then - (Int.ofNat (parseDigits ds)) else Int.ofNat (parseDigits ds)) ≤ 9223372036854775807) :
    deInt (if neg then '-' :: ds else ds) =
      some (if neg then - (Int.ofNat (parseDigits ds)) else Int.ofNat (parseDigits ds)) := by
  obtain ⟨z, hz, hzd⟩ := all_digits_getLast ds hd hne
  cases ds with
  | nil => exact absurd rfl hne
  | cons a m =>
    have had : a.isDigit = true := (List.all_eq_true.mp hd) a (List.mem_cons_self ..)
    have fa := isDigit_facts a had
    have fz := isDigit_facts z hzd
    cases neg with
    | false =>
      simp only [Bool.false_eq_true, if_false] at hr ⊢
      unfold deInt
      simp only [trimJsonWs_id (a :: m) a z m rfl hz fa.1 fz.1]
      split
      · next r heq =>
        simp only [List.cons.injEq] at heq
        exact absurd heq.1 fa.2.2.2.2
      · next heq =>
        split
        · next h => simp [hd] at h
        · split
          · next h =>
            simp only [Bool.and_eq_true, decide_eq_true_eq, beq_iff_eq] at h
            exact absurd h.2 (hlz h.1)
          · simp only [Bool.false_and, Bool.false_eq_true, if_false]
            split
            · next h =>
              simp only [Bool.or_eq_true, decide_eq_true_eq] at h
              omega
            · rfl
    | true =>
      simp only [if_true] at hr ⊢
      unfold deInt
      have hz' : ('-' :: a :: m).getLast? = some z := by
        rw [List.getLast?_cons_cons]; exact hz
      simp only [trimJsonWs_id ('-' :: a :: m) '-' z (a :: m) rfl hz' (by decide) fz.1]
      split
      · next h => simp [hd] at h
      · split
        · next h =>
          simp only [Bool.and_eq_true, decide_eq_true_eq, beq_iff_eq] at h
          exact absurd h.2 (hlz h.1)
        · split
          · next h =>
            simp only [Bool.true_and, beq_iff_eq] at h
            exact absurd h (hn0 rfl)
          · simp only [if_true]
            split
            · next h =>
              simp only [Bool.or_eq_true, decide_eq_true_eq] at h
              omega
            · rfl

end IB.Io
