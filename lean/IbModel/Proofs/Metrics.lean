import IbModel.Model.Metrics
/-! Helper lemmas for C16 (association list, counters, one scheduler step). -/
namespace IB.Metrics

/-! ## the association list -/

theorem lookup_insert_self (k : String) (v : MetricVal) (l : List (String × MetricVal)) :
    lookup k (insert k v l) = some v := by
  induction l with
  | nil => simp [insert, lookup]
  | cons h t ih =>
    obtain ⟨k', v'⟩ := h
    by_cases hk : k' = k
    · simp [insert, lookup, hk]
    · simp [insert, lookup, hk, ih]

theorem lookup_insert_ne {k k' : String} (v : MetricVal) (l : List (String × MetricVal)) (h : k' ≠ k) :
    lookup k (insert k' v l) = lookup k l := by
  induction l with
  | nil => simp [insert, lookup, h]
  | cons hd t ih =>
    obtain ⟨k'', v''⟩ := hd
    by_cases hk : k'' = k'
    · subst hk; simp [insert, lookup, h]
    · by_cases hk2 : k'' = k
      · subst hk2; simp [insert, lookup, hk]
      · simp [insert, lookup, hk, hk2, ih]

theorem mem_keys_insert_self (k : String) (v : MetricVal) (l : List (String × MetricVal)) :
    k ∈ (insert k v l).map Prod.fst := by
  induction l with
  | nil => simp [insert]
  | cons h t ih =>
    obtain ⟨k', v'⟩ := h
    by_cases hk : k' = k
    · simp [insert, hk]
    · simp only [insert, hk, if_false, List.map_cons, List.mem_cons]; exact Or.inr ih

theorem mem_keys_insert_of_mem {x : String} (k : String) (v : MetricVal) (l : List (String × MetricVal))
    (hx : x ∈ l.map Prod.fst) : x ∈ (insert k v l).map Prod.fst := by
  induction l with
  | nil => simp at hx
  | cons h t ih =>
    obtain ⟨k', v'⟩ := h
    by_cases hk : k' = k
    · subst hk; simpa [insert] using hx
    · simp only [insert, hk, if_false, List.map_cons, List.mem_cons] at hx ⊢
      rcases hx with h1 | h2
      · exact Or.inl h1
      · exact Or.inr (ih h2)

/-! ## `keysOf` never shrinks -/

theorem keysOf_insertSec_self (k : String) (m : MetricVal) (c : Collector) : k ∈ keysOf (insertSec k m c) :=
  mem_keys_insert_self k m c.metrics

theorem keysOf_insertSec_mono {x : String} (k : String) (m : MetricVal) (c : Collector)
    (hx : x ∈ keysOf c) : x ∈ keysOf (insertSec k m c) :=
  mem_keys_insert_of_mem k m c.metrics hx

theorem keysOf_incAtomic_mono {x : String} (k : String) (v : Nat) (c : Collector)
    (hx : x ∈ keysOf c) : x ∈ keysOf (incAtomic k v c) := by
  unfold incAtomic
  split
  · exact keysOf_insertSec_mono _ _ _ hx
  · exact hx
  · exact keysOf_insertSec_mono _ _ _ hx

theorem keysOf_applyOp_mono {x : String} (now : Nat) (op : Op) (c : Collector)
    (hx : x ∈ keysOf c) : x ∈ keysOf (applyOp now op c) := by
  cases op with
  | inc k v => exact keysOf_incAtomic_mono k v c hx
  | set k v => exact keysOf_insertSec_mono _ _ _ hx
  | register k m => exact keysOf_insertSec_mono _ _ _ hx
  | recordStart => exact hx
  | recordEnd => exact hx
  | readElapsed => exact hx
  | toJson => exact hx
  | snapshot => exact hx

theorem keysOf_incSplit_mono {x : String} (k : String) (v : Nat) (c : Collector)
    (hx : x ∈ keysOf c) : x ∈ keysOf (Legacy.incSplit k v c).1 := by
  unfold Legacy.incSplit
  split
  · exact hx
  · exact hx
  · exact keysOf_insertSec_mono _ _ _ hx

theorem firstSection_atomic (now : Nat) (op : Op) (c : Collector) :
    firstSection .atomic now op c = (applyOp now op c, none) := by
  cases op <;> rfl

theorem firstSection_register (impl : Impl) (now : Nat) (k : String) (m : MetricVal) (c : Collector) :
    firstSection impl now (.register k m) c = (register k m c, none) := by
  cases impl <;> rfl

theorem keysOf_firstSection_mono {x : String} (impl : Impl) (now : Nat) (op : Op) (c : Collector)
    (hx : x ∈ keysOf c) : x ∈ keysOf (firstSection impl now op c).1 := by
  cases impl with
  | atomic => rw [firstSection_atomic]; exact keysOf_applyOp_mono now op c hx
  | legacySplit =>
    cases op with
    | inc k v => exact keysOf_incSplit_mono k v c hx
    | set k v => exact keysOf_insertSec_mono _ _ _ hx
    | register k m => exact keysOf_insertSec_mono _ _ _ hx
    | recordStart => exact hx
    | recordEnd => exact hx
    | readElapsed => exact hx
    | toJson => exact hx
    | snapshot => exact hx

theorem mem_jsonKeys_of_mem_keysOf {x : String} (c : Collector) (hx : x ∈ keysOf c) : x ∈ jsonKeys c := by
  unfold jsonKeys
  simp only
  split
  · split
    · exact hx
    · exact List.mem_append_left _ hx
  · exact hx

theorem execKey_mem_jsonKeys (c : Collector) (hs : c.start.isSome = true) (he : c.stop.isSome = true) :
    execKey ∈ jsonKeys c := by
  unfold jsonKeys
  simp only [hs, he, Bool.and_self, if_true]
  cases h : (c.metrics.map Prod.fst).contains execKey
  · simp
  · simpa using h

/-! ## counters -/

/-- the name is absent or holds a counter (an increment of a metric of another type is ignored) -/
def CounterOrAbsent (k : String) (c : Collector) : Prop := ∀ t, lookup k c.metrics ≠ some (.other t)

/-- does the call write the metric `k`? -/
def touches (k : String) : Op → Bool
  | .inc k' _ => k' == k
  | .set k' _ => k' == k
  | .register k' _ => k' == k
  | _ => false

/-- the only calls that write `k` are increments of `k` -/
def IncOnlyOn (k : String) (op : Op) : Prop := touches k op = true → ∃ v, op = .inc k v

/-- amount by which the call increments `k` -/
def incAmt (k : String) : Op → Nat
  | .inc k' v => if k' = k then v else 0
  | _ => 0

def incSum (k : String) (ops : List Op) : Nat := (ops.map (incAmt k)).sum

theorem counterVal_insertSec_self (k : String) (n : Nat) (c : Collector) :
    counterVal k (insertSec k (.counter n) c) = n := by
  simp [counterVal, insertSec, lookup_insert_self]

theorem lookup_insertSec_ne {k k' : String} (m : MetricVal) (c : Collector) (h : k' ≠ k) :
    lookup k (insertSec k' m c).metrics = lookup k c.metrics := by
  simp [insertSec, lookup_insert_ne _ _ h]

/-- one whole call: if the only writers of `k` are increments, the counter `k` grows by exactly the
    increment and stays a counter. -/
theorem applyOp_counter (k : String) (now : Nat) (op : Op) (c : Collector)
    (hk : CounterOrAbsent k c) (hop : IncOnlyOn k op) :
    CounterOrAbsent k (applyOp now op c) ∧
      counterVal k (applyOp now op c) = counterVal k c + incAmt k op := by
  have keep : ∀ c' : Collector, lookup k c'.metrics = lookup k c.metrics →
      CounterOrAbsent k c' ∧ counterVal k c' = counterVal k c + 0 := by
    intro c' h
    refine ⟨fun t => by rw [h]; exact hk t, ?_⟩
    simp [counterVal, h]
  cases op with
  | inc k' v =>
    by_cases hkk : k' = k
    · subst hkk
      simp only [applyOp, incAmt, if_true, incAtomic]
      cases hl : lookup k' c.metrics with
      | none =>
        refine ⟨fun t => ?_, ?_⟩
        · simp [insertSec, lookup_insert_self]
        · rw [counterVal_insertSec_self]; simp [counterVal, hl]
      | some mv =>
        cases mv with
        | counter n =>
          refine ⟨fun t => ?_, ?_⟩
          · simp [insertSec, lookup_insert_self]
          · rw [counterVal_insertSec_self]; simp [counterVal, hl]
        | other t => exact absurd hl (hk t)
    · simp only [incAmt, hkk, if_false]
      apply keep
      simp only [applyOp, incAtomic]
      split
      · exact lookup_insertSec_ne _ _ hkk
      · rfl
      · exact lookup_insertSec_ne _ _ hkk
  | set k' v =>
    have hkk : k' ≠ k := by
      intro h; subst h
      obtain ⟨v', hv⟩ := hop (by simp [touches])
      cases hv
    exact keep _ (lookup_insertSec_ne _ _ hkk)
  | register k' m =>
    have hkk : k' ≠ k := by
      intro h; subst h
      obtain ⟨v', hv⟩ := hop (by simp [touches])
      cases hv
    exact keep _ (lookup_insertSec_ne _ _ hkk)
  | recordStart => exact keep _ rfl
  | recordEnd => exact keep _ rfl
  | readElapsed => exact keep _ rfl
  | toJson => exact keep _ rfl
  | snapshot => exact keep _ rfl

/-- a whole sequence of calls, one after the other -/
theorem replay_counter (k : String) (h : List Call) : ∀ (c : Collector),
    CounterOrAbsent k c → (∀ p ∈ h, IncOnlyOn k p.op) →
    CounterOrAbsent k (replay c h) ∧ counterVal k (replay c h) = counterVal k c + incSum k (h.map (·.op)) := by
  induction h with
  | nil => intro c hk _; exact ⟨hk, by simp [replay, incSum]⟩
  | cons p t ih =>
    intro c hk hops
    have h1 := applyOp_counter k p.time p.op c hk (hops p (List.mem_cons_self ..))
    have h2 := ih (applyOp p.time p.op c) h1.1 (fun q hq => hops q (List.mem_cons_of_mem _ hq))
    refine ⟨h2.1, ?_⟩
    have : replay c (p :: t) = replay (applyOp p.time p.op c) t := rfl
    rw [this, h2.2, h1.2]
    simp [incSum, List.sum_cons, Nat.add_assoc]

/-! ## threads -/

theorem todoAll_set_perm : ∀ (ths : List Thread) (i : Nat) (t t' : Thread) (op : Op) (rest : List Op),
    ths[i]? = some t → t.todo = op :: rest → t'.todo = rest →
    (todoAll ths).Perm (op :: todoAll (ths.set i t'))
  | [], i, t, t', op, rest, h, _, _ => by simp at h
  | x :: xs, 0, t, t', op, rest, h, h1, h2 => by
    simp only [List.getElem?_cons_zero, Option.some.injEq] at h
    subst h
    simp [todoAll, h1, h2]
  | x :: xs, i + 1, t, t', op, rest, h, h1, h2 => by
    simp only [List.getElem?_cons_succ] at h
    have ih := todoAll_set_perm xs i t t' op rest h h1 h2
    simp only [todoAll, List.map_cons, List.flatten_cons, List.set_cons_succ] at ih ⊢
    exact (List.Perm.append_left x.todo ih).trans List.perm_middle

theorem todoAll_set_same : ∀ (ths : List Thread) (i : Nat) (t t' : Thread),
    ths[i]? = some t → t'.todo = t.todo → todoAll (ths.set i t') = todoAll ths
  | [], i, t, t', h, _ => by simp at h
  | x :: xs, 0, t, t', h, h1 => by
    simp only [List.getElem?_cons_zero, Option.some.injEq] at h
    subst h
    simp [todoAll, h1]
  | x :: xs, i + 1, t, t', h, h1 => by
    simp only [List.getElem?_cons_succ] at h
    have ih := todoAll_set_same xs i t t' h h1
    simp only [todoAll, List.map_cons, List.flatten_cons, List.set_cons_succ] at ih ⊢
    rw [ih]

theorem todoAll_eq_nil_of_complete (ths : List Thread) (h : ths.all Thread.finished = true) :
    todoAll ths = [] := by
  induction ths with
  | nil => rfl
  | cons t ts ih =>
    simp only [List.all_cons, Bool.and_eq_true] at h
    have ht : t.todo = [] := by
      have := h.1
      simp only [Thread.finished, Bool.and_eq_true, List.isEmpty_iff] at this
      exact this.2
    simp only [todoAll, List.map_cons, List.flatten_cons, ht, List.nil_append]
    exact ih h.2

theorem todoAll_init (threads : List (List Op)) : todoAll (threads.map Thread.ofOps) = threads.flatten := by
  induction threads with
  | nil => rfl
  | cons t ts ih =>
    simp only [todoAll, List.map_cons, List.flatten_cons] at ih ⊢
    rw [ih]; rfl

/-! ## `to_json` with values -/

theorem getJ_map_metric (k : String) (l : List (String × MetricVal)) :
    getJ k (l.map (fun kv => (kv.1, JsonEntry.metric kv.2))) = (lookup k l).map JsonEntry.metric := by
  induction l with
  | nil => rfl
  | cons h t ih =>
    obtain ⟨k', v'⟩ := h
    by_cases hk : k' = k
    · simp [getJ, lookup, hk]
    · simp [getJ, lookup, hk, ih]

theorem getJ_putJ_self (k : String) (v : JsonEntry) (l : List (String × JsonEntry)) :
    getJ k (putJ k v l) = some v := by
  induction l with
  | nil => simp [putJ, getJ]
  | cons h t ih =>
    obtain ⟨k', v'⟩ := h
    by_cases hk : k' = k
    · simp [putJ, getJ, hk]
    · simp [putJ, getJ, hk, ih]

theorem getJ_putJ_ne {k k' : String} (v : JsonEntry) (l : List (String × JsonEntry)) (h : k' ≠ k) :
    getJ k (putJ k' v l) = getJ k l := by
  induction l with
  | nil => simp [putJ, getJ, h]
  | cons hd t ih =>
    obtain ⟨k'', v''⟩ := hd
    by_cases hk : k'' = k'
    · subst hk; simp [putJ, getJ, h]
    · by_cases hk2 : k'' = k
      · subst hk2; simp [putJ, getJ, hk]
      · simp [putJ, getJ, hk, hk2, ih]

theorem keys_putJ (k : String) (v : JsonEntry) (l : List (String × JsonEntry)) :
    (putJ k v l).map Prod.fst
      = if (l.map Prod.fst).contains k then l.map Prod.fst else l.map Prod.fst ++ [k] := by
  induction l with
  | nil => simp [putJ]
  | cons h t ih =>
    obtain ⟨k', v'⟩ := h
    by_cases hk : k' = k
    · subst hk; simp [putJ]
    · have hk' : (k == k') = false := by
        simp only [beq_eq_false_iff_ne, ne_eq]
        exact fun h => hk h.symm
      simp only [putJ, hk, if_false, List.map_cons, ih, List.contains_cons, hk', Bool.false_or]
      split <;> simp

theorem incAmt_le_incSum_of_mem (k : String) (op : Op) (ops : List Op) (h : op ∈ ops) :
    incAmt k op ≤ incSum k ops := by
  induction ops with
  | nil => simp at h
  | cons o t ih =>
    simp only [incSum, List.map_cons, List.sum_cons] at ih ⊢
    simp only [List.mem_cons] at h
    rcases h with rfl | h
    · omega
    · have := ih h; omega

/-! ## stamps and the shared cell -/

/-- the event neither empties the slot nor writes a stamp through the user's handle -/
def MidEvent.keepsStamps : MidEvent → Bool
  | .userOp .recordStart => false
  | .userOp .recordEnd => false
  | .userOp _ => true
  | .take => false

theorem incAtomic_stamps (k : String) (v : Nat) (c : Collector) :
    (incAtomic k v c).start = c.start ∧ (incAtomic k v c).stop = c.stop := by
  unfold incAtomic
  split <;> exact ⟨rfl, rfl⟩

theorem mid_keeps {γ : Type} (now : Nat) (p : SharedPipe γ) (ev : MidEvent) (h : ev.keepsStamps = true) :
    (p.mid now ev).attached = p.attached ∧ (p.mid now ev).cell.start = p.cell.start ∧
      (p.mid now ev).cell.stop = p.cell.stop ∧ (p.mid now ev).graph = p.graph := by
  cases ev with
  | take => simp [MidEvent.keepsStamps] at h
  | userOp op =>
    cases op with
    | inc k v => exact ⟨rfl, (incAtomic_stamps k v p.cell).1, (incAtomic_stamps k v p.cell).2, rfl⟩
    | set k v => exact ⟨rfl, rfl, rfl, rfl⟩
    | register k m => exact ⟨rfl, rfl, rfl, rfl⟩
    | recordStart => simp [MidEvent.keepsStamps] at h
    | recordEnd => simp [MidEvent.keepsStamps] at h
    | readElapsed => exact ⟨rfl, rfl, rfl, rfl⟩
    | toJson => exact ⟨rfl, rfl, rfl, rfl⟩
    | snapshot => exact ⟨rfl, rfl, rfl, rfl⟩

theorem mids_keep {γ : Type} (now : Nat) (mid : List MidEvent) : ∀ (p : SharedPipe γ),
    (∀ ev ∈ mid, ev.keepsStamps = true) →
    (mid.foldl (SharedPipe.mid now) p).attached = p.attached ∧
      (mid.foldl (SharedPipe.mid now) p).cell.start = p.cell.start ∧
      (mid.foldl (SharedPipe.mid now) p).cell.stop = p.cell.stop ∧
      (mid.foldl (SharedPipe.mid now) p).graph = p.graph := by
  induction mid with
  | nil => intro p _; exact ⟨rfl, rfl, rfl, rfl⟩
  | cons ev rest ih =>
    intro p h
    have h1 := mid_keeps now p ev (h ev (List.mem_cons_self ..))
    have h2 := ih (p.mid now ev) (fun e he => h e (List.mem_cons_of_mem _ he))
    simp only [List.foldl_cons]
    exact ⟨h2.1.trans h1.1, h2.2.1.trans h1.2.1, h2.2.2.1.trans h1.2.2.1, h2.2.2.2.trans h1.2.2.2⟩

/-! ## the histogram's sort: a permutation, ordered by `total_cmp` -/

/-- ordered by `f64::total_cmp` -/
def SortedTotal (l : List Nat) : Prop := l.Pairwise (fun a b => totalKey a ≤ totalKey b)

theorem insTotal_perm (x : Nat) (l : List Nat) : (insTotal x l).Perm (x :: l) := by
  induction l with
  | nil => exact List.Perm.refl _
  | cons y r ih =>
    unfold insTotal
    split
    · exact List.Perm.refl _
    · exact (List.Perm.cons y ih).trans (List.Perm.swap x y r)

theorem insTotal_sorted (x : Nat) (l : List Nat) (h : SortedTotal l) : SortedTotal (insTotal x l) := by
  induction l with
  | nil => simp [insTotal, SortedTotal]
  | cons y r ih =>
    unfold SortedTotal at h ih ⊢
    rw [List.pairwise_cons] at h
    unfold insTotal
    split
    · rename_i hlt
      rw [List.pairwise_cons]
      refine ⟨?_, List.pairwise_cons.mpr h⟩
      intro z hz
      simp only [List.mem_cons] at hz
      rcases hz with rfl | hz
      · omega
      · have := h.1 z hz; omega
    · rename_i hge
      rw [List.pairwise_cons]
      refine ⟨?_, ih h.2⟩
      intro z hz
      have hz' := (insTotal_perm x r).mem_iff.mp hz
      simp only [List.mem_cons] at hz'
      rcases hz' with rfl | hz'
      · omega
      · exact h.1 z hz'

theorem sortTotal_aux (l : List Nat) : ∀ acc : List Nat, SortedTotal acc →
    SortedTotal (l.foldl (fun acc x => insTotal x acc) acc) ∧
      (l.foldl (fun acc x => insTotal x acc) acc).Perm (l.reverse ++ acc) := by
  induction l with
  | nil => intro acc h; exact ⟨h, by simp⟩
  | cons x r ih =>
    intro acc h
    have h2 := ih (insTotal x acc) (insTotal_sorted x acc h)
    refine ⟨h2.1, ?_⟩
    simp only [List.foldl_cons, List.reverse_cons, List.append_assoc, List.singleton_append]
    exact h2.2.trans (List.Perm.append_left _ (insTotal_perm x acc))

theorem sortTotal_sorted (l : List Nat) : SortedTotal (sortTotal l) :=
  (sortTotal_aux l [] (by simp [SortedTotal])).1

theorem sortTotal_perm (l : List Nat) : (sortTotal l).Perm l := by
  have := (sortTotal_aux l [] (by simp [SortedTotal])).2
  simp only [List.append_nil] at this
  exact this.trans (List.reverse_perm l)

theorem sortTotal_length (l : List Nat) : (sortTotal l).length = l.length := (sortTotal_perm l).length_eq

theorem sortedTotal_getD_mono (l : List Nat) (h : SortedTotal l) (i j : Nat) (hij : i ≤ j) (hj : j < l.length) :
    totalKey (l.getD i 0) ≤ totalKey (l.getD j 0) := by
  have hi : i < l.length := by omega
  have e1 : l.getD i 0 = l[i] := by simp [List.getD, List.getElem?_eq_getElem hi]
  have e2 : l.getD j 0 = l[j] := by simp [List.getD, List.getElem?_eq_getElem hj]
  rw [e1, e2]
  rcases Nat.lt_or_eq_of_le hij with hlt | heq
  · exact (List.pairwise_iff_getElem.mp h) i j hi hj hlt
  · subst heq; exact Nat.le_refl _

theorem pctIdx_in_range' (n : Nat) (h : 0 < n) :
    (pctIdx n).1 < n ∧ (pctIdx n).2.1 < n ∧ (pctIdx n).2.2 < n ∧ (pctIdx n).1 ≤ (pctIdx n).2.1 ∧
      (pctIdx n).2.1 ≤ (pctIdx n).2.2 ∧ (pctIdx n).2.2 ≤ n - 1 := by
  simp only [pctIdx]
  omega

end IB.Metrics
