import IbModel.Model.CheckpointRun
import IbModel.Proofs.CheckpointStore
import IbModel.Proofs.CheckpointNames
import IbModel.Proofs.CheckpointCodec
/-!
Helper lemmas for C11 (`Props/C11.lean`): the checkpointing engines of `Model/CheckpointRun.lean`.
-/
namespace IB.CheckpointRun
open IB IB.Checkpoint

variable {P : Type}

/-! ## the second copy of the node match is the first -/

theorem stepSeqCk_eq_stepSeq (cur : Option P) (n : Node P) : stepSeqCk cur n = stepSeq cur n := by
  cases n <;> rfl

/-- the fold `exec_seq` performs -/
def seqFold (chain : List (Node P)) (cur : Option P) : M (Option P) :=
  chain.foldlM (fun cur n => do let b ← stepSeq cur n; pure (some b)) cur

theorem execSeq_eq_seqFold (chain : List (Node P)) :
    execSeq chain = (match seqFold chain none with
      | .error e => .error e
      | .ok none => .error .emptyBuf
      | .ok (some b) => .ok b) := by
  unfold execSeq seqFold
  cases h : (List.foldlM (fun cur n => do let b ← stepSeq cur n; pure (some b)) none chain : M (Option P)) with
  | error e => rfl
  | ok r =>
    cases r with
    | none => rfl
    | some b => rfl

/-- the buffer a run of the checkpointing loop computes does not depend on anything checkpoint-related -/
theorem runNodes_result (env : Env) (cfg : Config) (pid : Bytes) (total : Nat) (chain : List (Node P)) :
    ∀ (idx : Nat) (cur : Option P) (st : St),
      (runNodes stepSeqCk env cfg pid total idx chain cur st).1 = seqFold chain cur := by
  induction chain with
  | nil => intro idx cur st; rfl
  | cons n rest ih =>
    intro idx cur st
    unfold runNodes seqFold
    rw [List.foldlM_cons, stepSeqCk_eq_stepSeq]
    cases h : stepSeq cur n with
    | error e => rfl
    | ok b =>
      simp only []
      rw [ih]
      rfl

/-! ## effect of a run on the directory: only own-named files of the pipeline id are ever touched -/

theorem beq_name_eq {a b : Name} (h : (a == b) = true) : a = b := by simpa using h

theorem filter_map_replace (cand : Name → Bool) (name : Name) (content : Bytes) (h : cand name = true) (fs : FS) :
    (fs.map (fun f => if f.1 == name then (name, content) else f)).filter (fun f => !cand f.1) =
      fs.filter (fun f => !cand f.1) := by
  induction fs with
  | nil => rfl
  | cons f rest ih =>
    simp only [List.map_cons, List.filter_cons]
    by_cases hf : (f.1 == name) = true
    · have hfn : f.1 = name := beq_name_eq hf
      simp only [hf, if_true, h, Bool.not_true]
      rw [hfn, h]
      simpa using ih
    · simp only [hf]
      simp only [Bool.false_eq_true, if_false]
      rw [ih]

theorem clearWith_write (cand : Name → Bool) (fs : FS) (name : Name) (content : Bytes) (h : cand name = true) :
    clearWith cand (write fs name content) = clearWith cand fs := by
  unfold write clearWith
  split
  · exact filter_map_replace cand name content h fs
  · rw [List.filter_append]
    simp [h]

theorem clearWith_cleanupWith (cand : Name → Bool) (key : Name → Nat) (max : Option Nat) (fs : FS) :
    clearWith cand (cleanupWith cand key max fs) = clearWith cand fs := by
  cases max with
  | none => rfl
  | some m =>
    unfold clearWith cleanupWith
    simp only [List.filter_filter]
    apply List.filter_congr
    intro f _
    cases hc : cand f.1 with
    | true => simp
    | false =>
      have hnm : f.1 ∉ doomed cand key m (names fs) := by
        intro hmem
        have := (doomed_subset cand key hmem).2
        rw [hc] at this; cases this
      simp [hnm]

/-- a save by pipeline `pid` changes nothing outside `pid`'s own-named files -/
theorem clear_save (max : Option Nat) (fs : FS) (s : State) (hts : s.timestamp ≤ u64Max) :
    clear s.pipelineId (save max fs s) = clear s.pipelineId fs := by
  unfold clear save cleanup
  rw [clearWith_cleanupWith, clearWith_write]
  have := fileStamp_fileNameOf s.pipelineId s.timestamp hts
  unfold isOwn fileName
  rw [this]; rfl

theorem stampOf_le (ns : Nat) : stampOf ns ≤ u64Max := by
  unfold stampOf u64Mod u64Max
  have := Nat.mod_lt (ns / 1000000) (by decide : 18446744073709551616 > 0)
  omega

theorem mkState_pid (env : Env) (pid : Bytes) (idx ts pc : Nat) (mode : Bytes) (total : Nat) (nt : Bytes) (pp : UInt8) :
    (mkState env pid idx ts pc mode total nt pp).pipelineId = pid := rfl

theorem mkState_ts (env : Env) (pid : Bytes) (idx ts pc : Nat) (mode : Bytes) (total : Nat) (nt : Bytes) (pp : UInt8) :
    (mkState env pid idx ts pc mode total nt pp).timestamp = ts := rfl

theorem clear_afterNode (env : Env) (cfg : Config) (pid : Bytes) (total idx : Nat) (node : Node P) (st : St) :
    clear pid (afterNode env cfg pid total idx node st).fs = clear pid st.fs := by
  simp only [afterNode]
  split
  · unfold doSave seqState
    simp only []
    have h := clear_save cfg.max (shouldCk env cfg st idx (isBarrier node)).2.fs
      (mkState env pid idx (stampOf (env.clock (shouldCk env cfg st idx (isBarrier node)).2.tick)) 1
        (ascii "sequential") total (nodeType node) (env.progress idx total))
      (by rw [mkState_ts]; exact stampOf_le _)
    rw [mkState_pid] at h
    rw [h]
    unfold shouldCk; split <;> rfl
  · unfold shouldCk; split <;> rfl

/-- the whole loop (finished, failed half-way or cut short — any node list) leaves every file that is not an
    own-named checkpoint of `pid` exactly where and as it was -/
theorem clear_runNodes {ε : Type} (step : Option P → Node P → Except ε P) (env : Env) (cfg : Config) (pid : Bytes)
    (total : Nat) (chain : List (Node P)) :
    ∀ (idx : Nat) (cur : Option P) (st : St),
      clear pid (runNodes step env cfg pid total idx chain cur st).2.fs = clear pid st.fs := by
  induction chain with
  | nil => intro idx cur st; rfl
  | cons n rest ih =>
    intro idx cur st
    unfold runNodes
    cases h : step cur n with
    | error e => rfl
    | ok b =>
      simp only []
      rw [ih, clear_afterNode]

theorem clear_idem (pid : Bytes) (fs : FS) : clear pid (clear pid fs) = clear pid fs := by
  unfold clear clearWith
  rw [List.filter_filter]
  apply List.filter_congr
  intro f _
  simp

/-! ## recovery -/

theorem recover_ok_of_noCrash (env : Env) (cfg : Config) (pid : Bytes) (fs : FS)
    (h : ∀ bytes, NoCrash (load env.H env.dec bytes)) : ∃ lg, recover env cfg pid fs = .ok lg := by
  unfold recover
  split
  · exact ⟨_, rfl⟩
  · split
    · exact ⟨_, rfl⟩
    · split
      · exact ⟨_, rfl⟩
      · rename_i bytes _
        split
        · exact ⟨_, rfl⟩
        · rename_i e he
          have hk : kills e = false := by
            obtain ⟨h1, h2⟩ := h bytes
            cases e <;> first | rfl | (exfalso; first | exact h1 he | exact h2 he)
          rw [hk]
          exact ⟨_, rfl⟩

/-- recovery either returns (and is then ignored) or the process died inside `load_checkpoint` on the newest
    own-named file -/
theorem recover_cases (env : Env) (cfg : Config) (pid : Bytes) (fs : FS) :
    (∃ lg, recover env cfg pid fs = .ok lg) ∨
    (∃ name bytes e, cfg.autoRecover = true ∧ latest true pid fs = some name ∧ read fs name = some bytes ∧
      load env.H env.dec bytes = .error e ∧ kills e = true ∧ recover env cfg pid fs = .error e) := by
  cases hr : cfg.autoRecover with
  | false => left; exact ⟨.off, by simp [recover, hr]⟩
  | true =>
    cases hl : latest true pid fs with
    | none => left; exact ⟨.nothing, by simp [recover, hr, hl]⟩
    | some name =>
      cases hrd : read fs name with
      | none => left; exact ⟨.unreadable, by simp [recover, hr, hl, hrd]⟩
      | some bytes =>
        cases hld : load env.H env.dec bytes with
        | ok s => left; exact ⟨.loaded s, by simp [recover, hr, hl, hrd, hld]⟩
        | error e =>
          cases hk : kills e with
          | false => left; exact ⟨.rejected e, by simp [recover, hr, hl, hrd, hld, hk]⟩
          | true => right; exact ⟨name, bytes, e, rfl, rfl, hrd, hld, hk, by simp [recover, hr, hl, hrd, hld, hk]⟩

/-! ## a directory holding one well-formed checkpoint file -/

theorem latest_single_own (pid : Bytes) (ts : Nat) (hts : ts ≤ u64Max) (content : Bytes) :
    latest true pid [(fileNameOf pid ts, content)] = some (fileNameOf pid ts) := by
  have hown : isOwn pid (fileNameOf pid ts) = true := by
    unfold isOwn; rw [fileStamp_fileNameOf pid ts hts]; rfl
  unfold latest latestWith names
  simp [hown]

theorem read_single (name : Name) (content : Bytes) : read [(name, content)] name = some content := by
  unfold Checkpoint.read; simp

/-! ## the pinned commit's engine on join-free chains -/

/-- does the chain contain a `CoGroup` node (a join)? -/
def hasCoGroup : List (Node P) → Bool
  | [] => false
  | .coGroup .. :: _ => true
  | _ :: rest => hasCoGroup rest

theorem legacy_step_of_not_coGroup (cur : Option P) (n : Node P) (h : hasCoGroup [n] = false) :
    Legacy.stepSeqCk cur n = Legacy.lift (stepSeq cur n) := by
  cases n <;> first | rfl | (simp [hasCoGroup] at h)

theorem legacy_runNodes_result (env : Env) (cfg : Config) (pid : Bytes) (total : Nat) (chain : List (Node P))
    (hno : hasCoGroup chain = false) :
    ∀ (idx : Nat) (cur : Option P) (st : St),
      (runNodes Legacy.stepSeqCk env cfg pid total idx chain cur st).1 =
        (match seqFold chain cur with
         | .ok r => .ok r
         | .error e => .error (.engine e)) := by
  induction chain with
  | nil => intro idx cur st; rfl
  | cons n rest ih =>
    intro idx cur st
    have hn : hasCoGroup [n] = false := by cases n <;> first | rfl | (simp [hasCoGroup] at hno)
    have hrest : hasCoGroup rest = false := by cases n <;> first | exact hno | (simp [hasCoGroup] at hno)
    unfold runNodes seqFold
    rw [List.foldlM_cons, legacy_step_of_not_coGroup cur n hn]
    cases h : stepSeq cur n with
    | error e => rfl
    | ok b =>
      simp only [Legacy.lift]
      rw [ih hrest]
      rfl

end IB.CheckpointRun
