import IbModel.Model.CheckpointRun
import IbModel.Proofs.CheckpointStore
import IbModel.Proofs.CheckpointNames
import IbModel.Proofs.CheckpointCodec
/-!
Helper lemmas for C11 (`Props/C11.lean`): the checkpointing engines of `Model/CheckpointRun.lean`.
-/
namespace IB.CheckpointRun
open IB IB.Checkpoint

variable {P : Type}

/-! ## the second copy of the node match is the first -/

theorem stepSeqCk_eq_stepSeq (cur : Option P) (n : Node P) : stepSeqCk cur n = stepSeq cur n := by
  cases n <;> rfl

/-- the fold `exec_seq` performs -/
def seqFold (chain : List (Node P)) (cur : Option P) : M (Option P) :=
  chain.foldlM (fun cur n => do let b ← stepSeq cur n; pure (some b)) cur

theorem execSeq_eq_seqFold (chain : List (Node P)) :
    execSeq chain = (match seqFold chain none with
      | .error e => .error e
      | .ok none => .error .emptyBuf
      | .ok (some b) => .ok b) := by
  unfold execSeq seqFold
  cases h : (List.foldlM (fun cur n => do let b ← stepSeq cur n; pure (some b)) none chain : M (Option P)) with
  | error e => rfl
  | ok r =>
    cases r with
    | none => rfl
    | some b => rfl

/-- the buffer a run of the checkpointing loop computes does not depend on anything checkpoint-related -/
theorem runNodes_result (env : Env) (cfg : Config) (pid : Bytes) (total : Nat) (chain : List (Node P)) :
    ∀ (idx : Nat) (cur : Option P) (st : St),
      (runNodes stepSeqCk env cfg pid total idx chain cur st).1 = seqFold chain cur := by
  induction chain with
  | nil => intro idx cur st; rfl
  | cons n rest ih =>
    intro idx cur st
    unfold runNodes seqFold
    rw [List.foldlM_cons, stepSeqCk_eq_stepSeq]
    cases h : stepSeq cur n with
    | error e => rfl
    | ok b =>
      simp only []
      rw [ih]
      rfl

/-! ## effect of a run on the directory: only own-named files of the pipeline id are ever touched -/

theorem beq_name_eq {a b : Name} (h : (a == b) = true) : a = b := by simpa using h

theorem filter_map_replace (cand : Name → Bool) (name : Name) (content : Bytes) (h : cand name = true) (fs : FS) :
    (fs.map (fun f => if f.1 == name then (name, content) else f)).filter (fun f => !cand f.1) =
      fs.filter (fun f => !cand f.1) := by
  induction fs with
  | nil => rfl
  | cons f rest ih =>
    simp only [List.map_cons, List.filter_cons]
    by_cases hf : (f.1 == name) = true
    · have hfn : f.1 = name := beq_name_eq hf
      simp only [hf, if_true, h, Bool.not_true]
      rw [hfn, h]
      simpa using ih
    · simp only [hf]
      simp only [Bool.false_eq_true, if_false]
      rw [ih]

theorem clearWith_write (cand : Name → Bool) (fs : FS) (name : Name) (content : Bytes) (h : cand name = true) :
    clearWith cand (write fs name content) = clearWith cand fs := by
  unfold write clearWith
  split
  · exact filter_map_replace cand name content h fs
  · rw [List.filter_append]
    simp [h]

theorem clearWith_cleanupWith (cand : Name → Bool) (key : Name → Nat) (max : Option Nat) (fs : FS) :
    clearWith cand (cleanupWith cand key max fs) = clearWith cand fs := by
  cases max with
  | none => rfl
  | some m =>
    unfold clearWith cleanupWith
    simp only [List.filter_filter]
    apply List.filter_congr
    intro f _
    cases hc : cand f.1 with
    | true => simp
    | false =>
      have hnm : f.1 ∉ doomed cand key m (names fs) := by
        intro hmem
        have := (doomed_subset cand key hmem).2
        rw [hc] at this; cases this
      simp [hnm]

/-! ### the store functions with sub-directories (`cleanupD`, `clearD`, `saveD`) -/

theorem ownFile_of_fileName (isDir : Name → Bool) (s : State) (hts : s.timestamp ≤ u64Max)
    (hd : isDir (fileName s) = false) : ownFile isDir s.pipelineId (fileName s) = true := by
  have := fileStamp_fileNameOf s.pipelineId s.timestamp hts
  unfold ownFile isOwn fileName
  unfold fileName at hd
  rw [this, hd]; rfl

/-- retention removes only own-named regular files -/
theorem clearD_cleanupD (isDir : Name → Bool) (max : Option Nat) (pid : Bytes) (fs : FS) :
    clearD isDir pid (cleanupD isDir max pid fs) = clearD isDir pid fs := by
  cases max with
  | none => rfl
  | some m =>
    unfold clearD clearWith cleanupD
    simp only [List.filter_filter]
    apply List.filter_congr
    intro f _
    cases hc : ownFile isDir pid f.1 with
    | true => simp
    | false =>
      by_cases hmem : f.1 ∈ doomed (ownFile isDir pid) (sortKey (pfx pid)) m (names fs)
      · have hown := (doomed_subset (ownFile isDir pid) (sortKey (pfx pid)) hmem).2
        rw [hown] at hc
        simp at hc
      · simp [hmem]

/-- a save by pipeline `pid` changes nothing but own-named REGULAR files of `pid` — whether it succeeds, fails at
    `File::create` (sub-directory of that name) or fails in the retention scan (directory not listable) -/
theorem clearD_saveD (isDir : Name → Bool) (listable : Bool) (max : Option Nat) (fs : FS) (s : State)
    (hts : s.timestamp ≤ u64Max) :
    clearD isDir s.pipelineId ((saveD isDir listable max fs s).getD fs) = clearD isDir s.pipelineId fs := by
  unfold saveD
  cases hd : isDir (fileName s) with
  | true => rfl
  | false =>
    have hown := ownFile_of_fileName isDir s hts hd
    simp only [Bool.false_eq_true, if_false, Option.getD_some]
    cases listable with
    | true =>
      simp only [if_true]
      rw [clearD_cleanupD]
      exact clearWith_write _ fs _ _ hown
    | false =>
      simp only [Bool.false_eq_true, if_false]
      exact clearWith_write _ fs _ _ hown

/-- without sub-directories and with a listable directory these ARE the store functions of C12 -/
theorem cleanupD_noDirs (max : Option Nat) (pid : Bytes) (fs : FS) :
    cleanupD (fun _ => false) max pid fs = cleanup max pid fs := by
  cases max with
  | none => rfl
  | some m =>
    have h : ownFile (fun _ => false) pid = isOwn pid := by
      funext n; unfold ownFile; simp
    unfold cleanupD cleanup cleanupWith
    rw [h]

theorem clearD_noDirs (pid : Bytes) (fs : FS) : clearD (fun _ => false) pid fs = clear pid fs := by
  unfold clearD clear clearWith ownFile
  simp

theorem saveD_noDirs (max : Option Nat) (fs : FS) (s : State) :
    saveD (fun _ => false) true max fs s = some (save max fs s) := by
  unfold saveD save
  simp [cleanupD_noDirs]

theorem mem_clearD (isDir : Name → Bool) (pid : Bytes) (fs : FS) (f : Name × Bytes) :
    f ∈ clearD isDir pid fs ↔ f ∈ fs ∧ ownFile isDir pid f.1 = false := by
  unfold clearD clearWith
  simp [List.mem_filter]

/-- forgetting the own-named regular files first does not change what `clear` (all own names) leaves -/
theorem clear_clearD (isDir : Name → Bool) (pid : Bytes) (fs : FS) :
    clear pid (clearD isDir pid fs) = clear pid fs := by
  unfold clear clearD clearWith ownFile
  rw [List.filter_filter]
  apply List.filter_congr
  intro f _
  cases isOwn pid f.1 <;> simp

theorem clearD_idem (isDir : Name → Bool) (pid : Bytes) (fs : FS) :
    clearD isDir pid (clearD isDir pid fs) = clearD isDir pid fs := by
  unfold clearD clearWith
  rw [List.filter_filter]
  apply List.filter_congr
  intro f _
  simp

theorem stampOf_le (ns : Nat) : stampOf ns ≤ u64Max := by
  unfold stampOf u64Mod u64Max
  have := Nat.mod_lt (ns / 1000000) (by decide : 18446744073709551616 > 0)
  omega

theorem mkState_pid (env : Env) (pid : Bytes) (idx ts pc : Nat) (mode : Bytes) (total : Nat) (nt : Bytes) (pp : UInt8) :
    (mkState env pid idx ts pc mode total nt pp).pipelineId = pid := rfl

theorem mkState_ts (env : Env) (pid : Bytes) (idx ts pc : Nat) (mode : Bytes) (total : Nat) (nt : Bytes) (pp : UInt8) :
    (mkState env pid idx ts pc mode total nt pp).timestamp = ts := rfl

theorem clearD_doSave (env : Env) (cfg : Config) (fails : Bool) (st : St) (s : State) (hts : s.timestamp ≤ u64Max) :
    clearD env.isDir s.pipelineId (doSave env cfg fails st s).fs = clearD env.isDir s.pipelineId st.fs := by
  have h := clearD_saveD env.isDir env.dirListable cfg.max st.fs s hts
  unfold doSave
  cases fails with
  | true => rfl
  | false =>
    simp only [Bool.false_eq_true, if_false]
    cases hs : saveD env.isDir env.dirListable cfg.max st.fs s with
    | none => rfl
    | some fs' => rw [hs] at h; exact h

theorem shouldCk_fs (env : Env) (cfg : Config) (st : St) (idx : Nat) (b : Bool) :
    (shouldCk env cfg st idx b).2.fs = st.fs := by
  unfold shouldCk; split <;> rfl

theorem clearD_afterNode (env : Env) (cfg : Config) (pid : Bytes) (total idx : Nat) (node : Node P) (st : St) :
    clearD env.isDir pid (afterNode env cfg pid total idx node st).fs = clearD env.isDir pid st.fs := by
  simp only [afterNode]
  split
  · unfold seqState
    have h := clearD_doSave env cfg (storeFails env idx)
      { (shouldCk env cfg st idx (isBarrier node)).2 with tick := (shouldCk env cfg st idx (isBarrier node)).2.tick + 1 }
      (mkState env pid idx (stampOf (env.clock (shouldCk env cfg st idx (isBarrier node)).2.tick)) 1
        (ascii "sequential") total (nodeType node) (env.progress idx total))
      (by rw [mkState_ts]; exact stampOf_le _)
    rw [mkState_pid] at h
    rw [h]
    exact congrArg _ (shouldCk_fs env cfg st idx (isBarrier node))
  · exact congrArg _ (shouldCk_fs env cfg st idx (isBarrier node))

/-- the whole loop (finished, failed half-way or cut short — any node list) leaves every entry that is not an
    own-named regular checkpoint file of `pid` exactly where and as it was -/
theorem clearD_runNodes {ε : Type} (step : Option P → Node P → Except ε P) (env : Env) (cfg : Config) (pid : Bytes)
    (total : Nat) (chain : List (Node P)) :
    ∀ (idx : Nat) (cur : Option P) (st : St),
      clearD env.isDir pid (runNodes step env cfg pid total idx chain cur st).2.fs = clearD env.isDir pid st.fs := by
  induction chain with
  | nil => intro idx cur st; rfl
  | cons n rest ih =>
    intro idx cur st
    unfold runNodes
    cases h : step cur n with
    | error e => rfl
    | ok b =>
      simp only []
      rw [ih, clearD_afterNode]

/-- … in particular every entry whose name is not a well-formed checkpoint name of `pid` -/
theorem clear_runNodes {ε : Type} (step : Option P → Node P → Except ε P) (env : Env) (cfg : Config) (pid : Bytes)
    (total : Nat) (chain : List (Node P)) (idx : Nat) (cur : Option P) (st : St) :
    clear pid (runNodes step env cfg pid total idx chain cur st).2.fs = clear pid st.fs := by
  rw [← clear_clearD env.isDir, clearD_runNodes, clear_clearD]

theorem clear_idem (pid : Bytes) (fs : FS) : clear pid (clear pid fs) = clear pid fs := by
  unfold clear clearWith
  rw [List.filter_filter]
  apply List.filter_congr
  intro f _
  simp

theorem clearD_clearRun (env : Env) (total : Nat) (pid : Bytes) (fs : FS) :
    clearD env.isDir pid (clearRun env total pid fs) = clearD env.isDir pid fs := by
  unfold clearRun
  split
  · exact clearD_idem _ _ _
  · rfl

/-! ## recovery -/

/-- the checkpoint directory can be created and — when recovery will look into it (`auto_recover`, and the path
    `exists()`) — listed -/
def DirUsable (env : Env) (cfg : Config) : Prop :=
  env.dirCreatable = true ∧ (cfg.autoRecover = true → env.dirExists = true → env.dirListable = true)

theorem recover_ok_of_noCrash (env : Env) (cfg : Config) (pid : Bytes) (fs : FS)
    (hl : cfg.autoRecover = true → env.dirExists = true → env.dirListable = true)
    (h : ∀ bytes, NoCrash (load env.H env.dec bytes)) : ∃ lg, recover env cfg pid fs = .ok lg := by
  unfold recover
  cases ha : cfg.autoRecover with
  | false => exact ⟨_, rfl⟩
  | true =>
    cases he : env.dirExists with
    | false => exact ⟨_, rfl⟩
    | true =>
    rw [hl ha he]
    simp only [Bool.not_true, Bool.false_eq_true, if_false]
    split
    · exact ⟨_, rfl⟩
    · split
      · exact ⟨_, rfl⟩
      · rename_i bytes _
        split
        · exact ⟨_, rfl⟩
        · rename_i e he
          have hk : kills e = false := by
            obtain ⟨h1, h2⟩ := h bytes
            cases e <;> first | rfl | (exfalso; first | exact h1 he | exact h2 he)
          rw [hk]
          exact ⟨_, rfl⟩

/-- recovery either returns (and is then ignored), or `read_dir` failed, or the process died inside
    `load_checkpoint` on the newest own-named regular file -/
theorem recover_cases (env : Env) (cfg : Config) (pid : Bytes) (fs : FS) :
    (∃ lg, recover env cfg pid fs = .ok lg) ∨
    (cfg.autoRecover = true ∧ env.dirExists = true ∧ env.dirListable = false ∧
      recover env cfg pid fs = .error .readDir) ∨
    (∃ name bytes e, cfg.autoRecover = true ∧ env.dirListable = true ∧ latestD env.isDir pid fs = some name ∧
      env.isDir name = false ∧ env.tooBig name = false ∧ read fs name = some bytes ∧
      load env.H env.dec bytes = .error e ∧ kills e = true ∧ recover env cfg pid fs = .error (.died e)) := by
  cases hr : cfg.autoRecover with
  | false => left; exact ⟨.off, by simp [recover, hr]⟩
  | true =>
    cases hex : env.dirExists with
    | false => left; exact ⟨.nothing, by simp [recover, hr, hex]⟩
    | true =>
    cases hli : env.dirListable with
    | false => right; left; exact ⟨rfl, rfl, rfl, by simp [recover, hr, hex, hli]⟩
    | true =>
    cases hl : latestD env.isDir pid fs with
    | none => left; exact ⟨.nothing, by simp [recover, hr, hex, hli, hl]⟩
    | some name =>
      cases hd : env.isDir name with
      | true => left; exact ⟨.unreadable, by simp [recover, hr, hex, hli, hl, readD, hd]⟩
      | false =>
      cases hb : env.tooBig name with
      | true => left; exact ⟨.unreadable, by simp [recover, hr, hex, hli, hl, readD, hd, hb]⟩
      | false =>
      cases hrd : read fs name with
      | none => left; exact ⟨.unreadable, by simp [recover, hr, hex, hli, hl, readD, hd, hb, hrd]⟩
      | some bytes =>
        cases hld : load env.H env.dec bytes with
        | ok s => left; exact ⟨.loaded s, by simp [recover, hr, hex, hli, hl, readD, hd, hb, hrd, hld]⟩
        | error e =>
          cases hk : kills e with
          | false => left; exact ⟨.rejected e, by simp [recover, hr, hex, hli, hl, readD, hd, hb, hrd, hld, hk]⟩
          | true =>
            right; right
            exact ⟨name, bytes, e, rfl, rfl, rfl, hd, hb, hrd, hld, hk,
              by simp [recover, hr, hex, hli, hl, readD, hd, hb, hrd, hld, hk]⟩

/-! ## a directory holding one well-formed checkpoint file -/

theorem latest_single_own (pid : Bytes) (ts : Nat) (hts : ts ≤ u64Max) (content : Bytes) :
    latest true pid [(fileNameOf pid ts, content)] = some (fileNameOf pid ts) := by
  have hown : isOwn pid (fileNameOf pid ts) = true := by
    unfold isOwn; rw [fileStamp_fileNameOf pid ts hts]; rfl
  unfold latest latestWith names
  simp [hown]

/-- without sub-directories `latestD` is C12's `latest` -/
theorem latestD_noDirs (isDir : Name → Bool) (h : ∀ n, isDir n = false) (pid : Bytes) (fs : FS) :
    latestD isDir pid fs = latest true pid fs := by
  have h' : ownFile isDir pid = isOwn pid := by
    funext n; unfold ownFile; simp [h]
  unfold latestD latest
  rw [h']

/-- the latest own-named regular file is own-named, regular and in the directory -/
theorem latestD_some (isDir : Name → Bool) (pid : Bytes) (fs : FS) (name : Name)
    (hl : latestD isDir pid fs = some name) : isDir name = false ∧ isOwn pid name = true ∧ name ∈ names fs := by
  unfold latestD at hl
  have h := (latestWith_some _ _ hl).1
  have h2 := h.2
  unfold ownFile at h2
  simp only [Bool.and_eq_true, Bool.not_eq_true'] at h2
  exact ⟨h2.2, h2.1, h.1⟩

theorem read_single (name : Name) (content : Bytes) : read [(name, content)] name = some content := by
  unfold Checkpoint.read; simp

/-! ## the pinned commit's engine on join-free chains -/

/-- does the chain contain a `CoGroup` node (a join)? -/
def hasCoGroup : List (Node P) → Bool
  | [] => false
  | .coGroup .. :: _ => true
  | _ :: rest => hasCoGroup rest

theorem legacy_step_of_not_coGroup (cur : Option P) (n : Node P) (h : hasCoGroup [n] = false) :
    Legacy.stepSeqCk cur n = Legacy.lift (stepSeq cur n) := by
  cases n <;> first | rfl | (simp [hasCoGroup] at h)

theorem legacy_runNodes_result (env : Env) (cfg : Config) (pid : Bytes) (total : Nat) (chain : List (Node P))
    (hno : hasCoGroup chain = false) :
    ∀ (idx : Nat) (cur : Option P) (st : St),
      (runNodes Legacy.stepSeqCk env cfg pid total idx chain cur st).1 =
        (match seqFold chain cur with
         | .ok r => .ok r
         | .error e => .error (.engine e)) := by
  induction chain with
  | nil => intro idx cur st; rfl
  | cons n rest ih =>
    intro idx cur st
    have hn : hasCoGroup [n] = false := by cases n <;> first | rfl | (simp [hasCoGroup] at hno)
    have hrest : hasCoGroup rest = false := by cases n <;> first | exact hno | (simp [hasCoGroup] at hno)
    unfold runNodes seqFold
    rw [List.foldlM_cons, legacy_step_of_not_coGroup cur n hn]
    cases h : stepSeq cur n with
    | error e => rfl
    | ok b =>
      simp only [Legacy.lift]
      rw [ih hrest]
      rfl

end IB.CheckpointRun
