import IbModel.Proofs.CheckpointTrunc
/-! Helper lemmas for C12: how much INPUT the decoder can consume under a limit `L`.

Every field reader claims against the limit BEFORE it reads, and a reader never consumes more than one byte beyond
what it claims (a 9-byte varint is claimed as 8). Measure of a reader state: `input left + bytes claimed`.
* a successful integer / string reader lowers the measure by at most 1, the `u8` reader not at all;
* a reader that fails with "unexpected end" was started in a state of measure `≤ L`.
Hence (8 integer readers before the last field): an input on which the record decoder says "unexpected end" is at most
`L + 8` bytes long — reading only the first `L + 9` bytes (or more) of a file never changes the verdict. -/
namespace IB.Checkpoint

theorem overLimit_some {cfg : Cfg} {L n : Nat} (hL : cfg.limit = some L) : overLimit cfg n = false ↔ n ≤ L := by
  unfold overLimit; rw [hL]; simp

theorem readVarint_ok_len {p r : Bytes} {v : Nat} (h : readVarint p = .ok (v, r)) : p.length ≤ r.length + 9 := by
  unfold readVarint at h
  cases p with
  | nil => cases h
  | cons b rest =>
    simp only at h
    split at h
    · injection h with h; injection h with _ h; subst h; simp only [List.length_cons]; omega
    · split at h
      · obtain ⟨x, hx, h⟩ := andThen_eq_ok h
        injection h with h; injection h with _ h
        unfold takeN at hx
        split at hx
        · injection hx with hx; subst hx; subst h; simp only [List.length_cons, List.length_drop]; omega
        · cases hx
      · split at h
        · obtain ⟨x, hx, h⟩ := andThen_eq_ok h
          injection h with h; injection h with _ h
          unfold takeN at hx
          split at hx
          · injection hx with hx; subst hx; subst h; simp only [List.length_cons, List.length_drop]; omega
          · cases hx
        · split at h
          · obtain ⟨x, hx, h⟩ := andThen_eq_ok h
            injection h with h; injection h with _ h
            unfold takeN at hx
            split at hx
            · injection hx with hx; subst hx; subst h; simp only [List.length_cons, List.length_drop]; omega
            · cases hx
          · cases h

theorem andThen_eq_error {α β : Type} {x : Except DecErr α} {f : α → Except DecErr β} {e : DecErr}
    (h : andThen x f = .error e) : x = .error e ∨ ∃ a, x = .ok a ∧ f a = .error e := by
  cases x with
  | error e' => left; simp only [andThen_error] at h; injection h with h; subst h; rfl
  | ok a => right; exact ⟨a, rfl, h⟩

theorem takeN_eof_len {n : Nat} {inp : Bytes} {e : DecErr} (h : takeN n inp = .error e) : inp.length < n := by
  unfold takeN at h
  split at h
  · cases h
  · omega

theorem readVarint_eof_len {p : Bytes} (h : readVarint p = .error .eof) : p.length ≤ 8 := by
  unfold readVarint at h
  cases p with
  | nil => simp
  | cons b rest =>
    simp only at h
    split at h
    · cases h
    · split at h
      · rcases andThen_eq_error h with hx | ⟨a, _, ha⟩
        · have := takeN_eof_len hx; simp only [List.length_cons]; omega
        · cases ha
      · split at h
        · rcases andThen_eq_error h with hx | ⟨a, _, ha⟩
          · have := takeN_eof_len hx; simp only [List.length_cons]; omega
          · cases ha
        · split at h
          · rcases andThen_eq_error h with hx | ⟨a, _, ha⟩
            · have := takeN_eof_len hx; simp only [List.length_cons]; omega
            · cases ha
          · cases h

theorem claim_error {cfg : Cfg} {c n : Nat} {e : DecErr} (h : claim cfg c n = .error e) : e = .limit := by
  unfold claim at h
  split at h
  · injection h with h; exact h.symm
  · cases h

/-- a field reader lowers `input left + claimed` by at most `w`, and fails with "unexpected end" only from a state
    whose measure is at most the limit -/
def Meas (L w : Nat) {α : Type} (d : Bytes × Nat → Except DecErr (α × (Bytes × Nat))) : Prop :=
  ∀ (p : Bytes) (c : Nat),
    (∀ a r c', d (p, c) = .ok (a, (r, c')) → p.length + c ≤ r.length + c' + w) ∧
    (d (p, c) = .error .eof → p.length + c ≤ L)

/-- the rest of the record decoder fails with "unexpected end" only from a state of measure `≤ L + w` -/
def MeasK (L w : Nat) {β : Type} (k : Bytes × Nat → Except DecErr (β × Bytes)) : Prop :=
  ∀ (p : Bytes) (c : Nat), k (p, c) = .error .eof → p.length + c ≤ L + w

theorem MeasK.bind {L w1 w2 : Nat} {α β : Type} {d : Bytes × Nat → Except DecErr (α × (Bytes × Nat))}
    {k : α × (Bytes × Nat) → Except DecErr (β × Bytes)} (hd : Meas L w1 d)
    (hk : ∀ a, MeasK L w2 (fun st => k (a, st))) : MeasK L (w1 + w2) (fun st => andThen (d st) k) := by
  intro p c h
  obtain ⟨h1, h2⟩ := hd p c
  rcases andThen_eq_error h with hx | ⟨x, hx, hx'⟩
  · have := h2 hx; omega
  · obtain ⟨a, r, c'⟩ := x
    have e1 := h1 a r c' hx
    have e2 := hk a r c' hx'
    omega

theorem MeasK.last {L : Nat} {α β : Type} {d : Bytes × Nat → Except DecErr (α × (Bytes × Nat))}
    (hd : Meas L 0 d) (f : α × (Bytes × Nat) → β × Bytes) :
    MeasK L 0 (fun st => andThen (d st) fun x => .ok (f x)) := by
  intro p c h
  rcases andThen_eq_error h with hx | ⟨x, _, hx'⟩
  · have := (hd p c).2 hx; omega
  · cases hx'

theorem meas_decU64 (cfg : Cfg) (L : Nat) (hL : cfg.limit = some L) : Meas L 1 (decU64 cfg) := by
  intro p c
  constructor
  · intro a r c' h
    unfold decU64 at h
    obtain ⟨c1, hc, h⟩ := andThen_eq_ok h
    obtain ⟨x, hx, h⟩ := andThen_eq_ok h
    injection h with h
    injection h with _ h
    injection h with hr hc'
    obtain ⟨_, e⟩ := claim_ok_inv hc
    have := readVarint_ok_len (p := p) (r := x.2) (v := x.1) hx
    simp only at e this
    subst hr; subst hc'; omega
  · intro h
    unfold decU64 at h
    rcases andThen_eq_error h with hx | ⟨c1, hc, h⟩
    · have := claim_error hx; cases this
    · obtain ⟨lim, e⟩ := claim_ok_inv hc
      have hle := (overLimit_some hL).mp lim
      rcases andThen_eq_error h with hx | ⟨x, _, hx'⟩
      · have := readVarint_eof_len hx
        simp only at this e; omega
      · cases hx'

theorem meas_decU8 (cfg : Cfg) (L : Nat) (hL : cfg.limit = some L) : Meas L 0 (decU8 cfg) := by
  intro p c
  constructor
  · intro a r c' h
    unfold decU8 at h
    obtain ⟨c1, hc, h⟩ := andThen_eq_ok h
    obtain ⟨_, e⟩ := claim_ok_inv hc
    simp only at h e
    cases p with
    | nil => cases h
    | cons b rest =>
      injection h with h
      injection h with _ h
      injection h with hr hc'
      subst hr; subst hc'; simp only [List.length_cons]; omega
  · intro h
    unfold decU8 at h
    rcases andThen_eq_error h with hx | ⟨c1, hc, h⟩
    · have := claim_error hx; cases this
    · obtain ⟨lim, e⟩ := claim_ok_inv hc
      have hle := (overLimit_some hL).mp lim
      simp only at h e
      cases p with
      | nil => simp only [List.length_nil]; omega
      | cons b rest => cases h

theorem alloc_error {cfg : Cfg} {n : Nat} {e : DecErr} (h : alloc cfg n = .error e) : e ≠ .eof := by
  unfold alloc at h
  split at h
  · injection h with h; subst h; decide
  · split at h
    · injection h with h; subst h; decide
    · cases h

theorem meas_decString (cfg : Cfg) (L : Nat) (hL : cfg.limit = some L) : Meas L 1 (decString cfg) := by
  intro p c
  have hU := meas_decU64 cfg L hL p c
  constructor
  · intro a r c' h
    unfold decString at h
    obtain ⟨lp, hlp, h⟩ := andThen_eq_ok h
    obtain ⟨c1, hc, h⟩ := andThen_eq_ok h
    obtain ⟨_, _, h⟩ := andThen_eq_ok h
    obtain ⟨x, hx, h⟩ := andThen_eq_ok h
    obtain ⟨len, r0, c0⟩ := lp
    have e0 := hU.1 len r0 c0 hlp
    obtain ⟨_, e1⟩ := claim_ok_inv hc
    simp only at e1 hx h
    unfold takeN at hx
    split at hx
    · injection hx with hx; subst hx
      split at h
      · injection h with h
        injection h with _ h
        injection h with hr hc'
        subst hr; subst hc'
        simp only [List.length_drop]; omega
      · cases h
    · cases hx
  · intro h
    unfold decString at h
    rcases andThen_eq_error h with hx | ⟨lp, hlp, h⟩
    · exact hU.2 hx
    · obtain ⟨len, r0, c0⟩ := lp
      have e0 := hU.1 len r0 c0 hlp
      simp only at h
      rcases andThen_eq_error h with hx | ⟨c1, hc, h⟩
      · have := claim_error hx; cases this
      · obtain ⟨lim, e1⟩ := claim_ok_inv hc
        have hle := (overLimit_some hL).mp lim
        rcases andThen_eq_error h with hx | ⟨_, _, h⟩
        · exact absurd rfl (alloc_error hx)
        · rcases andThen_eq_error h with hx | ⟨x, _, h⟩
          · have := takeN_eof_len hx
            omega
          · split at h
            · cases h
            · cases h

/-- **an input on which the record decoder says "unexpected end" has at most `L + 8` bytes** -/
theorem decodeState_eof_short (cfg : Cfg) (L : Nat) (hL : cfg.limit = some L) (bytes : Bytes)
    (h : decodeState cfg bytes = .error .eof) : bytes.length ≤ L + 8 := by
  have S := meas_decString cfg L hL
  have U := meas_decU64 cfg L hL
  have key : MeasK L (1 + (1 + (1 + (1 + (1 + (1 + (1 + (1 + 0))))))))
      (fun st => andThen (decString cfg st) fun pid =>
        andThen (decU64 cfg pid.2) fun idx =>
        andThen (decU64 cfg idx.2) fun ts =>
        andThen (decU64 cfg ts.2) fun pc =>
        andThen (decString cfg pc.2) fun ck =>
        andThen (decString cfg ck.2) fun em =>
        andThen (decU64 cfg em.2) fun tn =>
        andThen (decString cfg tn.2) fun lnt =>
        andThen (decU8 cfg lnt.2) fun pp =>
        .ok (({ pipelineId := pid.1, completedNodeIndex := idx.1, timestamp := ts.1,
                partitionCount := pc.1, checksum := ck.1, execMode := em.1,
                metadata := { totalNodes := tn.1, lastNodeType := lnt.1, progressPercent := pp.1 } } : State),
             pp.2.1)) := by
    refine MeasK.bind S fun pid => ?_
    dsimp only
    refine MeasK.bind U fun idx => ?_
    dsimp only
    refine MeasK.bind U fun ts => ?_
    dsimp only
    refine MeasK.bind U fun pc => ?_
    dsimp only
    refine MeasK.bind S fun ck => ?_
    dsimp only
    refine MeasK.bind S fun em => ?_
    dsimp only
    refine MeasK.bind U fun tn => ?_
    dsimp only
    refine MeasK.bind S fun lnt => ?_
    dsimp only
    exact MeasK.last (meas_decU8 cfg L hL) _
  have := key bytes 0 (by unfold decodeState at h; exact h)
  omega

/-- the decoder's verdict on the first `n ≥ L + 9` bytes of a file is its verdict on the whole file -/
theorem decodeState_take (cfg : Cfg) (L : Nat) (hL : cfg.limit = some L) (n : Nat) (hn : L + 9 ≤ n)
    (bytes : Bytes) :
    (∀ s r, decodeState cfg (bytes.take n) = .ok (s, r) → decodeState cfg bytes = .ok (s, r ++ bytes.drop n)) ∧
    (∀ e, decodeState cfg (bytes.take n) = .error e → decodeState cfg bytes = .error e) := by
  obtain ⟨h1, h2⟩ := decodeState_ext cfg (bytes.take n) (bytes.drop n)
  rw [List.take_append_drop] at h1 h2
  refine ⟨h1, fun e he => ?_⟩
  by_cases hle : bytes.length ≤ n
  · rw [List.take_of_length_le hle] at he; exact he
  · by_cases heof : e = .eof
    · subst heof
      have := decodeState_eof_short cfg L hL _ he
      simp only [List.length_take] at this
      omega
    · exact h2 e he heof

/-- **`load_checkpoint` on the first `n ≥ L + 9` bytes of a file answers exactly what it answers on the whole file** -/
theorem load_take (H : Bytes → Bytes) (cfg : Cfg) (L : Nat) (hL : cfg.limit = some L) (n : Nat) (hn : L + 9 ≤ n)
    (bytes : Bytes) : load H cfg (bytes.take n) = load H cfg bytes := by
  obtain ⟨h1, h2⟩ := decodeState_take cfg L hL n hn bytes
  unfold load
  cases hd : decodeState cfg (bytes.take n) with
  | error e => rw [h2 e hd]
  | ok x =>
    obtain ⟨s, r⟩ := x
    rw [h1 s r hd]
    rfl

end IB.Checkpoint
