import IbModel.Proofs.CombinerLaws
import IbModel.Model.CombinersExt
/-!
# Helper lemmas for C06: `Min<T>` / `Max<T>` for an arbitrary `T: Ord`

`lt` is a strict weak order (`Ord` without antisymmetry: distinct values may compare `Equal`, e.g. a struct
whose `Ord` ignores a field). `Equiv lt a b` = neither is smaller. The accumulators form a NON-commutative
monoid on the nose ("the leftmost extremal value"), commutative up to `Equiv`.
-/
namespace IB.Combiners
open IB

structure StrictWeakB {α : Type} (lt : α → α → Bool) : Prop where
  irrefl : ∀ a, lt a a = false
  trans : ∀ a b c, lt a b = true → lt b c = true → lt a c = true
  /-- incomparability is transitive (`¬ a < b → ¬ b < c → ¬ a < c`) -/
  neg_trans : ∀ a b c, lt a b = false → lt b c = false → lt a c = false

section
variable {α : Type} {lt : α → α → Bool}

/-- `cmp(a, b) == Equal` -/
def Equiv (lt : α → α → Bool) (a b : α) : Prop := lt a b = false ∧ lt b a = false

def OptEquiv (lt : α → α → Bool) : Option α → Option α → Prop
  | none, none => True
  | some a, some b => Equiv lt a b
  | _, _ => False

theorem StrictWeakB.asymm (h : StrictWeakB lt) {a b : α} (hab : lt a b = true) : lt b a = false := by
  cases hba : lt b a with
  | false => rfl
  | true => have := h.trans a b a hab hba; rw [h.irrefl] at this; exact absurd this (by simp)

theorem Equiv.refl (h : StrictWeakB lt) (a : α) : Equiv lt a a := ⟨h.irrefl a, h.irrefl a⟩
theorem Equiv.symm {a b : α} (e : Equiv lt a b) : Equiv lt b a := ⟨e.2, e.1⟩
theorem Equiv.trans (h : StrictWeakB lt) {a b c : α} (e1 : Equiv lt a b) (e2 : Equiv lt b c) : Equiv lt a c :=
  ⟨h.neg_trans a b c e1.1 e2.1, h.neg_trans c b a e2.2 e1.2⟩

/-- `lt` does not distinguish equivalent values -/
theorem lt_congr (h : StrictWeakB lt) {a a' b b' : α} (ea : Equiv lt a a') (eb : Equiv lt b b') :
    lt a b = lt a' b' := by
  cases h1 : lt a b <;> cases h2 : lt a' b' <;> try rfl
  · -- lt a b = false, lt a' b' = true: a' ~ a, so ¬ a' < a, ¬ a < b ⇒ ¬ a' < b; ¬ b < b' ⇒ ¬ a' < b'
    have := h.neg_trans a' b b' (h.neg_trans a' a b ea.2 h1) eb.1
    rw [h2] at this; exact absurd this (by simp)
  · have := h.neg_trans a b' b (h.neg_trans a a' b' ea.1 h2) eb.2
    rw [h1] at this; exact absurd this (by simp)

theorem OptEquiv.refl (h : StrictWeakB lt) : ∀ a : Option α, OptEquiv lt a a
  | none => trivial
  | some a => Equiv.refl h a
theorem OptEquiv.symm : ∀ {a b : Option α}, OptEquiv lt a b → OptEquiv lt b a
  | none, none, _ => trivial
  | some _, some _, e => Equiv.symm e
  | none, some _, e => e.elim
  | some _, none, e => e.elim
theorem OptEquiv.trans (h : StrictWeakB lt) : ∀ {a b c : Option α}, OptEquiv lt a b → OptEquiv lt b c → OptEquiv lt a c
  | none, none, none, _, _ => trivial
  | some _, some _, some _, e1, e2 => Equiv.trans h e1 e2
  | none, some _, _, e, _ => e.elim
  | some _, none, _, e, _ => e.elim
  | none, none, some _, _, e => e.elim
  | some _, some _, none, _, e => e.elim

/-! ## the binary choices -/

/-- the smaller one, the left one on a tie -/
def pickMin (lt : α → α → Bool) (a b : α) : α := if lt b a then b else a
/-- the larger one, the left one on a tie -/
def pickMax (lt : α → α → Bool) (a b : α) : α := if lt a b then b else a

theorem pickMin_assoc (h : StrictWeakB lt) (a b c : α) :
    pickMin lt (pickMin lt a b) c = pickMin lt a (pickMin lt b c) := by
  unfold pickMin
  cases h1 : lt b a <;> cases h2 : lt c b <;> simp only [h1, h2, if_true, if_false, Bool.false_eq_true]
  · -- ¬ b < a, ¬ c < b: ¬ c < a
    rw [h.neg_trans c b a h2 h1]; simp
  · -- b < a, c < b: c < a
    rw [h.trans c b a h2 h1]; simp

theorem pickMax_assoc (h : StrictWeakB lt) (a b c : α) :
    pickMax lt (pickMax lt a b) c = pickMax lt a (pickMax lt b c) := by
  unfold pickMax
  cases h1 : lt a b <;> cases h2 : lt b c <;> simp only [h1, h2, if_true, if_false, Bool.false_eq_true]
  · rw [h.neg_trans a b c h1 h2]; simp
  · rw [h.trans a b c h1 h2]; simp

theorem pickMin_congr (h : StrictWeakB lt) {a a' b b' : α} (ea : Equiv lt a a') (eb : Equiv lt b b') :
    Equiv lt (pickMin lt a b) (pickMin lt a' b') := by
  unfold pickMin
  rw [lt_congr h eb ea]
  split
  · exact eb
  · exact ea

theorem pickMax_congr (h : StrictWeakB lt) {a a' b b' : α} (ea : Equiv lt a a') (eb : Equiv lt b b') :
    Equiv lt (pickMax lt a b) (pickMax lt a' b') := by
  unfold pickMax
  rw [lt_congr h ea eb]
  split
  · exact eb
  · exact ea

theorem pickMin_comm (h : StrictWeakB lt) (a b : α) : Equiv lt (pickMin lt a b) (pickMin lt b a) := by
  unfold pickMin
  cases h1 : lt b a <;> cases h2 : lt a b <;> simp only [if_true, if_false, Bool.false_eq_true]
  · exact ⟨h2, h1⟩
  · exact Equiv.refl h a
  · exact Equiv.refl h b
  · rw [h.asymm h1] at h2; exact absurd h2 (by simp)

theorem pickMax_comm (h : StrictWeakB lt) (a b : α) : Equiv lt (pickMax lt a b) (pickMax lt b a) := by
  unfold pickMax
  cases h1 : lt a b <;> cases h2 : lt b a <;> simp only [if_true, if_false, Bool.false_eq_true]
  · exact ⟨h1, h2⟩
  · exact Equiv.refl h a
  · exact Equiv.refl h b
  · rw [h.asymm h1] at h2; exact absurd h2 (by simp)

/-! ## the accumulator monoid -/

/-- `merge` of both combiners: `None` is the unit, two values are combined with the binary choice -/
def optMerge (p : α → α → α) : Option α → Option α → Option α
  | a, none => a
  | none, some b => some b
  | some a, some b => some (p a b)

theorem minBy_merge_eq (a b : Option α) : (minBy lt).merge a b = optMerge (pickMin lt) a b := by
  cases a <;> cases b <;> simp only [minBy, optMerge, pickMin, apply_ite some]
theorem maxBy_merge_eq (a b : Option α) : (maxBy lt).merge a b = optMerge (pickMax lt) a b := by
  cases a <;> cases b <;> simp only [maxBy, optMerge, pickMax, apply_ite some]
theorem minBy_add_eq (a : Option α) (v : α) : (minBy lt).add a v = optMerge (pickMin lt) a (some v) := by
  cases a <;> simp only [minBy, optMerge, pickMin, apply_ite some]
theorem maxBy_add_eq (a : Option α) (v : α) : (maxBy lt).add a v = optMerge (pickMax lt) a (some v) := by
  cases a <;> simp only [maxBy, optMerge, pickMax, apply_ite some]

theorem optMerge_assoc (p : α → α → α) (hp : ∀ a b c, p (p a b) c = p a (p b c)) (a b c : Option α) :
    optMerge p (optMerge p a b) c = optMerge p a (optMerge p b c) := by
  cases a <;> cases b <;> cases c <;> simp only [optMerge, hp]

theorem optMerge_none_left (p : α → α → α) (a : Option α) : optMerge p none a = a := by cases a <;> rfl
theorem optMerge_none_right (p : α → α → α) (a : Option α) : optMerge p a none = a := by cases a <;> rfl

end

/-- A combiner whose `merge` is a (not necessarily commutative) monoid operation with unit `create` and
    whose `add_input a v` is `merge a (inj v)` is lawful with `R = Eq`: what the engine, which merges in
    partition order, needs. -/
theorem LawfulCombiner.ofMonoid {V A O : Type} (c : Combiner V A O) (inj : V → A)
    (h_add : ∀ a v, c.add a v = c.merge a (inj v))
    (h_assoc : ∀ a b d, c.merge (c.merge a b) d = c.merge a (c.merge b d))
    (h_idl : ∀ a, c.merge c.create a = a)
    (h_idr : ∀ a, c.merge a c.create = a)
    (h_build : ∀ xs, c.build xs = c.foldAdd c.create xs) :
    LawfulCombiner c Eq := by
  have key : ∀ (ys : List V) (a : A), c.foldAdd a ys = c.merge a (c.foldAdd c.create ys) := by
    intro ys
    induction ys with
    | nil => intro a; simp [h_idr]
    | cons y ys ih =>
      intro a
      simp only [Combiner.foldAdd_cons]
      rw [ih (c.add a y), ih (c.add c.create y), h_add, h_add, h_idl, h_assoc]
  exact
    { refl := fun _ => rfl
      symm := fun h => h.symm
      trans := fun h1 h2 => h1.trans h2
      merge_congr := fun h1 h2 => by rw [h1, h2]
      finish_congr := fun h => by rw [h]
      merge_fold := fun xs ys => by rw [Combiner.foldAdd_append, key ys (c.foldAdd c.create xs)]
      build_fold := h_build }

/-- with `R = Eq` a lawful combiner evaluates EVERY merge tree to the fold over its leaves in order
    (no commutativity needed: the leaves stay in their order) -/
theorem LawfulCombiner.eval_fold_eq {V A O : Type} {c : Combiner V A O} (h : LawfulCombiner c Eq)
    (t : MergeTree V) : t.eval c = c.foldAdd c.create t.leaves := by
  induction t with
  | leaf xs => rfl
  | built xs => exact h.build_fold xs
  | node l r ihl ihr =>
    show c.merge (l.eval c) (r.eval c) = _
    rw [ihl, ihr]; exact h.merge_fold _ _
  | more t xs ih =>
    show c.foldAdd (t.eval c) xs = _
    rw [ih, MergeTree.leaves, Combiner.foldAdd_append]

section
variable {α : Type} {lt : α → α → Bool}

/-! ## `build_from_group` against the fold -/

theorem minBy_foldAdd_some (m : α) (xs : List α) :
    (minBy lt).foldAdd (some m) xs = some (xs.foldl (fun m y => if lt y m then y else m) m) := by
  induction xs generalizing m with
  | nil => rfl
  | cons x xs ih =>
    simp only [Combiner.foldAdd_cons, List.foldl_cons]
    have : (minBy lt).add (some m) x = some (if lt x m then x else m) := by
      simp only [minBy, apply_ite some]
    rw [this, ih]

/-- `Min`: `iter().min()` and the `add_input` loop agree ON THE NOSE (both keep the first of equal minima) -/
theorem minBy_build_eq_fold (xs : List α) : (minBy lt).build xs = (minBy lt).foldAdd (minBy lt).create xs := by
  cases xs with
  | nil => rfl
  | cons x xs =>
    simp only [Combiner.foldAdd_cons]
    have : (minBy lt).add (minBy lt).create x = some x := rfl
    rw [this, minBy_foldAdd_some]; rfl

theorem maxBy_foldAdd_some (m : α) (xs : List α) :
    (maxBy lt).foldAdd (some m) xs = some (xs.foldl (fun m y => if lt m y then y else m) m) := by
  induction xs generalizing m with
  | nil => rfl
  | cons x xs ih =>
    simp only [Combiner.foldAdd_cons, List.foldl_cons]
    have : (maxBy lt).add (some m) x = some (if lt m x then x else m) := by
      simp only [maxBy, apply_ite some]
    rw [this, ih]

/-- `Max`: `iter().max()` keeps the last, the `add_input` loop the first of equal maxima: equivalent values -/
theorem iterMax_foldl_equiv (h : StrictWeakB lt) (xs : List α) : ∀ m m' : α, Equiv lt m m' →
    Equiv lt (xs.foldl (fun m y => if lt y m then m else y) m) (xs.foldl (fun m y => if lt m y then y else m) m') := by
  induction xs with
  | nil => intro m m' e; exact e
  | cons x xs ih =>
    intro m m' e
    simp only [List.foldl_cons]
    apply ih
    cases h1 : lt x m <;> cases h2 : lt m' x <;> simp only [if_true, if_false, Bool.false_eq_true]
    · -- ¬ x < m, ¬ m' < x : x (last) vs m' (first): x ~ m'
      exact ⟨h.neg_trans x m m' h1 e.1, h2⟩
    · exact Equiv.refl h x
    · exact e
    · -- x < m and m' < x: m' < m, contradiction with m ~ m'
      have := h.trans m' x m h2 h1
      rw [e.2] at this; exact absurd this (by simp)

theorem maxBy_build_equiv_fold (h : StrictWeakB lt) (xs : List α) :
    OptEquiv lt ((maxBy lt).build xs) ((maxBy lt).foldAdd (maxBy lt).create xs) := by
  cases xs with
  | nil => trivial
  | cons x xs =>
    simp only [Combiner.foldAdd_cons]
    have : (maxBy lt).add (maxBy lt).create x = some x := rfl
    rw [this, maxBy_foldAdd_some]
    exact iterMax_foldl_equiv h xs x x (Equiv.refl h x)

/-- if `Equal` means identical (a total order, e.g. `i64`, `OrdF64`, the harness's `Val`), `Max`'s two loops
    agree on the nose as well -/
theorem maxBy_build_eq_fold (h : StrictWeakB lt) (anti : ∀ a b, Equiv lt a b → a = b) (xs : List α) :
    (maxBy lt).build xs = (maxBy lt).foldAdd (maxBy lt).create xs := by
  have e := maxBy_build_equiv_fold h xs
  revert e
  cases (maxBy lt).build xs <;> cases (maxBy lt).foldAdd (maxBy lt).create xs <;> intro e
  · rfl
  · exact e.elim
  · exact e.elim
  · rw [anti _ _ e]

/-! ## lawful on the nose (partition order) -/

theorem minBy_lawful (h : StrictWeakB lt) : LawfulCombiner (minBy lt) Eq := by
  refine LawfulCombiner.ofMonoid (minBy lt) (fun v => some v) ?_ ?_ ?_ ?_ ?_
  · intro a v; rw [minBy_add_eq, minBy_merge_eq]
  · intro a b d; simp only [minBy_merge_eq]; exact optMerge_assoc _ (pickMin_assoc h) a b d
  · intro a; rw [minBy_merge_eq]; exact optMerge_none_left _ a
  · intro a; rw [minBy_merge_eq]; exact optMerge_none_right _ a
  · exact minBy_build_eq_fold

theorem maxBy_lawful (h : StrictWeakB lt) (anti : ∀ a b, Equiv lt a b → a = b) : LawfulCombiner (maxBy lt) Eq := by
  refine LawfulCombiner.ofMonoid (maxBy lt) (fun v => some v) ?_ ?_ ?_ ?_ ?_
  · intro a v; rw [maxBy_add_eq, maxBy_merge_eq]
  · intro a b d; simp only [maxBy_merge_eq]; exact optMerge_assoc _ (pickMax_assoc h) a b d
  · intro a; rw [maxBy_merge_eq]; exact optMerge_none_left _ a
  · intro a; rw [maxBy_merge_eq]; exact optMerge_none_right _ a
  · exact maxBy_build_eq_fold h anti

theorem maxByDefault_lawful (h : StrictWeakB lt) : LawfulCombiner (maxByDefault lt) Eq := by
  refine LawfulCombiner.ofMonoid (maxByDefault lt) (fun v => some v) ?_ ?_ ?_ ?_ ?_
  · intro a v; exact (maxBy_add_eq a v).trans (maxBy_merge_eq a (some v)).symm
  · intro a b d
    show (maxBy lt).merge ((maxBy lt).merge a b) d = (maxBy lt).merge a ((maxBy lt).merge b d)
    simp only [maxBy_merge_eq]; exact optMerge_assoc _ (pickMax_assoc h) a b d
  · intro a; show (maxBy lt).merge none a = a; rw [maxBy_merge_eq]; exact optMerge_none_left _ a
  · intro a; show (maxBy lt).merge a none = a; rw [maxBy_merge_eq]; exact optMerge_none_right _ a
  · intro xs; rfl

/-! ## mergeable (any order) up to `Equiv` -/

theorem optMerge_congr {p : α → α → α} (hp : ∀ {a a' b b'}, Equiv lt a a' → Equiv lt b b' → Equiv lt (p a b) (p a' b'))
    : ∀ {a a' b b' : Option α}, OptEquiv lt a a' → OptEquiv lt b b' → OptEquiv lt (optMerge p a b) (optMerge p a' b')
  | none, none, none, none, _, _ => trivial
  | none, none, some _, some _, _, e => e
  | some _, some _, none, none, e, _ => e
  | some _, some _, some _, some _, e1, e2 => hp e1 e2
  | none, some _, _, _, e, _ => e.elim
  | some _, none, _, _, e, _ => e.elim
  | none, none, none, some _, _, e => e.elim
  | none, none, some _, none, _, e => e.elim
  | some _, some _, none, some _, _, e => e.elim
  | some _, some _, some _, none, _, e => e.elim

theorem optMerge_comm (h : StrictWeakB lt) {p : α → α → α} (hp : ∀ a b, Equiv lt (p a b) (p b a)) :
    ∀ a b : Option α, OptEquiv lt (optMerge p a b) (optMerge p b a)
  | none, none => trivial
  | none, some b => Equiv.refl h b
  | some a, none => Equiv.refl h a
  | some a, some b => hp a b

theorem optMap_congr {κ : Type} (key : α → κ) (hkey : ∀ a b, Equiv lt a b → key a = key b) :
    ∀ {a b : Option α}, OptEquiv lt a b → a.map key = b.map key
  | none, none, _ => rfl
  | some a, some b, e => by simp only [Option.map_some]; rw [hkey a b e]
  | none, some _, e => e.elim
  | some _, none, e => e.elim

/-- `Min<T>` for ANY `T: Ord`: every split, grouping, ORDER and build mode gives an `Ord`-equal minimum; `key` is
    any observation that does not look beyond `Ord` (the identity when `Equal` means identical) -/
theorem minBy_mergeable_equiv (h : StrictWeakB lt) {κ : Type} (key : α → κ)
    (hkey : ∀ a b, Equiv lt a b → key a = key b) :
    Mergeable ((minBy lt).mapFinish (Option.map key)) (OptEquiv lt) where
  refl := OptEquiv.refl h
  symm := OptEquiv.symm
  trans := OptEquiv.trans h
  merge_congr := by
    intro a a' b b' e1 e2
    show OptEquiv lt ((minBy lt).merge a b) ((minBy lt).merge a' b')
    rw [minBy_merge_eq, minBy_merge_eq]
    exact optMerge_congr (pickMin_congr h) e1 e2
  finish_congr := fun e => optMap_congr key hkey e
  merge_fold := by
    intro xs ys
    have := (minBy_lawful h).merge_fold xs ys
    show OptEquiv lt ((minBy lt).merge ((minBy lt).foldAdd none xs) ((minBy lt).foldAdd none ys))
      ((minBy lt).foldAdd none (xs ++ ys))
    rw [show (minBy lt).merge ((minBy lt).foldAdd none xs) ((minBy lt).foldAdd none ys)
      = (minBy lt).foldAdd none (xs ++ ys) from this]
    exact OptEquiv.refl h _
  build_fold := by
    intro xs
    show OptEquiv lt ((minBy lt).build xs) ((minBy lt).foldAdd none xs)
    rw [minBy_build_eq_fold]; exact OptEquiv.refl h _
  add_congr := by
    intro a b v e
    show OptEquiv lt ((minBy lt).add a v) ((minBy lt).add b v)
    rw [minBy_add_eq, minBy_add_eq]
    exact optMerge_congr (pickMin_congr h) e (Equiv.refl h v)
  merge_comm := by
    intro xs ys
    show OptEquiv lt ((minBy lt).merge _ _) ((minBy lt).merge _ _)
    rw [minBy_merge_eq, minBy_merge_eq]
    exact optMerge_comm h (pickMin_comm h) _ _

theorem maxBy_mergeable_equiv (h : StrictWeakB lt) {κ : Type} (key : α → κ)
    (hkey : ∀ a b, Equiv lt a b → key a = key b) :
    Mergeable ((maxBy lt).mapFinish (Option.map key)) (OptEquiv lt) where
  refl := OptEquiv.refl h
  symm := OptEquiv.symm
  trans := OptEquiv.trans h
  merge_congr := by
    intro a a' b b' e1 e2
    show OptEquiv lt ((maxBy lt).merge a b) ((maxBy lt).merge a' b')
    rw [maxBy_merge_eq, maxBy_merge_eq]
    exact optMerge_congr (pickMax_congr h) e1 e2
  finish_congr := fun e => optMap_congr key hkey e
  merge_fold := by
    intro xs ys
    have := (maxByDefault_lawful h).merge_fold xs ys
    show OptEquiv lt ((maxBy lt).merge ((maxBy lt).foldAdd none xs) ((maxBy lt).foldAdd none ys))
      ((maxBy lt).foldAdd none (xs ++ ys))
    rw [show (maxBy lt).merge ((maxBy lt).foldAdd none xs) ((maxBy lt).foldAdd none ys)
      = (maxBy lt).foldAdd none (xs ++ ys) from this]
    exact OptEquiv.refl h _
  build_fold := maxBy_build_equiv_fold h
  add_congr := by
    intro a b v e
    show OptEquiv lt ((maxBy lt).add a v) ((maxBy lt).add b v)
    rw [maxBy_add_eq, maxBy_add_eq]
    exact optMerge_congr (pickMax_congr h) e (Equiv.refl h v)
  merge_comm := by
    intro xs ys
    show OptEquiv lt ((maxBy lt).merge _ _) ((maxBy lt).merge _ _)
    rw [maxBy_merge_eq, maxBy_merge_eq]
    exact optMerge_comm h (pickMax_comm h) _ _

/-- evaluation of a tree never looks at `finish` -/
theorem eval_mapFinish {V A O O' : Type} (c : Combiner V A O) (f : O → O') (t : MergeTree V) :
    t.eval (c.mapFinish f) = t.eval c := by
  induction t with
  | leaf xs => rfl
  | built xs => rfl
  | node l r ihl ihr => show c.merge _ _ = c.merge _ _; rw [ihl, ihr]
  | more t xs ih => show c.foldAdd _ xs = c.foldAdd _ xs; rw [ih]

/-! ## the outputs are the mathematical ones -/

/-- `r` is a minimum of `xs`: an element of `xs` below which there is nothing; `none` iff `xs` is empty -/
def IsMinOf (lt : α → α → Bool) (xs : List α) : Option α → Prop
  | none => xs = []
  | some m => m ∈ xs ∧ ∀ x ∈ xs, lt x m = false
def IsMaxOf (lt : α → α → Bool) (xs : List α) : Option α → Prop
  | none => xs = []
  | some m => m ∈ xs ∧ ∀ x ∈ xs, lt m x = false

theorem isMinOf_merge (h : StrictWeakB lt) {xs ys : List α} : ∀ {a b : Option α}, IsMinOf lt xs a → IsMinOf lt ys b →
    IsMinOf lt (xs ++ ys) (optMerge (pickMin lt) a b)
  | none, none, ha, hb => by simp only [IsMinOf] at *; simp [ha, hb, optMerge]
  | some a, none, ha, hb => by simp only [IsMinOf] at *; subst hb; simpa [optMerge] using ha
  | none, some b, ha, hb => by simp only [IsMinOf] at *; subst ha; simpa [optMerge] using hb
  | some a, some b, ha, hb => by
    simp only [IsMinOf, optMerge, pickMin] at *
    cases h1 : lt b a <;> simp only [if_true, if_false, Bool.false_eq_true]
    · refine ⟨List.mem_append_left _ ha.1, ?_⟩
      intro x hx
      rcases List.mem_append.mp hx with hx | hx
      · exact ha.2 x hx
      · exact h.neg_trans x b a (hb.2 x hx) h1
    · refine ⟨List.mem_append_right _ hb.1, ?_⟩
      intro x hx
      rcases List.mem_append.mp hx with hx | hx
      · exact h.neg_trans x a b (ha.2 x hx) (h.asymm h1)
      · exact hb.2 x hx

theorem isMaxOf_merge (h : StrictWeakB lt) {xs ys : List α} : ∀ {a b : Option α}, IsMaxOf lt xs a → IsMaxOf lt ys b →
    IsMaxOf lt (xs ++ ys) (optMerge (pickMax lt) a b)
  | none, none, ha, hb => by simp only [IsMaxOf] at *; simp [ha, hb, optMerge]
  | some a, none, ha, hb => by simp only [IsMaxOf] at *; subst hb; simpa [optMerge] using ha
  | none, some b, ha, hb => by simp only [IsMaxOf] at *; subst ha; simpa [optMerge] using hb
  | some a, some b, ha, hb => by
    simp only [IsMaxOf, optMerge, pickMax] at *
    cases h1 : lt a b <;> simp only [if_true, if_false, Bool.false_eq_true]
    · refine ⟨List.mem_append_left _ ha.1, ?_⟩
      intro x hx
      rcases List.mem_append.mp hx with hx | hx
      · exact ha.2 x hx
      · exact h.neg_trans a b x h1 (hb.2 x hx)
    · refine ⟨List.mem_append_right _ hb.1, ?_⟩
      intro x hx
      rcases List.mem_append.mp hx with hx | hx
      · exact h.neg_trans b a x (h.asymm h1) (ha.2 x hx)
      · exact hb.2 x hx

theorem isMinOf_single (h : StrictWeakB lt) (v : α) : IsMinOf lt [v] (some v) :=
  ⟨List.mem_singleton.mpr rfl, fun x hx => by rw [List.mem_singleton.mp hx]; exact h.irrefl v⟩
theorem isMaxOf_single (h : StrictWeakB lt) (v : α) : IsMaxOf lt [v] (some v) :=
  ⟨List.mem_singleton.mpr rfl, fun x hx => by rw [List.mem_singleton.mp hx]; exact h.irrefl v⟩

theorem isMinOf_foldAdd (h : StrictWeakB lt) (ys : List α) : ∀ {xs : List α} {a : Option α}, IsMinOf lt xs a →
    IsMinOf lt (xs ++ ys) ((minBy lt).foldAdd a ys) := by
  induction ys with
  | nil => intro xs a ha; simpa using ha
  | cons y ys ih =>
    intro xs a ha
    rw [Combiner.foldAdd_cons, minBy_add_eq]
    have := ih (isMinOf_merge h ha (isMinOf_single h y))
    simpa [List.append_assoc] using this

theorem isMaxOf_foldAdd (h : StrictWeakB lt) (ys : List α) : ∀ {xs : List α} {a : Option α}, IsMaxOf lt xs a →
    IsMaxOf lt (xs ++ ys) ((maxBy lt).foldAdd a ys) := by
  induction ys with
  | nil => intro xs a ha; simpa using ha
  | cons y ys ih =>
    intro xs a ha
    rw [Combiner.foldAdd_cons, maxBy_add_eq]
    have := ih (isMaxOf_merge h ha (isMaxOf_single h y))
    simpa [List.append_assoc] using this

theorem isMaxOf_iterMax (h : StrictWeakB lt) (xs : List α) : ∀ (ys : List α) (m : α), IsMaxOf lt ys (some m) →
    IsMaxOf lt (ys ++ xs) (some (xs.foldl (fun m y => if lt y m then m else y) m)) := by
  induction xs with
  | nil => intro ys m hm; simpa using hm
  | cons x xs ih =>
    intro ys m hm
    simp only [List.foldl_cons]
    have step : IsMaxOf lt (ys ++ [x]) (some (if lt x m then m else x)) := by
      simp only [IsMaxOf] at *
      cases h1 : lt x m <;> simp only [if_true, if_false, Bool.false_eq_true]
      · refine ⟨by simp, ?_⟩
        intro z hz
        rcases List.mem_append.mp hz with hz | hz
        · exact h.neg_trans x m z h1 (hm.2 z hz)
        · rw [List.mem_singleton.mp hz]; exact h.irrefl x
      · refine ⟨List.mem_append_left _ hm.1, ?_⟩
        intro z hz
        rcases List.mem_append.mp hz with hz | hz
        · exact hm.2 z hz
        · rw [List.mem_singleton.mp hz]; exact h.asymm h1
    have := ih (ys ++ [x]) _ step
    simpa [List.append_assoc] using this

/-- every merge tree of `Min` holds a minimum of the tree's values (`none` iff there are none) -/
theorem minBy_tree_isMin (h : StrictWeakB lt) (t : MergeTree α) : IsMinOf lt t.leaves (t.eval (minBy lt)) := by
  induction t with
  | leaf xs =>
    show IsMinOf lt xs ((minBy lt).foldAdd none xs)
    have := isMinOf_foldAdd h xs (xs := []) (a := none) rfl
    simpa using this
  | built xs =>
    show IsMinOf lt xs ((minBy lt).build xs)
    rw [minBy_build_eq_fold]
    show IsMinOf lt xs ((minBy lt).foldAdd none xs)
    have := isMinOf_foldAdd h xs (xs := []) (a := none) rfl
    simpa using this
  | node l r ihl ihr =>
    show IsMinOf lt (l.leaves ++ r.leaves) ((minBy lt).merge _ _)
    rw [minBy_merge_eq]; exact isMinOf_merge h ihl ihr
  | more t xs ih => exact isMinOf_foldAdd h xs ih

theorem maxBy_tree_isMax (h : StrictWeakB lt) (t : MergeTree α) : IsMaxOf lt t.leaves (t.eval (maxBy lt)) := by
  induction t with
  | leaf xs =>
    show IsMaxOf lt xs ((maxBy lt).foldAdd none xs)
    have := isMaxOf_foldAdd h xs (xs := []) (a := none) rfl
    simpa using this
  | built xs =>
    show IsMaxOf lt xs ((maxBy lt).build xs)
    cases xs with
    | nil => rfl
    | cons x xs =>
      have := isMaxOf_iterMax h xs [x] x (isMaxOf_single h x)
      simpa [maxBy, iterMaxBy] using this
  | node l r ihl ihr =>
    show IsMaxOf lt (l.leaves ++ r.leaves) ((maxBy lt).merge _ _)
    rw [maxBy_merge_eq]; exact isMaxOf_merge h ihl ihr
  | more t xs ih => exact isMaxOf_foldAdd h xs ih

end

/-! ## total orders (`Equal` means identical): everything on the nose, any order -/

section
variable {α : Type} {lt : α → α → Bool}

theorem optEquiv_eq (anti : ∀ a b, Equiv lt a b → a = b) : ∀ {a b : Option α}, OptEquiv lt a b → a = b
  | none, none, _ => rfl
  | some a, some b, e => by rw [anti a b e]
  | none, some _, e => e.elim
  | some _, none, e => e.elim

theorem minBy_mergeable_total (h : StrictWeakB lt) (anti : ∀ a b, Equiv lt a b → a = b) : Mergeable (minBy lt) Eq :=
  Mergeable.ofEq _ (minBy_lawful h).merge_fold (minBy_lawful h).build_fold
    (fun xs ys => optEquiv_eq anti ((minBy_mergeable_equiv h id (fun a b e => anti a b e)).merge_comm xs ys))

theorem maxBy_mergeable_total (h : StrictWeakB lt) (anti : ∀ a b, Equiv lt a b → a = b) : Mergeable (maxBy lt) Eq :=
  Mergeable.ofEq _ (maxBy_lawful h anti).merge_fold (maxBy_lawful h anti).build_fold
    (fun xs ys => optEquiv_eq anti ((maxBy_mergeable_equiv h id (fun a b e => anti a b e)).merge_comm xs ys))

end

/-! ## instances -/

theorem ltKey_strictWeak : StrictWeakB ltKey where
  irrefl a := by simp [ltKey]
  trans a b c h1 h2 := by simp only [ltKey, decide_eq_true_eq] at *; omega
  neg_trans a b c h1 h2 := by simp only [ltKey, decide_eq_false_iff_not] at *; omega

theorem ltInt_strictWeak : StrictWeakB (fun a b : Int => decide (a < b)) where
  irrefl a := by simp
  trans a b c h1 h2 := by simp only [decide_eq_true_eq] at *; omega
  neg_trans a b c h1 h2 := by simp only [decide_eq_false_iff_not] at *; omega

theorem ltInt_anti : ∀ a b : Int, Equiv (fun a b : Int => decide (a < b)) a b → a = b := by
  intro a b e
  have e1 := e.1; have e2 := e.2
  simp only [decide_eq_false_iff_not] at e1 e2
  omega

/-- the `i64` model of round 1 is this generic model at `<` on `Int` -/
theorem minC_eq_minBy : minC = minBy (fun a b : Int => decide (a < b)) := by
  unfold minC minBy
  congr 1
  · funext acc v; cases acc <;> simp
  · funext acc other; cases acc <;> cases other <;> simp
  · funext xs; cases xs <;> simp [iterMin, iterMinBy]

theorem maxC_eq_maxBy : maxC = maxBy (fun a b : Int => decide (a < b)) := by
  unfold maxC maxBy
  congr 1
  · funext acc v; cases acc <;> simp
  · funext acc other; cases acc <;> cases other <;> simp
  · funext xs; cases xs <;> simp [iterMax, iterMaxBy]

end IB.Combiners
