import IbModel.Model.Program
import IbModel.Model.CombinerCore
import IbModel.Proofs.ValOrder
import IbModel.Proofs.CombInst
/-!
# From plain algebraic laws to `LawfulCombiner` (C05: "any user combiner that is associative and commutative")

`AlgebraicLaws c R I` is what a user would check of a hand-written combiner: on the accumulators that can occur
(`I`: contains `create`, closed under `add_input` and `merge`) and up to an accumulator equivalence `R` that is a
congruence for `merge` and that `finish` cannot see through,

* `merge` is associative and commutative, `merge a create ~ a`,
* `add_input a x ~ merge a (add_input create x)`,
* `build_from_group xs ~ foldl add_input create xs` (the trait's default).

`lawful_of_algebraic_laws` derives `LawfulCombiner c R` from it — the hypothesis of every C05 theorem — and
`lawful_of_comm_monoid` is the special case `R := Eq`, `I := True` (the laws hold for all accumulators). The three user
combiners of the pipeline model (`Model/UserCombiners.lean`) are shown lawful THROUGH this bridge.
-/
namespace IB

structure AlgebraicLaws {V A O : Type} (c : Combiner V A O) (R : A → A → Prop) (I : A → Prop) : Prop where
  refl : ∀ a, R a a
  symm : ∀ {a b}, R a b → R b a
  trans : ∀ {a b d}, R a b → R b d → R a d
  merge_congr : ∀ {a a' b b'}, R a a' → R b b' → R (c.merge a b) (c.merge a' b')
  finish_congr : ∀ {a b}, R a b → c.finish a = c.finish b
  inv_create : I c.create
  inv_add : ∀ {a} (v : V), I a → I (c.add a v)
  inv_merge : ∀ {a b}, I a → I b → I (c.merge a b)
  merge_assoc : ∀ {a b d}, I a → I b → I d → R (c.merge (c.merge a b) d) (c.merge a (c.merge b d))
  merge_comm : ∀ {a b}, I a → I b → R (c.merge a b) (c.merge b a)
  merge_create : ∀ {a}, I a → R (c.merge a c.create) a
  add_eq_merge : ∀ {a} (v : V), I a → R (c.add a v) (c.merge a (c.add c.create v))
  build_eq_fold : ∀ xs, R (c.build xs) (c.foldAdd c.create xs)

namespace AlgebraicLaws
variable {V A O : Type} {c : Combiner V A O} {R : A → A → Prop} {I : A → Prop}

theorem inv_fold (h : AlgebraicLaws c R I) (xs : List V) : ∀ {a}, I a → I (c.foldAdd a xs) := by
  induction xs with
  | nil => intro a ha; exact ha
  | cons x xs ih => intro a ha; exact ih (h.inv_add x ha)

theorem add_congr (h : AlgebraicLaws c R I) {a b : A} (v : V) (ha : I a) (hb : I b) (r : R a b) :
    R (c.add a v) (c.add b v) :=
  h.trans (h.add_eq_merge v ha) (h.trans (h.merge_congr r (h.refl _)) (h.symm (h.add_eq_merge v hb)))

theorem foldAdd_congr (h : AlgebraicLaws c R I) (xs : List V) :
    ∀ {a b}, I a → I b → R a b → R (c.foldAdd a xs) (c.foldAdd b xs) := by
  induction xs with
  | nil => intro a b _ _ r; exact r
  | cons x xs ih => intro a b ha hb r; exact ih (h.inv_add x ha) (h.inv_add x hb) (h.add_congr x ha hb r)

/-- merging `a` with a fold that started at `b` is the fold that starts at `merge a b` -/
theorem merge_foldAdd (h : AlgebraicLaws c R I) (ys : List V) :
    ∀ {a b}, I a → I b → R (c.merge a (c.foldAdd b ys)) (c.foldAdd (c.merge a b) ys) := by
  induction ys with
  | nil => intro a b _ _; exact h.refl _
  | cons y ys ih =>
    intro a b ha hb
    have hu : I (c.add c.create y) := h.inv_add y h.inv_create
    -- merge a (add b y) ~ merge a (merge b u) ~ merge (merge a b) u ~ add (merge a b) y
    have e1 : R (c.merge a (c.add b y)) (c.add (c.merge a b) y) :=
      h.trans (h.merge_congr (h.refl a) (h.add_eq_merge y hb))
        (h.trans (h.symm (h.merge_assoc ha hb hu)) (h.symm (h.add_eq_merge y (h.inv_merge ha hb))))
    exact h.trans (ih ha (h.inv_add y hb))
      (h.foldAdd_congr ys (h.inv_merge ha (h.inv_add y hb)) (h.inv_add y (h.inv_merge ha hb)) e1)

theorem merge_fold (h : AlgebraicLaws c R I) (xs ys : List V) :
    R (c.merge (c.foldAdd c.create xs) (c.foldAdd c.create ys)) (c.foldAdd c.create (xs ++ ys)) := by
  have hx : I (c.foldAdd c.create xs) := h.inv_fold xs h.inv_create
  rw [Combiner.foldAdd_append]
  exact h.trans (h.merge_foldAdd ys hx h.inv_create)
    (h.foldAdd_congr ys (h.inv_merge hx h.inv_create) hx (h.merge_create hx))

end AlgebraicLaws

/-- THE BRIDGE: a combiner with the plain algebraic laws (associative + commutative `merge` with unit `create`,
    `add a x ~ merge a (add create x)`, `build ~ fold`) is a `LawfulCombiner` — so every theorem of C05 (and, through
    the node contracts, of C01) applies to it. (Commutativity is part of the property's hypothesis; the engine merges
    in partition order and the derivation does not need it.) -/
theorem lawful_of_algebraic_laws {V A O : Type} {c : Combiner V A O} {R : A → A → Prop} {I : A → Prop}
    (h : AlgebraicLaws c R I) : LawfulCombiner c R where
  refl := h.refl
  symm := h.symm
  trans := h.trans
  merge_congr := h.merge_congr
  finish_congr := h.finish_congr
  merge_fold := h.merge_fold
  build_fold := h.build_eq_fold

/-- the literal reading of the property: the laws as EQUATIONS on ALL accumulators -/
theorem lawful_of_comm_monoid {V A O : Type} (c : Combiner V A O)
    (assoc : ∀ a b d, c.merge (c.merge a b) d = c.merge a (c.merge b d))
    (comm : ∀ a b, c.merge a b = c.merge b a)
    (unit : ∀ a, c.merge a c.create = a)
    (add_merge : ∀ a v, c.add a v = c.merge a (c.add c.create v))
    (build_fold : ∀ xs, c.build xs = xs.foldl c.add c.create) : LawfulCombiner c Eq :=
  lawful_of_algebraic_laws (I := fun _ => True)
    { refl := fun _ => rfl, symm := fun h => h.symm, trans := fun h1 h2 => h1.trans h2,
      merge_congr := fun h1 h2 => by rw [h1, h2], finish_congr := fun h => by rw [h],
      inv_create := trivial, inv_add := fun _ _ => trivial, inv_merge := fun _ _ => trivial,
      merge_assoc := fun _ _ _ => assoc _ _ _, merge_comm := fun _ _ => comm _ _,
      merge_create := fun _ => unit _, add_eq_merge := fun v _ => add_merge _ v,
      build_eq_fold := build_fold }

open Val

/-! ## `userSumMod m` -/

def SumModInv (m : Int) (a : Val) : Prop := ∃ s n : Int, a = .pair (.int s) (.int n) ∧ s % m = s

theorem userSumMod_laws (m : Int) : AlgebraicLaws (userSumMod m) Eq (SumModInv m) where
  refl _ := rfl
  symm h := h.symm
  trans h1 h2 := h1.trans h2
  merge_congr h1 h2 := by rw [h1, h2]
  finish_congr h := by rw [h]
  inv_create := ⟨0, 0, rfl, by simp⟩
  inv_add := by
    rintro a v ⟨s, n, rfl, _⟩
    exact ⟨(s + v.toInt) % m, n + 1, rfl, Int.emod_emod_of_dvd _ (Int.dvd_refl m)⟩
  inv_merge := by
    rintro a b ⟨s, n, rfl, _⟩ ⟨s', n', rfl, _⟩
    exact ⟨(s + s') % m, n + n', rfl, Int.emod_emod_of_dvd _ (Int.dvd_refl m)⟩
  merge_assoc := by
    rintro a b d ⟨s, n, rfl, _⟩ ⟨s', n', rfl, _⟩ ⟨s'', n'', rfl, _⟩
    show Val.pair (.int (((s + s') % m + s'') % m)) (.int (n + n' + n'')) =
      Val.pair (.int ((s + (s' + s'') % m) % m)) (.int (n + (n' + n'')))
    rw [Int.emod_add_emod, Int.add_emod_emod, Int.add_assoc, Int.add_assoc]
  merge_comm := by
    rintro a b ⟨s, n, rfl, _⟩ ⟨s', n', rfl, _⟩
    show Val.pair (.int ((s + s') % m)) (.int (n + n')) = Val.pair (.int ((s' + s) % m)) (.int (n' + n))
    rw [Int.add_comm s, Int.add_comm n]
  merge_create := by
    rintro a ⟨s, n, rfl, hs⟩
    show Val.pair (.int ((s + 0) % m)) (.int (n + 0)) = _
    rw [Int.add_zero, Int.add_zero, hs]
  add_eq_merge := by
    rintro a v ⟨s, n, rfl, _⟩
    show Val.pair (.int ((s + v.toInt) % m)) (.int (n + 1)) =
      Val.pair (.int ((s + (0 + v.toInt) % m) % m)) (.int (n + (0 + 1)))
    rw [Int.zero_add, Int.zero_add, Int.add_emod_emod]
  build_eq_fold _ := rfl


/-! ## `userMaxAbs` -/

theorem absLe_total (a b : Val) : absLe a b = true ∨ absLe b a = true := by
  unfold absLe
  simp only
  by_cases h1 : a.toInt.natAbs < b.toInt.natAbs
  · simp [h1]
  · by_cases h2 : b.toInt.natAbs < a.toInt.natAbs
    · simp [h1, h2]
    · simp only [h1, h2, ↓reduceIte]
      exact Val.le_total a b

theorem absLe_trans {a b d : Val} (h1 : absLe a b = true) (h2 : absLe b d = true) : absLe a d = true := by
  unfold absLe at *
  simp only at *
  by_cases x1 : a.toInt.natAbs < b.toInt.natAbs
  · by_cases y1 : b.toInt.natAbs < d.toInt.natAbs
    · have : a.toInt.natAbs < d.toInt.natAbs := by omega
      simp [this]
    · by_cases y2 : d.toInt.natAbs < b.toInt.natAbs
      · simp [y1, y2] at h2
      · have : a.toInt.natAbs < d.toInt.natAbs := by omega
        simp [this]
  · by_cases x2 : b.toInt.natAbs < a.toInt.natAbs
    · simp [x1, x2] at h1
    · simp only [x1, x2, ↓reduceIte] at h1
      by_cases y1 : b.toInt.natAbs < d.toInt.natAbs
      · have : a.toInt.natAbs < d.toInt.natAbs := by omega
        simp [this]
      · by_cases y2 : d.toInt.natAbs < b.toInt.natAbs
        · simp [y1, y2] at h2
        · simp only [y1, y2, ↓reduceIte] at h2
          have n1 : ¬ a.toInt.natAbs < d.toInt.natAbs := by omega
          have n2 : ¬ d.toInt.natAbs < a.toInt.natAbs := by omega
          simp only [n1, n2, ↓reduceIte]
          exact Val.le_trans h1 h2

theorem absLe_antisymm {a b : Val} (h1 : absLe a b = true) (h2 : absLe b a = true) : a = b := by
  unfold absLe at *
  simp only at *
  by_cases x1 : a.toInt.natAbs < b.toInt.natAbs
  · have : ¬ b.toInt.natAbs < a.toInt.natAbs := by omega
    simp [x1, this] at h2
  · by_cases x2 : b.toInt.natAbs < a.toInt.natAbs
    · simp [x1, x2] at h1
    · simp only [x1, x2, ↓reduceIte] at h1 h2
      exact Val.le_antisymm h1 h2

theorem pickAbs_comm (a b : Val) : pickAbs a b = pickAbs b a := by
  unfold pickAbs
  cases h1 : absLe b a <;> cases h2 : absLe a b <;> simp
  · rcases absLe_total a b with h | h
    · rw [h2] at h; exact absurd h (by simp)
    · rw [h1] at h; exact absurd h (by simp)
  · exact absLe_antisymm h2 h1

theorem pickAbs_assoc (a b d : Val) : pickAbs (pickAbs a b) d = pickAbs a (pickAbs b d) := by
  unfold pickAbs
  cases h1 : absLe b a <;> cases h2 : absLe d b <;> simp [h1, h2]
  · -- ¬ b ≤ a, ¬ d ≤ b  ⇒ ¬ d ≤ a
    cases h3 : absLe d a
    · simp
    · have hab : absLe a b = true := by
        rcases absLe_total a b with h | h
        · exact h
        · rw [h1] at h; exact absurd h (by simp)
      have := absLe_trans h3 hab
      rw [h2] at this; exact absurd this (by simp)
  · -- b ≤ a, d ≤ b ⇒ d ≤ a
    rw [absLe_trans h2 h1]; simp

def MaxAbsInv (a : Val) : Prop := a = .nil ∨ ∃ c, a = .cons c .nil

theorem userMaxAbs_laws : AlgebraicLaws userMaxAbs Eq MaxAbsInv where
  refl _ := rfl
  symm h := h.symm
  trans h1 h2 := h1.trans h2
  merge_congr h1 h2 := by rw [h1, h2]
  finish_congr h := by rw [h]
  inv_create := Or.inl rfl
  inv_add := by
    rintro a v (rfl | ⟨c, rfl⟩)
    · exact Or.inr ⟨v, rfl⟩
    · exact Or.inr ⟨pickAbs c v, rfl⟩
  inv_merge := by
    rintro a b (rfl | ⟨c, rfl⟩) (rfl | ⟨d, rfl⟩)
    · exact Or.inl rfl
    · exact Or.inr ⟨d, rfl⟩
    · exact Or.inr ⟨c, rfl⟩
    · exact Or.inr ⟨pickAbs c d, rfl⟩
  merge_assoc := by
    rintro a b d (rfl | ⟨x, rfl⟩) (rfl | ⟨y, rfl⟩) (rfl | ⟨z, rfl⟩) <;>
      simp [userMaxAbs, maxAbsAdd, Val.toList, pickAbs_assoc]
  merge_comm := by
    rintro a b (rfl | ⟨x, rfl⟩) (rfl | ⟨y, rfl⟩) <;> simp [userMaxAbs, maxAbsAdd, Val.toList]
    exact pickAbs_comm x y
  merge_create := by
    rintro a (rfl | ⟨x, rfl⟩) <;> simp [userMaxAbs, Val.toList]
  add_eq_merge := by
    rintro a v (rfl | ⟨x, rfl⟩) <;> simp [userMaxAbs, maxAbsAdd, Val.toList]
  build_eq_fold _ := rfl


/-! ## `userUnion`: strictly ascending lists -/

def SSorted (l : List Val) : Prop := l.Pairwise (fun x y => Val.lt x y = true)

theorem lt_iff {a b : Val} : Val.lt a b = true ↔ Val.le a b = true ∧ a ≠ b := by
  unfold Val.lt; simp

theorem lt_irrefl (a : Val) : Val.lt a a = false := by
  unfold Val.lt; simp

theorem lt_trans' {a b d : Val} (h1 : Val.lt a b = true) (h2 : Val.lt b d = true) : Val.lt a d = true := by
  rw [lt_iff] at *
  refine ⟨Val.le_trans h1.1 h2.1, ?_⟩
  rintro rfl
  exact h1.2 (Val.le_antisymm h1.1 h2.1)

theorem lt_asymm {a b : Val} (h1 : Val.lt a b = true) (h2 : Val.lt b a = true) : False := by
  rw [lt_iff] at *
  exact h1.2 (Val.le_antisymm h1.1 h2.1)

theorem lt_of_not {a b : Val} (hne : a ≠ b) (h : Val.lt a b = false) : Val.lt b a = true := by
  rw [lt_iff]
  have : ¬ (Val.le a b = true ∧ a ≠ b) := by rw [← lt_iff, h]; simp
  refine ⟨?_, fun e => hne e.symm⟩
  rcases Val.le_total a b with h' | h'
  · exact absurd ⟨h', hne⟩ this
  · exact h'

theorem mem_sortedInsert (l : List Val) (v x : Val) : x ∈ sortedInsert l v ↔ x = v ∨ x ∈ l := by
  induction l with
  | nil => simp [sortedInsert]
  | cons y ys ih =>
    unfold sortedInsert
    by_cases h1 : v = y
    · subst h1; simp
    · have : (v == y) = false := by simp [h1]
      simp only [this, Bool.false_eq_true, ↓reduceIte]
      by_cases h2 : Val.lt v y = true
      · simp [h2]
      · simp only [h2, Bool.false_eq_true, ↓reduceIte, List.mem_cons, ih]
        constructor
        · rintro (h | h | h) <;> simp [h]
        · rintro (h | h | h) <;> simp [h]

theorem sorted_sortedInsert (l : List Val) (v : Val) (hl : SSorted l) : SSorted (sortedInsert l v) := by
  induction l with
  | nil => simp [sortedInsert, SSorted]
  | cons y ys ih =>
    unfold sortedInsert
    by_cases h1 : v = y
    · subst h1; simpa using hl
    · have : (v == y) = false := by simp [h1]
      simp only [this, Bool.false_eq_true, ↓reduceIte]
      have hl' := List.pairwise_cons.mp hl
      by_cases h2 : Val.lt v y = true
      · simp only [h2, ↓reduceIte]
        refine List.pairwise_cons.mpr ⟨?_, hl⟩
        intro z hz
        rcases List.mem_cons.mp hz with rfl | hz
        · exact h2
        · exact lt_trans' h2 (hl'.1 z hz)
      · simp only [h2, Bool.false_eq_true, ↓reduceIte]
        refine List.pairwise_cons.mpr ⟨?_, ih hl'.2⟩
        intro z hz
        rcases (mem_sortedInsert ys v z).mp hz with rfl | hz
        · exact lt_of_not h1 (by simpa using h2)
        · exact hl'.1 z hz

/-- a strictly ascending list is determined by its elements -/
theorem sorted_ext : ∀ {l₁ l₂ : List Val}, SSorted l₁ → SSorted l₂ → (∀ x, x ∈ l₁ ↔ x ∈ l₂) → l₁ = l₂
  | [], [], _, _, _ => rfl
  | [], y :: ys, _, _, h => by have := (h y).mpr (by simp); simp at this
  | x :: xs, [], _, _, h => by have := (h x).mp (by simp); simp at this
  | x :: xs, y :: ys, h1, h2, h => by
    have p1 := List.pairwise_cons.mp h1
    have p2 := List.pairwise_cons.mp h2
    have hxy : x = y := by
      rcases List.mem_cons.mp ((h x).mp (by simp)) with e | hx
      · exact e
      · rcases List.mem_cons.mp ((h y).mpr (by simp)) with e | hy
        · exact e.symm
        · exact absurd (lt_asymm (p1.1 y hy) (p2.1 x hx)) id
    subst hxy
    have : xs = ys := by
      apply sorted_ext p1.2 p2.2
      intro z
      constructor
      · intro hz
        rcases List.mem_cons.mp ((h z).mp (List.mem_cons_of_mem _ hz)) with e | h'
        · subst e; have := p1.1 z hz; rw [lt_irrefl] at this; exact absurd this (by simp)
        · exact h'
      · intro hz
        rcases List.mem_cons.mp ((h z).mpr (List.mem_cons_of_mem _ hz)) with e | h'
        · subst e; have := p2.1 z hz; rw [lt_irrefl] at this; exact absurd this (by simp)
        · exact h'
    rw [this]

theorem mem_foldl_sortedInsert (b : List Val) : ∀ (a : List Val) (x : Val),
    x ∈ b.foldl sortedInsert a ↔ x ∈ a ∨ x ∈ b := by
  induction b with
  | nil => intro a x; simp
  | cons y ys ih =>
    intro a x
    simp only [List.foldl_cons, ih, mem_sortedInsert, List.mem_cons]
    constructor
    · rintro ((h | h) | h) <;> simp [h]
    · rintro (h | h | h) <;> simp [h]

theorem sorted_foldl_sortedInsert (b : List Val) : ∀ (a : List Val), SSorted a → SSorted (b.foldl sortedInsert a) := by
  induction b with
  | nil => intro a h; exact h
  | cons y ys ih => intro a h; exact ih _ (sorted_sortedInsert a y h)

def UnionInv (a : Val) : Prop := ∃ l, a = Val.ofList l ∧ SSorted l

theorem userUnion_laws : AlgebraicLaws userUnion Eq UnionInv where
  refl _ := rfl
  symm h := h.symm
  trans h1 h2 := h1.trans h2
  merge_congr h1 h2 := by rw [h1, h2]
  finish_congr h := by rw [h]
  inv_create := ⟨[], rfl, by simp [SSorted]⟩
  inv_add := by
    rintro a v ⟨l, rfl, hl⟩
    exact ⟨sortedInsert l v, by simp [userUnion], sorted_sortedInsert l v hl⟩
  inv_merge := by
    rintro a b ⟨l, rfl, hl⟩ ⟨l', rfl, _⟩
    exact ⟨l'.foldl sortedInsert l, by simp [userUnion], sorted_foldl_sortedInsert l' l hl⟩
  merge_assoc := by
    rintro a b d ⟨l, rfl, hl⟩ ⟨l', rfl, hl'⟩ ⟨l'', rfl, _⟩
    simp only [userUnion, Val.toList_ofList]
    congr 1
    apply sorted_ext (sorted_foldl_sortedInsert _ _ (sorted_foldl_sortedInsert _ _ hl))
      (sorted_foldl_sortedInsert _ _ hl)
    intro x
    simp only [mem_foldl_sortedInsert]
    constructor
    · rintro ((h | h) | h) <;> simp [h]
    · rintro (h | h | h) <;> simp [h]
  merge_comm := by
    rintro a b ⟨l, rfl, hl⟩ ⟨l', rfl, hl'⟩
    simp only [userUnion, Val.toList_ofList]
    congr 1
    apply sorted_ext (sorted_foldl_sortedInsert _ _ hl) (sorted_foldl_sortedInsert _ _ hl')
    intro x
    simp only [mem_foldl_sortedInsert]
    exact Or.comm
  merge_create := by
    rintro a ⟨l, rfl, _⟩
    simp [userUnion, Val.toList]
  add_eq_merge := by
    rintro a v ⟨l, rfl, _⟩
    simp [userUnion, Val.toList, sortedInsert]
  build_eq_fold _ := rfl


end IB
