import IbModel.Model.ProgramTerm
import IbModel.Proofs.ValOrder
import IbModel.Proofs.ElementwiseProgram
/-!
# Terminals: `collect_fail_fast` and the sorted collects (`Model/ProgramTerm.lean`)

* `failFast` (the transliterated loop) is `List.mapM resultOf`: `Ok(all values, in order)` iff no element is an
  `Err`, otherwise the error of the FIRST `Err` in sequence order, wrapped as `"element failed: <e>"`.
* `sortRows` (the element's `Ord`: a total, transitive, antisymmetric order) forgets the input order completely:
  two row lists that are permutations of each other sort to the SAME sequence. `sortByKey` (stable, keys only)
  does not: it is determined up to the order of equal-key rows, and keeps their arrival order.
-/
namespace IB
open Val

/-! ## collect_fail_fast -/

theorem failFastLoop_ok (ok rows : List Val) (h : ∀ r ∈ rows, isErrRow r = false) :
    failFastLoop ok rows = .ok (ok ++ rows.map Val.value) := by
  induction rows generalizing ok with
  | nil => simp [failFastLoop]
  | cons r rest ih =>
    have hr : isErrRow r = false := h r (by simp)
    rw [failFastLoop]
    simp only [hr, Bool.false_eq_true, ↓reduceIte]
    rw [ih _ (fun x hx => h x (List.mem_cons_of_mem _ hx))]
    simp

theorem failFastLoop_err (ok pre post : List Val) (r : Val) (hpre : ∀ x ∈ pre, isErrRow x = false)
    (hr : isErrRow r = true) : failFastLoop ok (pre ++ r :: post) = .error (failMsg r.value) := by
  induction pre generalizing ok with
  | nil => simp [failFastLoop, hr]
  | cons x pre ih =>
    have hx : isErrRow x = false := hpre x (by simp)
    rw [List.cons_append, failFastLoop]
    simp only [hx, Bool.false_eq_true, ↓reduceIte]
    exact ih _ (fun y hy => hpre y (List.mem_cons_of_mem _ hy))

/-- every row list either has no `Err`, or splits at its FIRST `Err` -/
theorem firstErr_split (rows : List Val) :
    (∀ r ∈ rows, isErrRow r = false) ∨
    ∃ pre r post, rows = pre ++ r :: post ∧ (∀ x ∈ pre, isErrRow x = false) ∧ isErrRow r = true := by
  induction rows with
  | nil => left; simp
  | cons x rest ih =>
    cases hx : isErrRow x with
    | true => right; exact ⟨[], x, rest, rfl, by simp, hx⟩
    | false =>
      rcases ih with h | ⟨pre, r, post, h1, h2, h3⟩
      · left; intro r hr; simp only [List.mem_cons] at hr; rcases hr with rfl | hr; exact hx; exact h r hr
      · right
        refine ⟨x :: pre, r, post, by simp [h1], ?_, h3⟩
        intro y hy; simp only [List.mem_cons] at hy; rcases hy with rfl | hy; exact hx; exact h2 y hy

/-- `Ok(all values in order)` iff no element failed -/
theorem failFast_ok_iff (rows vs : List Val) :
    failFast rows = .ok vs ↔ (∀ r ∈ rows, isErrRow r = false) ∧ vs = rows.map Val.value := by
  unfold failFast
  constructor
  · intro h
    rcases firstErr_split rows with hall | ⟨pre, r, post, h1, h2, h3⟩
    · rw [failFastLoop_ok [] rows hall] at h
      simp only [List.nil_append, Except.ok.injEq] at h
      exact ⟨hall, h.symm⟩
    · rw [h1, failFastLoop_err [] pre post r h2 h3] at h
      exact absurd h (by simp)
  · rintro ⟨hall, rfl⟩
    rw [failFastLoop_ok [] rows hall]; simp

/-- otherwise `Err`, carrying the message of the FIRST failing element in sequence order -/
theorem failFast_error_iff (rows : List Val) (m : Val) :
    failFast rows = .error m ↔
      ∃ pre r post, rows = pre ++ r :: post ∧ (∀ x ∈ pre, isErrRow x = false) ∧ isErrRow r = true ∧
        m = failMsg r.value := by
  unfold failFast
  constructor
  · intro h
    rcases firstErr_split rows with hall | ⟨pre, r, post, h1, h2, h3⟩
    · rw [failFastLoop_ok [] rows hall] at h; exact absurd h (by simp)
    · refine ⟨pre, r, post, h1, h2, h3, ?_⟩
      rw [h1, failFastLoop_err [] pre post r h2 h3] at h
      simp only [Except.error.injEq] at h
      exact h.symm
  · rintro ⟨pre, r, post, rfl, h2, h3, rfl⟩
    exact failFastLoop_err [] pre post r h2 h3

/-- the loop is `List.mapM` over the per-element reading of a `Result` -/
theorem failFast_eq_mapM (rows : List Val) : failFast rows = rows.mapM resultOf := by
  have key : ∀ (rows ok : List Val), failFastLoop ok rows = (rows.mapM resultOf).map (ok ++ ·) := by
    intro rows
    induction rows with
    | nil => intro ok; simp [failFastLoop, Except.map, pure, Except.pure]
    | cons r rest ih =>
      intro ok
      rw [failFastLoop, List.mapM_cons]
      cases hr : isErrRow r with
      | true => simp [resultOf, hr, Except.map, bind, Except.bind]
      | false =>
        simp only [Bool.false_eq_true, ↓reduceIte, resultOf, hr]
        rw [ih]
        cases hm : List.mapM resultOf rest with
        | error e => simp [Except.map, bind, Except.bind]
        | ok vs => simp [Except.map, bind, Except.bind, pure, Except.pure]
  rw [failFast, key]
  cases List.mapM resultOf rows <;> simp [Except.map]

/-! ### … after `try_map` with a named predicate -/

theorem isErrRow_tryPF (p : Pred) (x : Val) : isErrRow (tryPF p x) = !p.eval x := by
  unfold tryPF
  cases p.eval x <;> simp [isErrRow]

theorem value_tryPF_ok (p : Pred) (x : Val) (h : p.eval x = true) : (tryPF p x).value = x := by
  simp [tryPF, h, Val.value]

/-- what `try_map(p)` followed by `collect_fail_fast` must return on the rows `rows`: all of them when every one
    passes, else the error text of the FIRST row (in sequence order) that does not -/
def tryMapSpec (p : Pred) (rows : List Val) : Except Val (List Val) :=
  match rows.find? (fun x => !p.eval x) with
  | Option.none => .ok rows
  | Option.some x => .error (.str ("element failed: " ++ ("bad:" ++ intToDec x.toInt)))

/-- **the terminal after `try_map`** -/
theorem failFast_tryPF (p : Pred) (rows : List Val) :
    failFast (rows.map (tryPF p)) = tryMapSpec p rows := by
  unfold tryMapSpec
  cases hf : rows.find? (fun x => !p.eval x) with
  | none =>
    have hall : ∀ x ∈ rows, p.eval x = true := by
      intro x hx
      have := List.find?_eq_none.mp hf x hx
      simpa using this
    show failFast _ = .ok rows
    rw [failFast_ok_iff]
    refine ⟨?_, ?_⟩
    · intro r hr
      obtain ⟨x, hx, rfl⟩ := List.mem_map.mp hr
      rw [isErrRow_tryPF, hall x hx]; rfl
    · rw [List.map_map]
      symm
      calc rows.map (Val.value ∘ tryPF p) = rows.map id :=
            List.map_congr_left (fun x hx => value_tryPF_ok p x (hall x hx))
        _ = rows := List.map_id _
  | some x =>
    obtain ⟨hx, pre, post, hsplit, hpre⟩ := List.find?_eq_some_iff_append.mp hf
    have hxf : p.eval x = false := by simpa using hx
    show failFast _ = .error _
    rw [failFast_error_iff]
    refine ⟨pre.map (tryPF p), tryPF p x, post.map (tryPF p), by simp [hsplit], ?_, ?_, ?_⟩
    · intro r hr
      obtain ⟨y, hy, rfl⟩ := List.mem_map.mp hr
      have := hpre y hy
      rw [isErrRow_tryPF]; simpa using this
    · rw [isErrRow_tryPF, hxf]; rfl
    · simp [tryPF, hxf, Val.value, failMsg, badMsg]

/-- `toESteps` of an element-wise program followed by one more element-wise step -/
theorem toESteps_snoc (pre : List Step) (es : List EStep) (s : Step) (e : EStep)
    (h : toESteps pre = some es) (hs : s.toEStep = some e) : toESteps (pre ++ [s]) = some (es ++ [e]) := by
  induction pre generalizing es with
  | nil =>
    simp only [toESteps, Option.some.injEq] at h
    subst h
    simp [toESteps, hs]
  | cons a pre ih =>
    unfold toESteps at h
    split at h
    · next e' es' he hes =>
      simp only [Option.some.injEq] at h
      subst h
      rw [List.cons_append]
      unfold toESteps
      rw [he, ih es' hes]
      rfl
    · exact absurd h (by simp)

/-! ## the sorted terminals -/

theorem rowLe_kv (a b : Val) :
    rowLe .kv a b = if a.key == b.key then Val.le a.value b.value else Val.le a.key b.key := rfl

theorem rowLe_total (sh : RowShape) (a b : Val) : (rowLe sh a b || rowLe sh b a) = true := by
  cases sh with
  | t => simpa [rowLe] using Val.le_total a b
  | kv =>
    rw [rowLe_kv, rowLe_kv]
    by_cases hk : a.key = b.key
    · have hk' : b.key = a.key := hk.symm
      simp only [hk, beq_self_eq_true, ↓reduceIte, Bool.or_eq_true]
      exact Val.le_total _ _
    · have hk' : ¬ b.key = a.key := fun h => hk h.symm
      simp only [beq_iff_eq, hk, hk', ↓reduceIte, Bool.or_eq_true]
      exact Val.le_total _ _

theorem rowLe_trans (sh : RowShape) (a b c : Val) (h1 : rowLe sh a b = true) (h2 : rowLe sh b c = true) :
    rowLe sh a c = true := by
  cases sh with
  | t => exact Val.le_trans h1 h2
  | kv =>
    rw [rowLe_kv] at *
    by_cases hab : a.key = b.key
    · by_cases hbc : b.key = c.key
      · have hac : a.key = c.key := hab.trans hbc
        rw [if_pos (by simpa using hab)] at h1
        rw [if_pos (by simpa using hbc)] at h2
        rw [if_pos (by simpa using hac)]
        exact Val.le_trans h1 h2
      · have hac : ¬ a.key = c.key := fun h => hbc (hab.symm.trans h)
        rw [if_neg (by simpa using hbc)] at h2
        rw [if_neg (by simpa using hac), hab]
        exact h2
    · by_cases hbc : b.key = c.key
      · have hac : ¬ a.key = c.key := fun h => hab (h.trans hbc.symm)
        rw [if_neg (by simpa using hab)] at h1
        rw [if_neg (by simpa using hac), ← hbc]
        exact h1
      · rw [if_neg (by simpa using hab)] at h1
        rw [if_neg (by simpa using hbc)] at h2
        have hle : Val.le a.key c.key = true := Val.le_trans h1 h2
        by_cases hac : a.key = c.key
        · exfalso
          apply hab
          exact Val.le_antisymm h1 (by rw [hac]; exact h2)
        · rw [if_neg (by simpa using hac)]; exact hle

/-- rows of a `(K, V)` collection are pairs -/
def isPairRow : Val → Bool
  | .pair _ _ => true
  | _ => false

def shapeOK (sh : RowShape) (r : Val) : Prop := sh = .kv → isPairRow r = true

theorem rowLe_antisymm (sh : RowShape) (a b : Val) (ha : shapeOK sh a) (hb : shapeOK sh b)
    (h1 : rowLe sh a b = true) (h2 : rowLe sh b a = true) : a = b := by
  cases sh with
  | t => exact Val.le_antisymm h1 h2
  | kv =>
    have ha' := ha rfl
    have hb' := hb rfl
    cases a with
    | pair k v =>
      cases b with
      | pair k' v' =>
        rw [rowLe_kv] at h1 h2
        simp only [Val.key, Val.value] at h1 h2
        by_cases hk : k = k'
        · subst hk
          simp only [beq_self_eq_true, ↓reduceIte] at h1 h2
          rw [Val.le_antisymm h1 h2]
        · have hk' : ¬ k' = k := fun h => hk h.symm
          simp only [beq_iff_eq, hk, hk', ↓reduceIte] at h1 h2
          exact absurd (Val.le_antisymm h1 h2) hk
      | _ => simp [isPairRow] at hb'
    | _ => simp [isPairRow] at ha'

theorem sortRows_perm (sh : RowShape) (rows : List Val) : (sortRows sh rows).Perm rows :=
  List.mergeSort_perm rows _

theorem sortRows_sorted (sh : RowShape) (rows : List Val) :
    (sortRows sh rows).Pairwise (fun a b => rowLe sh a b = true) :=
  List.pairwise_mergeSort (fun a b c h1 h2 => rowLe_trans sh a b c h1 h2) (fun a b => rowLe_total sh a b) rows

/-- **the sorted terminal forgets the arrival order**: row lists that are permutations of each other (what
    C01 guarantees across modes and partition counts after a barrier: the same rows as a multiset) sort to the
    SAME sequence -/
theorem sortRows_of_perm (sh : RowShape) (r1 r2 : List Val) (hp : r1.Perm r2) (hs : ∀ r ∈ r1, shapeOK sh r) :
    sortRows sh r1 = sortRows sh r2 := by
  have p1 := sortRows_perm sh r1
  have p2 := sortRows_perm sh r2
  have hperm : (sortRows sh r1).Perm (sortRows sh r2) := p1.trans (hp.trans p2.symm)
  refine List.Perm.eq_of_pairwise (le := fun a b => rowLe sh a b = true) ?_ (sortRows_sorted sh r1) (sortRows_sorted sh r2) hperm
  intro a b ha hb h1 h2
  have ha1 : a ∈ r1 := p1.mem_iff.mp ha
  have hb1 : b ∈ r1 := hp.mem_iff.mpr (p2.mem_iff.mp hb)
  exact rowLe_antisymm sh a b (hs a ha1) (hs b hb1) h1 h2

/-! ### `collect_par_sorted_by_key`: stable, only the keys are compared -/

theorem rowKeyLe_total (a b : Val) : (rowKeyLe a b || rowKeyLe b a) = true := by
  simpa [rowKeyLe] using Val.le_total a.key b.key

theorem rowKeyLe_trans (a b c : Val) (h1 : rowKeyLe a b = true) (h2 : rowKeyLe b c = true) :
    rowKeyLe a c = true := Val.le_trans h1 h2

theorem sortByKey_perm (rows : List Val) : (sortByKey rows).Perm rows := List.mergeSort_perm rows _

theorem sortByKey_sorted (rows : List Val) :
    (sortByKey rows).Pairwise (fun a b => Val.le a.key b.key = true) :=
  List.pairwise_mergeSort (fun a b c h1 h2 => rowKeyLe_trans a b c h1 h2) rowKeyLe_total rows

/-- STABLE: the rows of one key keep their arrival order -/
theorem sortByKey_stable (rows : List Val) (k : Val) :
    (sortByKey rows).filter (fun r => r.key == k) = rows.filter (fun r => r.key == k) := by
  have hsub : rows.filter (fun r => r.key == k) |>.Sublist (sortByKey rows) := by
    apply List.sublist_mergeSort (fun a b c h1 h2 => rowKeyLe_trans a b c h1 h2) rowKeyLe_total
    · rw [List.pairwise_filter]
      apply List.pairwise_of_forall
      intro a b ha hb
      simp only [beq_iff_eq] at ha hb
      show Val.le a.key b.key = true
      rw [ha, hb]; exact Val.le_refl k
    · exact List.filter_sublist
  have hsub2 : (rows.filter (fun r => r.key == k)).Sublist ((sortByKey rows).filter (fun r => r.key == k)) := by
    have := hsub.filter (fun r => r.key == k)
    rwa [List.filter_filter, show (fun r : Val => (r.key == k && r.key == k)) = (fun r => r.key == k) from
      funext (fun r => by simp)] at this
  have hlen : ((sortByKey rows).filter (fun r => r.key == k)).length = (rows.filter (fun r => r.key == k)).length :=
    ((sortByKey_perm rows).filter _).length_eq
  exact (hsub2.eq_of_length hlen.symm).symm

/-- for row lists that are permutations of each other the results have the same KEY sequence … -/
theorem sortByKey_keys_of_perm (r1 r2 : List Val) (hp : r1.Perm r2) :
    (sortByKey r1).map Val.key = (sortByKey r2).map Val.key := by
  have hperm : ((sortByKey r1).map Val.key).Perm ((sortByKey r2).map Val.key) :=
    (((sortByKey_perm r1).trans (hp.trans (sortByKey_perm r2).symm))).map _
  refine List.Perm.eq_of_pairwise (le := fun a b => Val.le a b = true) ?_ ?_ ?_ hperm
  · intro a b _ _ h1 h2; exact Val.le_antisymm h1 h2
  · rw [List.pairwise_map]; exact sortByKey_sorted r1
  · rw [List.pairwise_map]; exact sortByKey_sorted r2

/-- … and, key by key, the same rows as a multiset (equal up to the order of equal-key rows) -/
theorem sortByKey_groups_of_perm (r1 r2 : List Val) (hp : r1.Perm r2) (k : Val) :
    ((sortByKey r1).filter (fun r => r.key == k)).Perm ((sortByKey r2).filter (fun r => r.key == k)) := by
  rw [sortByKey_stable, sortByKey_stable]
  exact hp.filter _

/-! ## user `VecOps` -/

/-- the policies that keep the `VecOps` contract -/
def SplitPol.lawful : SplitPol → Bool
  | .none | .chunks _ | .plus _ | .minus _ | .empties _ => true
  | _ => false

theorem vecSplit_flatten'' (xs : List Val) (n : Nat) : (vecSplit xs n).flatten = xs := by
  unfold vecSplit
  split
  · simp
  · next h =>
    have hpos : 1 ≤ (xs.length + n - 1) / n := by
      have hn : 2 ≤ n := by omega
      have hl : 2 ≤ xs.length := by omega
      apply (Nat.le_div_iff_mul_le (by omega)).mpr
      omega
    exact chunksOf_flatten _ hpos xs.length xs (Nat.le_refl _)

theorem flatten_empties (ps : List Part) : ([] :: ps.flatMap (fun p => [p, []])).flatten = ps.flatten := by
  induction ps with
  | nil => rfl
  | cons p ps ih =>
    simp only [List.flatMap_cons, List.flatten_cons, List.nil_append, List.cons_append] at ih ⊢
    simp [ih]

/-- **every lawful policy meets the source contract**: whatever `split` answers, the parts concatenate to
    what `clone_any` returns — for every requested partition count -/
theorem split_contract (sp : SplitPol) (h : sp.lawful = true) (rows : List Val) (n : Nat) (parts : List Part)
    (hs : sp.split rows n = Option.some parts) : parts.flatten = rows := by
  cases sp with
  | none => simp [SplitPol.split] at hs
  | chunks c =>
    simp only [SplitPol.split, Option.some.injEq] at hs
    subst hs
    exact chunksOf_flatten (max c 1) (by omega) rows.length rows (Nat.le_refl _)
  | plus k =>
    simp only [SplitPol.split, Option.some.injEq] at hs
    subst hs; exact vecSplit_flatten'' rows _
  | minus k =>
    simp only [SplitPol.split, Option.some.injEq] at hs
    subst hs; exact vecSplit_flatten'' rows _
  | empties c =>
    simp only [SplitPol.split, Option.some.injEq] at hs
    subst hs
    rw [flatten_empties]
    exact chunksOf_flatten (max c 1) (by omega) rows.length rows (Nat.le_refl _)
  | dropLast c => simp [SplitPol.lawful] at h
  | revParts c => simp [SplitPol.lawful] at h
  | dupFirst c => simp [SplitPol.lawful] at h

/-- the engine's fallbacks (`unwrap_or_else(|| vec![clone_any])`) keep the contract -/
theorem customSource_split_flatten (rows : List Val) (sp : SplitPol)
    (hc : ∀ n parts, sp.split rows n = Option.some parts → parts.flatten = rows) (k : Nat) :
    ((sp.split rows k).getD [rows]).flatten = rows := by
  cases hs : sp.split rows k with
  | none => simp
  | some parts => simpa using hc k parts hs

end IB
