import IbModel.Proofs.Sketches
/-!
# C15 helper lemmas, part 2: every reachable digest keeps its centroids sorted by mean, and on sorted
# centroids the estimate can only decrease where the covering branch of `quantile` changes. Core Lean only.
-/
set_option linter.unusedSectionVars false
namespace IB.Sketches
open NumOps

/-! ## `add` inserts in order, `compress` sorts: the centroids are sorted by mean at all times -/

theorem insertRev_desc (c : Centroid Rat) : ∀ l : List (Centroid Rat), l.Pairwise (fun a b => b.mean ≤ a.mean) →
    (insertRev c l).Pairwise (fun a b => b.mean ≤ a.mean)
  | [], _ => by simp [insertRev]
  | x :: xs, h => by
    have h' := List.pairwise_cons.mp h
    unfold insertRev
    split
    · rename_i hle
      refine List.pairwise_cons.mpr ⟨?_, h⟩
      intro y hy
      simp only [List.mem_cons] at hy
      rcases hy with rfl | hy
      · exact hle
      · have := h'.1 y hy; grind
    · rename_i hnle
      refine List.pairwise_cons.mpr ⟨?_, insertRev_desc c xs h'.2⟩
      intro y hy
      rw [(insertRev_perm c xs).mem_iff] at hy
      simp only [List.mem_cons] at hy
      rcases hy with rfl | hy
      · grind
      · exact h'.1 y hy

theorem insertByMean_sorted (c : Centroid Rat) (l : List (Centroid Rat)) (h : SortedC l) : SortedC (insertByMean c l) := by
  unfold SortedC insertByMean
  rw [List.pairwise_reverse]
  apply insertRev_desc
  rw [List.pairwise_reverse]
  exact h

theorem add_sorted {d : TDigest Rat} (h : TDInv d) (hs : SortedC d.centroids) (x : Rat) : SortedC (d.add x).centroids := by
  rw [add_eq]
  split
  · exact compress_sorted (addPre_inv h x)
  · exact insertByMean_sorted _ _ hs

theorem merge_sorted {d o : TDigest Rat} (h : TDInv d) (ho : TDInv o) (hs : SortedC d.centroids) :
    SortedC (d.merge o).centroids := by
  rw [merge_eq]
  split
  · exact hs
  · rename_i hz
    exact compress_sorted (mergePre_inv h ho (by simpa using hz))

theorem foldl_add_sorted (xs : List Rat) : ∀ (d : TDigest Rat), TDInv d → SortedC d.centroids →
    SortedC (xs.foldl TDigest.add d).centroids := by
  induction xs with
  | nil => intro d _ hs; exact hs
  | cons x xs ih => intro d h hs; exact ih (d.add x) (add_inv h x) (add_sorted h hs x)

theorem foldAdd_sorted (δ : Rat) (xs : List Rat) : SortedC (foldAdd δ xs).centroids :=
  foldl_add_sorted xs (TDigest.new δ) (new_inv δ) List.Pairwise.nil

/-- every accumulator the engine can build has its centroids sorted by mean -/
theorem eval_sorted (δ : Rat) : ∀ t : MTree Rat, SortedC (t.eval δ).centroids
  | .leaf xs => foldAdd_sorted δ xs
  | .built xs => compress_sorted (foldAdd_sound δ xs).1
  | .node l r => merge_sorted (eval_sound δ l).1 (eval_sound δ r).1 (eval_sorted δ l)

/-! ## the covering branch -/

/-- the walk ends at a centroid with index `≥ i`, or falls through -/
theorem coverLoop_cases (t : Rat) : ∀ (cs : List (Centroid Rat)) (cum : Rat) (i : Nat),
    (∃ j, i ≤ j ∧ coverLoop t cum i cs = .at j) ∨ coverLoop t cum i cs = .past
  | [], _, _ => Or.inr rfl
  | c :: rest, cum, i => by
    unfold coverLoop
    simp only
    split
    · exact Or.inl ⟨i, Nat.le_refl i, rfl⟩
    · rcases coverLoop_cases t rest (cum + c.weight) (i + 1) with ⟨j, hj, h⟩ | h
      · exact Or.inl ⟨j, by omega, h⟩
      · exact Or.inr h

/-- two targets `t₁ ≤ t₂` that the walk answers in the same place: the estimate does not decrease
    (sorted centroids, all means inside `[mn, mx]`, `left` = the previous mean) -/
theorem quantileLoop_mono_same_cover (mn mx : Rat) (hle : mn ≤ mx) (t₁ t₂ : Rat) (h12 : t₁ ≤ t₂) :
    ∀ (cs : List (Centroid Rat)) (left cum : Rat) (i : Nat),
      (∀ c ∈ cs, COk mn mx c) → SortedC cs → (∀ c ∈ cs, left ≤ c.mean) → left ≤ mx →
      coverLoop t₁ cum i cs = coverLoop t₂ cum i cs →
      quantileLoopWith (fun x => clamp x mn mx) mx t₁ left cum cs ≤
        quantileLoopWith (fun x => clamp x mn mx) mx t₂ left cum cs
  | [], _, _, _, _, _, _, _, _ => by simp [quantileLoopWith]
  | c :: rest, left, cum, i, hall, hs, hleft, hlmx, hcov => by
    have hc := hall c (by simp)
    have hs' := List.pairwise_cons.mp hs
    have hcw : (1 : Rat) / 4503599627370496 ≤ c.weight := by have := hc.1; grind
    have hcw' : 0 < c.weight := by grind
    by_cases h2 : t₂ ≤ cum + c.weight
    · -- both targets are answered by `c`
      rw [quantileLoop_hit' _ mx t₁ left cum c rest (by grind) hcw, quantileLoop_hit' _ mx t₂ left cum c rest h2 hcw]
      apply clamp_mono hle
      have hr : left ≤ rightMean mx rest := by
        cases rest with
        | nil => exact hlmx
        | cons r rs => exact hleft r (by simp)
      have hf := div_le_div_right (a := t₁ - cum) (b := t₂ - cum) hcw' (by grind)
      have := Rat.mul_nonneg (a := (t₂ - cum) / c.weight - (t₁ - cum) / c.weight)
        (b := rightMean mx rest - left) (by grind) (by grind)
      grind
    · by_cases h1 : t₁ ≤ cum + c.weight
      · -- `t₁` is answered by `c`, `t₂` further right: the covering branch differs
        exfalso
        unfold coverLoop at hcov
        simp only at hcov
        rw [if_pos (by grind), if_neg (by grind)] at hcov
        rcases coverLoop_cases t₂ rest (cum + c.weight) (i + 1) with ⟨j, hj, h⟩ | h
        · rw [h] at hcov; injection hcov with e; omega
        · rw [h] at hcov; cases hcov
      · -- both walk on
        unfold coverLoop at hcov
        simp only at hcov
        rw [if_neg (by grind), if_neg (by grind)] at hcov
        rw [quantileLoop_skip _ mx t₁ left cum c rest (by grind), quantileLoop_skip _ mx t₂ left cum c rest (by grind)]
        exact quantileLoop_mono_same_cover mn mx hle t₁ t₂ h12 rest c.mean (cum + c.weight) (i + 1)
          (fun x hx => hall x (by simp [hx])) hs'.2 hs'.1 hc.2.2 hcov


theorem coverLoop_ne_min (t cum : Rat) (i : Nat) (cs : List (Centroid Rat)) : coverLoop t cum i cs ≠ .min := by
  rcases coverLoop_cases t cs cum i with ⟨j, _, h⟩ | h <;> rw [h] <;> intro h' <;> cases h'
theorem coverLoop_ne_max (t cum : Rat) (i : Nat) (cs : List (Centroid Rat)) : coverLoop t cum i cs ≠ .max := by
  rcases coverLoop_cases t cs cum i with ⟨j, _, h⟩ | h <;> rw [h] <;> intro h' <;> cases h'


/-! ## the code before `673b7b5` (`add` appended) -/


theorem legacy_add_explicit (δ tot x : Rat) (cs : List (Centroid Rat)) (mn mx : Option Rat)
    (h : ¬ (((cs.length + 1 : Nat) : Rat) > δ * 2)) :
    Legacy.add ⟨δ, cs, tot, mn, mx⟩ x = ⟨δ, cs ++ [⟨x, 1⟩], tot + 1, ominV mn x, omaxV mx x⟩ := by
  unfold Legacy.add
  simp only [rat_isFinite, Bool.not_true, Bool.false_eq_true, ↓reduceIte, rat_ofNat, rat_two, rat_one,
    List.length_append, List.length_cons, List.length_nil]
  rw [if_neg h]


/-! ## what `quantile` can return on ANY carrier (no order law is used, so this holds for IEEE doubles) -/

section generic
variable {α : Type} [Add α] [Sub α] [Mul α] [Div α] [LE α] [LT α] [DecidableLE α] [DecidableLT α]
  [BEq α] [NumOps α]

/-- no order law is used: on a carrier with NaN the third alternative is "not below `lo`, not above `hi`" -/
theorem clamp_shape (x lo hi : α) :
    clamp x lo hi = lo ∨ clamp x lo hi = hi ∨ (clamp x lo hi = x ∧ ¬ x < lo ∧ ¬ x > hi) := by
  unfold clamp
  by_cases h1 : x < lo
  · simp [h1]
  · by_cases h2 : x > hi
    · simp [h1, h2]
    · simp [h1, h2]

/-- what the walk of `quantile` can return, on ANY carrier -/
def QShape (cs : List (Centroid α)) (mn mx v : α) : Prop :=
  v = mn ∨ v = mx ∨ (∃ c ∈ cs, v = c.mean) ∨ (¬ v < mn ∧ ¬ v > mx)

theorem clamp_qshape (cs : List (Centroid α)) (x mn mx : α) : QShape cs mn mx (clamp x mn mx) := by
  rcases clamp_shape x mn mx with h | h | ⟨h, h1, h2⟩
  · exact Or.inl h
  · exact Or.inr (Or.inl h)
  · exact Or.inr (Or.inr (Or.inr (by rw [h]; exact ⟨h1, h2⟩)))

theorem quantileLoop_shape (mn mx target : α) : ∀ (cs : List (Centroid α)) (left cum : α),
    QShape cs mn mx (quantileLoopWith (fun x => clamp x mn mx) mx target left cum cs)
  | [], _, _ => by unfold quantileLoopWith; exact Or.inr (Or.inl rfl)
  | c :: rest, left, cum => by
    unfold quantileLoopWith
    simp only
    split
    · split
      · exact Or.inr (Or.inr (Or.inl ⟨c, by simp, rfl⟩))
      · exact clamp_qshape _ _ _ _
    · rcases quantileLoop_shape mn mx target rest c.mean (cum + c.weight) with h | h | ⟨x, hx, h⟩ | h
      · exact Or.inl h
      · exact Or.inr (Or.inl h)
      · exact Or.inr (Or.inr (Or.inl ⟨x, by simp [hx], h⟩))
      · exact Or.inr (Or.inr (Or.inr h))

end generic

end IB.Sketches
