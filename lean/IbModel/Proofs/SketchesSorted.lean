import IbModel.Proofs.Sketches
/-!
# C15 helper lemmas, part 2: every reachable digest keeps its centroids sorted by mean, and on sorted
# centroids the estimate can only decrease where the covering branch of `quantile` changes. Core Lean only.
-/
set_option linter.unusedSectionVars false
namespace IB.Sketches
open NumOps

/-! ## `add` inserts in order, `compress` sorts: the centroids are sorted by mean at all times -/

theorem insertRev_desc (c : Centroid Rat) : ∀ l : List (Centroid Rat), l.Pairwise (fun a b => b.mean ≤ a.mean) →
    (insertRev c l).Pairwise (fun a b => b.mean ≤ a.mean)
  | [], _ => by simp [insertRev]
  | x :: xs, h => by
    have h' := List.pairwise_cons.mp h
    unfold insertRev
    split
    · rename_i hle
      refine List.pairwise_cons.mpr ⟨?_, h⟩
      intro y hy
      simp only [List.mem_cons] at hy
      rcases hy with rfl | hy
      · exact hle
      · have := h'.1 y hy; grind
    · rename_i hnle
      refine List.pairwise_cons.mpr ⟨?_, insertRev_desc c xs h'.2⟩
      intro y hy
      rw [(insertRev_perm c xs).mem_iff] at hy
      simp only [List.mem_cons] at hy
      rcases hy with rfl | hy
      · grind
      · exact h'.1 y hy

theorem insertByMean_sorted (c : Centroid Rat) (l : List (Centroid Rat)) (h : SortedC l) : SortedC (insertByMean c l) := by
  unfold SortedC insertByMean
  rw [List.pairwise_reverse]
  apply insertRev_desc
  rw [List.pairwise_reverse]
  exact h

theorem addWeighted_sorted {d : TDigest Rat} (h : TDInv d) (hs : SortedC d.centroids) (x w : Rat) :
    SortedC (d.addWeighted x w).centroids := by
  by_cases hw : 0 < w
  · rw [addWeighted_eq d x w hw]
    split
    · exact compress_sorted (addPreW_inv h x w hw)
    · exact insertByMean_sorted _ _ hs
  · rw [addWeighted_ignored d x w (by grind)]; exact hs

theorem add_sorted {d : TDigest Rat} (h : TDInv d) (hs : SortedC d.centroids) (x : Rat) : SortedC (d.add x).centroids :=
  addWeighted_sorted h hs x 1

theorem merge_sorted {d o : TDigest Rat} (h : TDInv d) (ho : TDInv o) (hs : SortedC d.centroids) :
    SortedC (d.merge o).centroids := by
  rw [merge_eq]
  split
  · exact hs
  · rename_i hz
    exact compress_sorted (mergePre_inv h ho (by simpa using hz))

theorem foldl_add_sorted (xs : List Rat) : ∀ (d : TDigest Rat), TDInv d → SortedC d.centroids →
    SortedC (xs.foldl TDigest.add d).centroids := by
  induction xs with
  | nil => intro d _ hs; exact hs
  | cons x xs ih => intro d h hs; exact ih (d.add x) (add_inv h x) (add_sorted h hs x)

theorem foldAdd_sorted (δ : Rat) (xs : List Rat) : SortedC (foldAdd δ xs).centroids :=
  foldl_add_sorted xs (TDigest.new δ) (new_inv δ) List.Pairwise.nil

theorem foldlW_sorted (ps : List (Rat × Rat)) : ∀ (d : TDigest Rat), TDInv d → SortedC d.centroids →
    SortedC (ps.foldl (fun d p => d.addWeighted p.1 p.2) d).centroids := by
  induction ps with
  | nil => intro d _ hs; exact hs
  | cons p ps ih => intro d h hs; exact ih (d.addWeighted p.1 p.2) (addWeighted_inv h _ _) (addWeighted_sorted h hs _ _)

/-- every accumulator the engine (or a direct user of `add_weighted`) can build has its centroids sorted by mean -/
theorem eval_sorted (δ : Rat) : ∀ t : MTree Rat, SortedC (t.eval δ).centroids
  | .leaf xs => foldAdd_sorted δ xs
  | .built xs => compress_sorted (foldAdd_sound δ xs).1
  | .wleaf ps => foldlW_sorted ps (TDigest.new δ) (new_inv δ) List.Pairwise.nil
  | .node l r => merge_sorted (eval_sound δ l).1 (eval_sound δ r).1 (eval_sorted δ l)

/-! ## the covering branch -/

/-- the walk ends at a centroid with index `≥ i`, or falls through -/
theorem coverLoop_cases (t : Rat) : ∀ (cs : List (Centroid Rat)) (cum : Rat) (i : Nat),
    (∃ j, i ≤ j ∧ coverLoop t cum i cs = .at j) ∨ coverLoop t cum i cs = .past
  | [], _, _ => Or.inr rfl
  | c :: rest, cum, i => by
    unfold coverLoop
    simp only
    split
    · exact Or.inl ⟨i, Nat.le_refl i, rfl⟩
    · rcases coverLoop_cases t rest (cum + c.weight) (i + 1) with ⟨j, hj, h⟩ | h
      · exact Or.inl ⟨j, by omega, h⟩
      · exact Or.inr h

/-- a covering centroid lighter than ε: `(next − cum).abs() < ε`, the walk answers its mean -/
theorem quantileLoop_hit_small (post : Rat → Rat) (mx target left cum : Rat) (c : Centroid Rat) (rest : List (Centroid Rat))
    (h : target ≤ cum + c.weight) (hw0 : 0 < c.weight) (hw : c.weight < (1:Rat) / 4503599627370496) :
    quantileLoopWith post mx target left cum (c :: rest) = c.mean := by
  unfold quantileLoopWith; simp only [rat_abs, rat_eps]; rw [if_pos (by grind), if_pos (by grind)]

/-- two targets `t₁ ≤ t₂` that the walk answers in the same place: the estimate does not decrease
    (sorted centroids, all means inside `[mn, mx]`, `left` = the previous mean) -/
theorem quantileLoop_mono_same_cover (mn mx : Rat) (hle : mn ≤ mx) (t₁ t₂ : Rat) (h12 : t₁ ≤ t₂) :
    ∀ (cs : List (Centroid Rat)) (left cum : Rat) (i : Nat),
      (∀ c ∈ cs, COk mn mx c) → SortedC cs → (∀ c ∈ cs, left ≤ c.mean) → left ≤ mx →
      coverLoop t₁ cum i cs = coverLoop t₂ cum i cs →
      quantileLoopWith (fun x => clamp x mn mx) mx t₁ left cum cs ≤
        quantileLoopWith (fun x => clamp x mn mx) mx t₂ left cum cs
  | [], _, _, _, _, _, _, _, _ => by simp [quantileLoopWith]
  | c :: rest, left, cum, i, hall, hs, hleft, hlmx, hcov => by
    have hc := hall c (by simp)
    have hs' := List.pairwise_cons.mp hs
    have hcw' : 0 < c.weight := hc.1
    by_cases h2 : t₂ ≤ cum + c.weight
    · -- both targets are answered by `c`
      by_cases hsmall : c.weight < (1 : Rat) / 4503599627370496
      · -- a weight below ε: the walk answers the centroid's mean for both
        rw [quantileLoop_hit_small _ mx t₁ left cum c rest (by grind) hcw' hsmall,
          quantileLoop_hit_small _ mx t₂ left cum c rest h2 hcw' hsmall]
        exact Rat.le_refl
      have hcw : (1 : Rat) / 4503599627370496 ≤ c.weight := by grind
      rw [quantileLoop_hit' _ mx t₁ left cum c rest (by grind) hcw, quantileLoop_hit' _ mx t₂ left cum c rest h2 hcw]
      apply clamp_mono hle
      have hr : left ≤ rightMean mx rest := by
        cases rest with
        | nil => exact hlmx
        | cons r rs => exact hleft r (by simp)
      have hf := div_le_div_right (a := t₁ - cum) (b := t₂ - cum) hcw' (by grind)
      have := Rat.mul_nonneg (a := (t₂ - cum) / c.weight - (t₁ - cum) / c.weight)
        (b := rightMean mx rest - left) (by grind) (by grind)
      grind
    · by_cases h1 : t₁ ≤ cum + c.weight
      · -- `t₁` is answered by `c`, `t₂` further right: the covering branch differs
        exfalso
        unfold coverLoop at hcov
        simp only at hcov
        rw [if_pos (by grind), if_neg (by grind)] at hcov
        rcases coverLoop_cases t₂ rest (cum + c.weight) (i + 1) with ⟨j, hj, h⟩ | h
        · rw [h] at hcov; injection hcov with e; omega
        · rw [h] at hcov; cases hcov
      · -- both walk on
        unfold coverLoop at hcov
        simp only at hcov
        rw [if_neg (by grind), if_neg (by grind)] at hcov
        rw [quantileLoop_skip _ mx t₁ left cum c rest (by grind), quantileLoop_skip _ mx t₂ left cum c rest (by grind)]
        exact quantileLoop_mono_same_cover mn mx hle t₁ t₂ h12 rest c.mean (cum + c.weight) (i + 1)
          (fun x hx => hall x (by simp [hx])) hs'.2 hs'.1 hc.2.2 hcov


/-! ## the branches of `quantile` / `cover` (the tests are those of the code, on the clamped `q`) -/

theorem quantileCore_branch_min (post : Rat → Rat) (total mn mx q : Rat) (cs : List (Centroid Rat))
    (hA : abs (clamp q (0:Rat) 1 - 0) ≤ (eps : Rat)) : quantileCoreWith post total cs mn mx q = mn := by
  unfold quantileCoreWith; simp only [rat_zero, rat_one]; rw [if_pos hA]

theorem quantileCore_branch_max (post : Rat → Rat) (total mn mx q : Rat) (cs : List (Centroid Rat))
    (hA : ¬ abs (clamp q (0:Rat) 1 - 0) ≤ (eps : Rat)) (hB : abs (clamp q (0:Rat) 1 - 1) ≤ (eps : Rat)) :
    quantileCoreWith post total cs mn mx q = mx := by
  unfold quantileCoreWith; simp only [rat_zero, rat_one]; rw [if_neg hA, if_pos hB]

theorem quantileCore_branch_single (post : Rat → Rat) (total mn mx q : Rat) (cs : List (Centroid Rat))
    (hA : ¬ abs (clamp q (0:Rat) 1 - 0) ≤ (eps : Rat)) (hB : ¬ abs (clamp q (0:Rat) 1 - 1) ≤ (eps : Rat))
    (hL : cs.length = 1) : quantileCoreWith post total cs mn mx q = mn := by
  unfold quantileCoreWith; simp only [rat_zero, rat_one]
  rw [if_neg hA, if_neg hB, if_pos (by rw [beq_iff_eq]; exact hL)]

theorem quantileCore_branch_loop (post : Rat → Rat) (total mn mx q : Rat) (cs : List (Centroid Rat))
    (hA : ¬ abs (clamp q (0:Rat) 1 - 0) ≤ (eps : Rat)) (hB : ¬ abs (clamp q (0:Rat) 1 - 1) ≤ (eps : Rat))
    (hL : cs.length ≠ 1) :
    quantileCoreWith post total cs mn mx q = quantileLoopWith post mx (clamp q 0 1 * total) mn 0 cs := by
  unfold quantileCoreWith; simp only [rat_zero, rat_one]
  rw [if_neg hA, if_neg hB, if_neg (by rw [beq_iff_eq]; exact hL)]

theorem cover_branch_loop (d : TDigest Rat) (c : Centroid Rat) (cs : List (Centroid Rat)) (hcs : d.centroids = c :: cs)
    (q : Rat) (hA : ¬ abs (clamp q (0:Rat) 1 - 0) ≤ (eps : Rat)) (hB : ¬ abs (clamp q (0:Rat) 1 - 1) ≤ (eps : Rat))
    (hL : (c :: cs).length ≠ 1) :
    d.cover q = coverLoop (clamp q 0 1 * d.total) 0 0 (c :: cs) := by
  unfold TDigest.cover; simp only [hcs, rat_zero, rat_one]
  rw [if_neg hA, if_neg hB, if_neg (by rw [beq_iff_eq]; exact hL)]

theorem coverLoop_ne_min (t cum : Rat) (i : Nat) (cs : List (Centroid Rat)) : coverLoop t cum i cs ≠ .min := by
  rcases coverLoop_cases t cs cum i with ⟨j, _, h⟩ | h <;> rw [h] <;> intro h' <;> cases h'
theorem coverLoop_ne_max (t cum : Rat) (i : Nat) (cs : List (Centroid Rat)) : coverLoop t cum i cs ≠ .max := by
  rcases coverLoop_cases t cs cum i with ⟨j, _, h⟩ | h <;> rw [h] <;> intro h' <;> cases h'


/-! ## unit weights (everything a pipeline builds): all weights are `≥ 1`, so the first centroid never absorbs a
    second one (`k_size(0) = 1 < 2`) and a SINGLE centroid has seen a single value: `min = max`. This is why the
    order of the tests in `quantile` (fixed for `add_weighted`) never mattered for `ApproxQuantiles` / `ApproxMedian`. -/

structure UnitInv (d : TDigest Rat) : Prop where
  w : ∀ c ∈ d.centroids, 1 ≤ c.weight
  one : d.centroids.length = 1 → d.min = d.max

theorem new_unit (δ : Rat) : UnitInv (TDigest.new δ) := by
  constructor <;> simp [TDigest.new]

theorem compress_unit {d : TDigest Rat} (hu : UnitInv d) : UnitInv d.compress := by
  unfold TDigest.compress
  have hp := List.mergeSort_perm d.centroids meanLe
  split
  · exact hu
  · rename_i c rest hs
    have hw' : ∀ x ∈ c :: rest, 1 ≤ x.weight := fun x hx => hu.w x (by rw [← hs] at hx; exact mergeSort_mem.mp hx)
    refine ⟨?_, ?_⟩
    · simp only
      apply compressLoop_all (P := fun c => 1 ≤ c.weight)
      · intro cur x hcur hx
        show 1 ≤ cur.weight + x.weight
        grind
      · exact hw' c (by simp)
      · exact fun x hx => hw' x (by simp [hx])
    · intro hlen
      simp only at hlen ⊢
      cases rest with
      | nil =>
        apply hu.one
        have := hp.length_eq; rw [hs] at this; simpa using this.symm
      | cons c2 r =>
        have := compressLoop_length_two boundBetween d.compression d.total c c2 r (hw' c (by simp)) (hw' c2 (by simp))
        rw [rat_zero] at hlen
        omega

theorem addPre_unit {d : TDigest Rat} (h : TDInv d) (hu : UnitInv d) (x : Rat) : UnitInv (addPre d x) := by
  unfold addPre addPreW
  have hperm := insertByMean_perm (⟨x, 1⟩ : Centroid Rat) d.centroids
  refine ⟨?_, ?_⟩
  · intro c hc
    simp only at hc
    rw [hperm.mem_iff] at hc
    simp only [List.mem_cons] at hc
    rcases hc with rfl | hc
    · exact Rat.le_refl
    · exact hu.w c hc
  · intro hlen
    simp only [hperm.length_eq, List.length_cons] at hlen
    have hc : d.centroids = [] := List.length_eq_zero_iff.mp (by omega)
    obtain ⟨hmn, hmx⟩ := h.empty hc
    simp [hmn, hmx, ominV, omaxV]

theorem add_unit {d : TDigest Rat} (h : TDInv d) (hu : UnitInv d) (x : Rat) : UnitInv (d.add x) := by
  rw [add_eq]
  split
  · exact compress_unit (addPre_unit h hu x)
  · exact addPre_unit h hu x

theorem merge_unit {d o : TDigest Rat} (h : TDInv d) (ho : TDInv o) (hu : UnitInv d) (huo : UnitInv o) :
    UnitInv (d.merge o) := by
  rw [merge_eq]
  split
  · exact hu
  · rename_i hz
    have hz' : o.total ≠ 0 := by simpa using hz
    have hone := centroids_ne_nil_of_total ho hz'
    apply compress_unit
    unfold mergePre
    refine ⟨?_, ?_⟩
    · intro c hc
      simp only [List.mem_append] at hc
      rcases hc with hc | hc
      · exact hu.w c hc
      · exact huo.w c hc
    · intro hlen
      simp only [List.length_append] at hlen
      have : o.centroids.length ≠ 0 := fun h0 => hone (List.length_eq_zero_iff.mp h0)
      have hc : d.centroids = [] := List.length_eq_zero_iff.mp (by omega)
      obtain ⟨hmn, hmx⟩ := h.empty hc
      have hoo := huo.one (by omega)
      simp only [hmn, hmx, ominO, omaxO]
      exact hoo

theorem foldl_add_unit (xs : List Rat) : ∀ (d : TDigest Rat), TDInv d → UnitInv d → UnitInv (xs.foldl TDigest.add d) := by
  induction xs with
  | nil => intro d _ hu; exact hu
  | cons x xs ih => intro d h hu; exact ih (d.add x) (add_inv h x) (add_unit h hu x)

theorem foldAdd_unit (δ : Rat) (xs : List Rat) : UnitInv (foldAdd δ xs) :=
  foldl_add_unit xs (TDigest.new δ) (new_inv δ) (new_unit δ)

theorem eval_unit (δ : Rat) : ∀ t : MTree Rat, t.unit = true → UnitInv (t.eval δ)
  | .leaf xs, _ => foldAdd_unit δ xs
  | .built xs, _ => compress_unit (foldAdd_unit δ xs)
  | .wleaf ps, h => by simp [MTree.unit] at h
  | .node l r, h => by
    simp only [MTree.unit, Bool.and_eq_true] at h
    exact merge_unit (eval_sound δ l).1 (eval_sound δ r).1 (eval_unit δ l h.1) (eval_unit δ r h.2)

/-! ## the code before `673b7b5` (`add` appended) -/


theorem legacy_add_explicit (δ tot x : Rat) (cs : List (Centroid Rat)) (mn mx : Option Rat)
    (h : ¬ (((cs.length + 1 : Nat) : Rat) > δ * 2)) :
    Legacy.add ⟨δ, cs, tot, mn, mx⟩ x = ⟨δ, cs ++ [⟨x, 1⟩], tot + 1, ominV mn x, omaxV mx x⟩ := by
  unfold Legacy.add
  simp only [rat_isFinite, Bool.not_true, Bool.false_eq_true, ↓reduceIte, rat_ofNat, rat_two, rat_one,
    List.length_append, List.length_cons, List.length_nil]
  rw [if_neg h]


/-! ## what `quantile` can return on ANY carrier (no order law is used, so this holds for IEEE doubles) -/

section generic
variable {α : Type} [Add α] [Sub α] [Mul α] [Div α] [LE α] [LT α] [DecidableLE α] [DecidableLT α]
  [BEq α] [NumOps α]

/-- no order law is used: on a carrier with NaN the third alternative is "not below `lo`, not above `hi`" -/
theorem clamp_shape (x lo hi : α) :
    clamp x lo hi = lo ∨ clamp x lo hi = hi ∨ (clamp x lo hi = x ∧ ¬ x < lo ∧ ¬ x > hi) := by
  unfold clamp
  by_cases h1 : x < lo
  · simp [h1]
  · by_cases h2 : x > hi
    · simp [h1, h2]
    · simp [h1, h2]

/-- what the walk of `quantile` can return, on ANY carrier -/
def QShape (cs : List (Centroid α)) (mn mx v : α) : Prop :=
  v = mn ∨ v = mx ∨ (∃ c ∈ cs, v = c.mean) ∨ (¬ v < mn ∧ ¬ v > mx)

theorem clamp_qshape (cs : List (Centroid α)) (x mn mx : α) : QShape cs mn mx (clamp x mn mx) := by
  rcases clamp_shape x mn mx with h | h | ⟨h, h1, h2⟩
  · exact Or.inl h
  · exact Or.inr (Or.inl h)
  · exact Or.inr (Or.inr (Or.inr (by rw [h]; exact ⟨h1, h2⟩)))

theorem quantileLoop_shape (mn mx target : α) : ∀ (cs : List (Centroid α)) (left cum : α),
    QShape cs mn mx (quantileLoopWith (fun x => clamp x mn mx) mx target left cum cs)
  | [], _, _ => by unfold quantileLoopWith; exact Or.inr (Or.inl rfl)
  | c :: rest, left, cum => by
    unfold quantileLoopWith
    simp only
    split
    · split
      · exact Or.inr (Or.inr (Or.inl ⟨c, by simp, rfl⟩))
      · exact clamp_qshape _ _ _ _
    · rcases quantileLoop_shape mn mx target rest c.mean (cum + c.weight) with h | h | ⟨x, hx, h⟩ | h
      · exact Or.inl h
      · exact Or.inr (Or.inl h)
      · exact Or.inr (Or.inr (Or.inl ⟨x, by simp [hx], h⟩))
      · exact Or.inr (Or.inr (Or.inr h))

end generic

end IB.Sketches
