import IbModel.Model.Engine
import IbModel.Proofs.FanIn
/-! The simulation `exec_par ≈ exec_seq` for chains whose closures meet explicit contracts. -/
namespace IB
variable {P : Type}

/-- contracts a node's closures must satisfy w.r.t. partition concatenation -/
def SubNodeOK (concat : List P → P) : Node P → Prop
  | .source .. => False
  | .materialized _ => False
  | .coGroup .. => False
  | .stateless ops => ∀ op ∈ ops, ∀ ps, op.apply (concat ps) = concat (ps.map op.apply)
  | .gbk l m => ∀ ps, m (ps.map l) = m [l (concat ps)]
  | .combineValues lp lg m => ∀ ps, m (ps.map (lg.getD lp)) = m [(lg.getD lp) (concat ps)]
  | .combineGlobal l m f _ =>
      -- accumulators are compared up to an equivalence `R` that `finish` cannot see through; the merge
      -- laws are only required of accumulators satisfying an invariant `I` that every local result has
      -- and every merge preserves (e.g. "is `R`-equivalent to the fold of some values")
      ∃ (I : P → Prop) (R : P → P → Prop), (∀ a, R a a) ∧ (∀ a b c, R a b → R b c → R a c) ∧
        (∀ a b, R a b → f a = f b) ∧
        (∀ p, I (l p)) ∧ (∀ g : List P, (∀ a ∈ g, I a) → I (m g)) ∧
        (∀ ps, R (m (ps.map l)) (l (concat ps))) ∧ (∀ a, I a → R a (m [a])) ∧
        (∀ gs : List (List P), (∀ g ∈ gs, g ≠ [] ∧ ∀ a ∈ g, I a) → R (m (gs.map m)) (m gs.flatten))

def SubChainOK (concat : List P → P) : List (Node P) → Prop
  | .source w _ split :: rest => (∀ n, concat (split n) = w) ∧ ∀ nd ∈ rest, SubNodeOK concat nd
  | _ => False

def NodeOK (concat : List P → P) : Node P → Prop
  | .coGroup l r coL coR _ => SubChainOK concat l ∧ SubChainOK concat r ∧ coL = concat ∧ coR = concat
  | nd => SubNodeOK concat nd

@[simp] theorem applyOps_nil (b : P) : applyOps ([] : List (DynOp P)) b = b := rfl
@[simp] theorem applyOps_cons (op : DynOp P) (ops : List (DynOp P)) (b : P) :
    applyOps (op :: ops) b = applyOps ops (op.apply b) := rfl

theorem applyOps_nil' : applyOps ([] : List (DynOp P)) = id := rfl
theorem applyOps_cons' (op : DynOp P) (ops : List (DynOp P)) :
    applyOps (op :: ops) = applyOps ops ∘ op.apply := rfl

theorem applyOps_concat (concat : List P → P) (ops : List (DynOp P))
    (h : ∀ op ∈ ops, ∀ ps, op.apply (concat ps) = concat (ps.map op.apply)) (ps : List P) :
    applyOps ops (concat ps) = concat (ps.map (applyOps ops)) := by
  induction ops generalizing ps with
  | nil => simp [applyOps_nil']
  | cons op ops ih =>
    have h1 := h op (by simp)
    have h2 : ∀ op' ∈ ops, ∀ ps, op'.apply (concat ps) = concat (ps.map op'.apply) :=
      fun op' hm => h op' (by simp [hm])
    have := ih h2 (ps.map op.apply)
    simp only [applyOps_cons]
    rw [h1, this]
    simp [applyOps_cons', List.map_map, Function.comp_def]


/-- one step of the sub-plan engines keeps `concat curr = buf` -/
theorem stepSub_sim (concat : List P → P) (hc1 : ∀ p, concat [p] = p)
    (nd : Node P) (hok : SubNodeOK concat nd) (curr : List P) :
    ∃ curr', stepSubPar curr nd = pure curr' ∧
      stepSubSeq (some (concat curr)) nd = pure (concat curr') := by
  cases nd with
  | source w len split => exact absurd hok (by simp [SubNodeOK])
  | materialized p => exact absurd hok (by simp [SubNodeOK])
  | coGroup l r coL coR ex => exact absurd hok (by simp [SubNodeOK])
  | stateless ops =>
    refine ⟨_, rfl, ?_⟩
    simp only [stepSubSeq, need, pure_bind]
    rw [applyOps_concat concat ops hok]
  | gbk l m =>
    refine ⟨_, rfl, ?_⟩
    simp only [stepSubSeq, need, pure_bind, hc1]
    rw [hok curr]
  | combineValues lp lg m =>
    refine ⟨_, rfl, ?_⟩
    simp only [stepSubSeq, need, pure_bind, hc1]
    rw [hok curr]
  | combineGlobal l m f fo =>
    obtain ⟨I, R, hrefl, htrans, hfin, hIl, hIm, h1, h2, h3⟩ := hok
    have hIa : ∀ a ∈ curr.map l, I a := by
      intro a ha
      obtain ⟨p, _, rfl⟩ := List.mem_map.mp ha
      exact hIl p
    obtain ⟨x, hx, hR⟩ := reduceGlobal_spec m fo I R hrefl (fun h h' => htrans _ _ _ h h') hIm h2 h3
      (curr.map l) hIa
    refine ⟨[f x], ?_, ?_⟩
    · simp only [stepSubPar, hx, pure_bind]
    · simp only [stepSubSeq, need, pure_bind, hc1]
      rw [hfin x (m [l (concat curr)])
        (htrans _ _ _ hR (htrans _ _ _ (h1 curr) (h2 _ (hIl _))))]

theorem foldSub_sim (concat : List P → P) (hc1 : ∀ p, concat [p] = p)
    (rest : List (Node P)) (hok : ∀ nd ∈ rest, SubNodeOK concat nd) (curr : List P) :
    ∃ curr', rest.foldlM stepSubPar curr = pure curr' ∧
      rest.foldlM (fun cur n => do let b ← stepSubSeq cur n; pure (some b)) (some (concat curr))
        = pure (some (concat curr')) := by
  induction rest generalizing curr with
  | nil => exact ⟨curr, rfl, rfl⟩
  | cons nd rest ih =>
    obtain ⟨c1, hp, hs⟩ := stepSub_sim concat hc1 nd (hok nd (by simp)) curr
    obtain ⟨c2, hp2, hs2⟩ := ih (fun n hn => hok n (by simp [hn])) c1
    refine ⟨c2, ?_, ?_⟩
    · simp only [List.foldlM_cons, hp, pure_bind, hp2]
    · simp only [List.foldlM_cons, hs, pure_bind, hs2]

theorem runSub_sim (concat : List P → P) (hc1 : ∀ p, concat [p] = p)
    (chain : List (Node P)) (hok : SubChainOK concat chain) (n : Nat) :
    ∃ parts, runSubPar chain n = pure parts ∧ runSubSeq chain = pure (concat parts) := by
  match chain, hok with
  | .source w len split :: rest, ⟨hsplit, hrest⟩ =>
    obtain ⟨c, hp, hs⟩ := foldSub_sim concat hc1 rest hrest (split (clampParts n len))
    refine ⟨c, hp, ?_⟩
    have h0 : stepSubSeq (none : Option P) (.source w len split) = pure w := rfl
    simp only [runSubSeq, List.foldlM_cons, h0, pure_bind]
    rw [← hsplit (clampParts n len), hs]
    rfl


theorem coalesce_eq (concat : List P → P) (hc1 : ∀ p, concat [p] = p) (ps : List P) :
    coalesce concat ps = concat ps := by
  unfold coalesce
  split
  · simp [hc1]
  · rfl

theorem step_sim (concat : List P → P) (hc1 : ∀ p, concat [p] = p) (n : Nat)
    (nd : Node P) (hok : NodeOK concat nd) (curr : List P) :
    ∃ curr', stepPar n curr nd = pure curr' ∧
      stepSeq (some (concat curr)) nd = pure (concat curr') := by
  cases nd with
  | coGroup l r coL coR ex =>
    obtain ⟨hl, hr, hcl, hcr⟩ := hok
    rw [hcl, hcr]
    obtain ⟨lp, hlp, hls⟩ := runSub_sim concat hc1 l hl n
    obtain ⟨rp, hrp, hrs⟩ := runSub_sim concat hc1 r hr n
    refine ⟨[ex (coalesce concat lp) (coalesce concat rp)], ?_, ?_⟩
    · simp only [stepPar, hlp, hrp, pure_bind]
    · simp only [stepSeq, hls, hrs, pure_bind, hc1, coalesce_eq concat hc1]
  | source w len split => exact absurd hok (by simp [NodeOK, SubNodeOK])
  | materialized p => exact absurd hok (by simp [NodeOK, SubNodeOK])
  | stateless ops => exact stepSub_sim concat hc1 _ (by simpa [NodeOK] using hok) curr
  | gbk l m => exact stepSub_sim concat hc1 _ (by simpa [NodeOK] using hok) curr
  | combineValues lp lg m => exact stepSub_sim concat hc1 _ (by simpa [NodeOK] using hok) curr
  | combineGlobal l m f fo => exact stepSub_sim concat hc1 _ (by simpa [NodeOK] using hok) curr

theorem fold_sim (concat : List P → P) (hc1 : ∀ p, concat [p] = p) (n : Nat)
    (rest : List (Node P)) (hok : ∀ nd ∈ rest, NodeOK concat nd) (curr : List P) :
    ∃ curr', rest.foldlM (stepPar n) curr = pure curr' ∧
      rest.foldlM (fun cur nd => do let b ← stepSeq cur nd; pure (some b)) (some (concat curr))
        = pure (some (concat curr')) := by
  induction rest generalizing curr with
  | nil => exact ⟨curr, rfl, rfl⟩
  | cons nd rest ih =>
    obtain ⟨c1, hp, hs⟩ := step_sim concat hc1 n nd (hok nd (by simp)) curr
    obtain ⟨c2, hp2, hs2⟩ := ih (fun x hx => hok x (by simp [hx])) c1
    refine ⟨c2, ?_, ?_⟩
    · simp only [List.foldlM_cons, hp, pure_bind, hp2]
    · simp only [List.foldlM_cons, hs, pure_bind, hs2]

/-- C01 (engine level): for a chain whose closures meet their contracts, the parallel engine
    with ANY partition count returns exactly what the sequential engine returns. -/
theorem execPar_eq_execSeq (concat : List P → P) (hc1 : ∀ p, concat [p] = p)
    (w : P) (len : Nat) (split : Nat → List P) (hsplit : ∀ k, concat (split k) = w)
    (rest : List (Node P)) (hok : ∀ nd ∈ rest, NodeOK concat nd) (n : Nat) :
    execPar concat (.source w len split :: rest) n = execSeq (.source w len split :: rest) := by
  obtain ⟨c, hp, hs⟩ := fold_sim concat hc1 n rest hok (split (clampParts n len))
  have h0 : stepSeq (none : Option P) (.source w len split) = pure w := rfl
  simp only [execPar, hp, pure_bind, execSeq, List.foldlM_cons, h0]
  rw [← hsplit (clampParts n len), hs]
  simp [need, coalesce_eq concat hc1]

end IB
