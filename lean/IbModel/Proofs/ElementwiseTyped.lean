import IbModel.Proofs.ElementwisePlan
/-!
# C02 helpers (5): the per-operator downcast ("no internal type-mismatch panic")

The Rust engine is type-erased (`Partition = Box<dyn Any>`); every operator first downcasts its
input to the `Vec<T>` its builder knew statically and panics (`expect("…: expected Vec<…>")`) when
the partition holds another type. The untyped `Val` model cannot see this, so here a partition also
carries the `TypeId` of its element type (a `Nat` tag); `none` = a downcast panicked.
A program *type-checks* when each step's input type is the previous step's output type.
-/
namespace IB

/-- a type-erased partition: element-type tag and rows; `none` = a downcast `expect` panicked -/
abbrev TPart := Option (Nat × List Val)

/-- the operator a typed builder inserts: downcast to `Vec<tin>` (panic on mismatch), apply the
    closure, box the result as `Vec<tout>`; capability flags and cost are those of the operator -/
def typedOp (tin tout : Nat) (op : DynOp Part) : DynOp TPart :=
  { apply := fun p =>
      match p with
      | some (t, rows) => if t = tin then some (tout, op.apply rows) else none
      | none => none
    keyPreserving := op.keyPreserving, valueOnly := op.valueOnly, reorderSafe := op.reorderSafe,
    cost := op.cost }

/-- a builder call with the element types the Rust type checker assigned to it -/
structure TStep where
  tin : Nat
  tout : Nat
  step : EStep

def TStep.toOp (s : TStep) : DynOp TPart := typedOp s.tin s.tout s.step.toOp

/-- `filter` / `filter_values` return the collection type they were called on -/
def TStep.shapeOK (s : TStep) : Prop :=
  match s.step with
  | .filter _ | .filterValues _ => s.tin = s.tout
  | _ => True

/-- the program type-checks from element type `t0` -/
def WellTyped (t0 : Nat) : List TStep → Prop
  | [] => True
  | s :: rest => s.tin = t0 ∧ s.shapeOK ∧ WellTyped s.tout rest

/-- the element type of the result -/
def finalType (t0 : Nat) : List TStep → Nat
  | [] => t0
  | s :: rest => finalType s.tout rest

def typedSource (t0 : Nat) (xs : List Val) : Node TPart :=
  .source (some (t0, xs)) xs.length (fun n => (vecSplit xs n).map (fun p => some (t0, p)))

theorem foldl_typed (steps : List TStep) :
    ∀ (t0 : Nat) (xs : List Val), WellTyped t0 steps →
      (steps.map TStep.toOp).foldl (fun acc o => o.apply acc) (some (t0, xs))
        = some (finalType t0 steps, interp (steps.map TStep.step) xs) := by
  induction steps with
  | nil => intro t0 xs _; rfl
  | cons s rest ih =>
    intro t0 xs h
    obtain ⟨h1, _, h3⟩ := h
    simp only [List.map_cons, List.foldl_cons]
    have : s.toOp.apply (some (t0, xs)) = some (s.tout, s.step.eval xs) := by
      show (if t0 = s.tin then some (s.tout, s.step.toOp.apply xs) else none) = _
      rw [if_pos h1.symm, toOp_apply]
    rw [this, ih s.tout _ h3]
    rfl

theorem movable_typedOp (tin tout : Nat) (op : DynOp Part) :
    movable (typedOp tin tout op) = movable op := rfl

theorem sortKey_typedOp (tin tout : Nat) (op : DynOp Part) :
    sortKey (typedOp tin tout op) = sortKey op := rfl

/-- the reorder pass reads only flags and costs, which the downcast wrapper does not change -/
theorem blockInert_typed (steps : List TStep) :
    BlockInert (steps.map TStep.toOp) ↔ BlockInert (steps.map (fun s => s.step.toOp)) := by
  unfold BlockInert
  simp only [List.all_map, List.length_map, List.pairwise_map]
  exact Iff.rfl

end IB
