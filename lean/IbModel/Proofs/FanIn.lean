import IbModel.Model.Engine
/-! Helper lemmas about the fan-in loop of `exec_par` (chunking, termination, stuck-ness). -/
namespace IB
variable {P : Type}

theorem chunksOf_flatten (f : Nat) (hf : 1 ≤ f) :
    ∀ (fuel : Nat) (xs : List P), xs.length ≤ fuel → (chunksOf f fuel xs).flatten = xs := by
  intro fuel
  induction fuel with
  | zero => intro xs h; have : xs = [] := List.length_eq_zero_iff.mp (by omega); subst this; rfl
  | succ fuel ih =>
    intro xs h
    unfold chunksOf
    by_cases he : xs.isEmpty
    · simp [he]; exact (List.isEmpty_iff.mp he)
    · simp only [he, Bool.false_eq_true, ↓reduceIte, List.flatten_cons]
      have hne : xs ≠ [] := by intro h0; simp [h0] at he
      have hl : 0 < xs.length := List.length_pos_iff.mpr hne
      rw [ih (xs.drop f) (by simp; omega)]
      exact List.take_append_drop f xs

theorem chunksOf_nonempty (f : Nat) (hf : 1 ≤ f) :
    ∀ (fuel : Nat) (xs : List P), ∀ g ∈ chunksOf f fuel xs, g ≠ [] := by
  intro fuel
  induction fuel with
  | zero => intro xs g hg; simp [chunksOf] at hg
  | succ fuel ih =>
    intro xs g hg
    unfold chunksOf at hg
    by_cases he : xs.isEmpty
    · simp [he] at hg
    · simp only [he, Bool.false_eq_true, ↓reduceIte, List.mem_cons] at hg
      have hne : xs ≠ [] := by intro h0; simp [h0] at he
      rcases hg with rfl | hg
      · intro h0
        have h2 : (xs.take f).length = 0 := by simp [h0]
        have hl : 0 < xs.length := List.length_pos_iff.mpr hne
        rw [List.length_take] at h2
        omega
      · exact ih _ g hg

theorem chunksOf_length (f : Nat) (hf : 2 ≤ f) :
    ∀ (fuel : Nat) (xs : List P), 2 * (chunksOf f fuel xs).length ≤ xs.length + 1 := by
  intro fuel
  induction fuel with
  | zero => intro xs; simp [chunksOf]
  | succ fuel ih =>
    intro xs
    unfold chunksOf
    by_cases he : xs.isEmpty
    · simp [he]
    · simp only [he, Bool.false_eq_true, ↓reduceIte, List.length_cons]
      have hne : xs ≠ [] := by intro h0; simp [h0] at he
      have hl : 0 < xs.length := List.length_pos_iff.mpr hne
      have := ih (xs.drop f)
      simp only [List.length_drop] at this
      omega

/-- With fan-out ≥ 2 the loop finishes within `length` rounds and its single result is `R`-equivalent
    to merging all accumulators at once. `R` = accumulator equivalence (`Eq` when merge is associative on
    the nose); `I` = an invariant of the accumulators that actually occur (e.g. "equivalent to the fold of
    some values"), preserved by `m` — the laws are only required of such accumulators. -/
theorem fanIn_spec (m : List P → P) (I : P → Prop) (R : P → P → Prop)
    (htrans : ∀ {a b c}, R a b → R b c → R a c)
    (hI : ∀ g : List P, (∀ a ∈ g, I a) → I (m g))
    (hm1 : ∀ a, I a → R a (m [a]))
    (hassoc : ∀ gs : List (List P), (∀ g ∈ gs, g ≠ [] ∧ ∀ a ∈ g, I a) → R (m (gs.map m)) (m gs.flatten))
    (f : Nat) (hf : 2 ≤ f) :
    ∀ (fuel : Nat) (accs : List P), accs.length ≤ fuel + 1 → accs ≠ [] → (∀ a ∈ accs, I a) →
      ∃ x, fanIn m f fuel accs = some [x] ∧ R x (m accs) := by
  intro fuel
  induction fuel with
  | zero =>
    intro accs hl hne hIa
    match accs, hl, hne, hIa with
    | [a], _, _, hIa => exact ⟨a, by simp [fanIn], hm1 a (hIa a (by simp))⟩
  | succ fuel ih =>
    intro accs hl hne hIa
    unfold fanIn
    by_cases h1 : accs.length ≤ 1
    · match accs, h1, hne, hIa with
      | [a], _, _, hIa => exact ⟨a, by simp, hm1 a (hIa a (by simp))⟩
    · simp only [h1, ↓reduceIte]
      have hlen := chunksOf_length f hf accs.length accs
      have hfl := chunksOf_flatten f (by omega) accs.length accs (Nat.le_refl _)
      have hnonempty := chunksOf_nonempty f (by omega) accs.length accs
      have hsub : ∀ g ∈ chunksOf f accs.length accs, ∀ a ∈ g, I a := by
        intro g hg a ha
        apply hIa
        rw [← hfl]
        exact List.mem_flatten.mpr ⟨g, hg, ha⟩
      have hne' : (chunksOf f accs.length accs).map m ≠ [] := by
        intro h0
        have : (chunksOf f accs.length accs) = [] := by simpa using h0
        rw [this] at hfl
        simp at hfl
        exact hne hfl
      have hI' : ∀ b ∈ (chunksOf f accs.length accs).map m, I b := by
        intro b hb
        obtain ⟨g, hg, rfl⟩ := List.mem_map.mp hb
        exact hI g (hsub g hg)
      obtain ⟨x, hx, hR⟩ := ih _ (by simp; omega) hne' hI'
      refine ⟨x, hx, htrans hR ?_⟩
      have := hassoc _ (fun g hg => ⟨hnonempty g hg, hsub g hg⟩)
      rwa [hfl] at this

/-- for fan-out 1 (and 0, which the engine clamps to 1) the loop never shrinks the list -/
theorem chunksOf_one_length :
    ∀ (fuel : Nat) (xs : List P), xs.length ≤ fuel → (chunksOf 1 fuel xs).length = xs.length := by
  intro fuel
  induction fuel with
  | zero => intro xs h; have : xs = [] := List.length_eq_zero_iff.mp (by omega); subst this; rfl
  | succ fuel ih =>
    intro xs h
    unfold chunksOf
    cases xs with
    | nil => simp
    | cons x xs =>
      simp only [List.isEmpty_cons, Bool.false_eq_true, ↓reduceIte, List.length_cons, List.drop_succ_cons,
        List.drop_zero]
      rw [ih xs (by simp at h; omega)]

theorem fanIn_one_stuck (m : List P → P) :
    ∀ (fuel : Nat) (accs : List P), 2 ≤ accs.length → fanIn m 1 fuel accs = none := by
  intro fuel
  induction fuel with
  | zero => intro accs h; simp [fanIn]; omega
  | succ fuel ih =>
    intro accs h
    unfold fanIn
    have h1 : ¬ accs.length ≤ 1 := by omega
    simp only [h1, ↓reduceIte]
    apply ih
    simp [chunksOf_one_length accs.length accs (Nat.le_refl _)]
    exact h

theorem reduceGlobalWith_spec (c : Nat) (m : List P → P) (fo : Option Nat)
    (I : P → Prop) (R : P → P → Prop) (hrefl : ∀ a, R a a) (htrans : ∀ {a b c}, R a b → R b c → R a c)
    (hI : ∀ g : List P, (∀ a ∈ g, I a) → I (m g))
    (hm1 : ∀ a, I a → R a (m [a]))
    (hassoc : ∀ gs : List (List P), (∀ g ∈ gs, g ≠ [] ∧ ∀ a ∈ g, I a) → R (m (gs.map m)) (m gs.flatten))
    (hf : ∀ f, fo = some f → 2 ≤ max f c) (accs : List P) (hIa : ∀ a ∈ accs, I a) :
    ∃ x, reduceGlobalWith c m fo accs = pure x ∧ R x (m accs) := by
  unfold reduceGlobalWith
  cases fo with
  | none =>
    match accs, hIa with
    | [], _ => exact ⟨m [], by simp, hrefl _⟩
    | [a], hIa => exact ⟨a, by simp, hm1 a (hIa a (by simp))⟩
    | a :: b :: rest, _ => exact ⟨m (a :: b :: rest), by simp, hrefl _⟩
  | some f =>
    have h2 := hf f rfl
    match accs, hIa with
    | [], _ => exact ⟨m [], by simp [fanIn], hrefl _⟩
    | a :: rest, hIa =>
      obtain ⟨x, hx, hR⟩ := fanIn_spec m I R htrans hI hm1 hassoc (max f c) h2
        (a :: rest).length (a :: rest) (by omega) (by simp) hIa
      exact ⟨x, by simp only [hx], hR⟩

/-- current code (`.max(2)`): terminates for EVERY fan-out setting, including `Some(0)` and `Some(1)` -/
theorem reduceGlobal_spec (m : List P → P) (fo : Option Nat)
    (I : P → Prop) (R : P → P → Prop) (hrefl : ∀ a, R a a) (htrans : ∀ {a b c}, R a b → R b c → R a c)
    (hI : ∀ g : List P, (∀ a ∈ g, I a) → I (m g))
    (hm1 : ∀ a, I a → R a (m [a]))
    (hassoc : ∀ gs : List (List P), (∀ g ∈ gs, g ≠ [] ∧ ∀ a ∈ g, I a) → R (m (gs.map m)) (m gs.flatten))
    (accs : List P) (hIa : ∀ a ∈ accs, I a) :
    ∃ x, reduceGlobal m fo accs = pure x ∧ R x (m accs) :=
  reduceGlobalWith_spec 2 m fo I R hrefl htrans hI hm1 hassoc (fun f _ => by omega) accs hIa

/-- pinned commit (`.max(1)`): an explicit fan-out of 0 or 1 with ≥ 2 accumulators never finishes -/
theorem legacy_reduceGlobal_stuck (m : List P → P) (f : Nat) (hf : f ≤ 1) (accs : List P)
    (h : 2 ≤ accs.length) : Legacy.reduceGlobal m (some f) accs = throw .nonTermination := by
  unfold Legacy.reduceGlobal reduceGlobalWith
  have : max f 1 = 1 := by omega
  simp only [this, fanIn_one_stuck m accs.length accs h]

end IB
