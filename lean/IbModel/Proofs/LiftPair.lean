import IbModel.Proofs.LiftSem
import IbModel.Proofs.PlanSem
import IbModel.Props.C04
import IbModel.Props.C05
/-!
# The GBK → lifted-combine window, for the builders' closures

`group_by_key` followed by `combine_values_lifted c` computes, per key, the same accumulator (up to the
combiner's equivalence, hence the same finished output) as `combine_values c` on the raw rows — so the
planner's lift pass (`liftGbk`) is sound for every window made of `gbkNode` and
`combineValuesLiftedNode c` with a lawful `c`. Shape predicate `LiftShape` + its preservation by `fuse`
and `reorder`.
-/
namespace IB


variable {c : VCombiner} {R : Val → Val → Prop}

/-- the sequential GBK output of `b`, as wire rows -/
theorem gbkSeq_eq (b : Part) : gbkMerge [gbkLocal b] = encGroups (mergeGroups [groupRows b]) :=
  gbkMerge_eq [b]

theorem encGroups_value_toList (m : List (Val × List Val)) (r : Val) (h : r ∈ encGroups m) :
    (r.key, r.value.toList) ∈ m := by
  unfold encGroups at h
  obtain ⟨kv, hkv, rfl⟩ := List.mem_map.mp h
  simpa using hkv

/-- GBK never emits an empty group -/
theorem gbkSeq_groups_nonempty (b : Part) : ∀ r ∈ gbkMerge [gbkLocal b], r.value.toList ≠ [] := by
  intro r hr
  rw [gbkSeq_eq] at hr
  exact gbk_groups_nonempty [b] _ (encGroups_value_toList _ r hr)

theorem keys_encGroups (m : List (Val × List Val)) : (encGroups m).map Val.key = m.map (·.1) := by
  unfold encGroups
  rw [List.map_map]
  apply List.map_congr_left
  intro kv _
  rfl

theorem map_rowKG_encGroups (m : List (Val × List Val)) : (encGroups m).map rowKG = m := by
  have := decGroups_encGroups m
  unfold decGroups at this
  exact this

/-- the values GBK files under `k` are exactly `k`'s values in the raw rows, in input order -/
theorem groupVals_gbkSeq (b : Part) (k : Val) : groupVals k (gbkMerge [gbkLocal b]) = rowVals k b := by
  unfold groupVals
  rw [← valuesAt_rowKG, gbkSeq_eq, map_rowKG_encGroups,
    valuesAt_eq_lookup (nodup_keys_mergeGroups _)]
  have h := lookupKV_mergeGroups_groupRows [b] k
  simp only [List.map_cons, List.map_nil, List.flatten_cons, List.flatten_nil, List.append_nil] at h
  rw [h]
  by_cases hv : rowVals k b = []
  · simp [hv]
  · simp [hv]

/-- … and its keys are the raw rows' keys in first-occurrence order -/
theorem keys_gbkSeq (b : Part) : (gbkMerge [gbkLocal b]).map Val.key = addKeys [] (b.map Val.key) := by
  rw [gbkSeq_eq, keys_encGroups]
  have h := keys_mergeGroups_groupRows [b]
  simpa using h

/-- **the window law**: lifted local on the GBK output = classic local on the raw rows, after the
    (single-partition) merge + finish — literally the same partition -/
theorem lift_pair_core (hc : LawfulCombiner c R) (b : Part) :
    combineMerge c [combineLocalGroups c (gbkMerge [gbkLocal b])] = combineMerge c [combineLocalPairs c b] := by
  have h1 := lifted_eq_classic_all hc [gbkMerge [gbkLocal b]]
    (by simpa using gbkSeq_groups_nonempty b)
  simp only [List.map_cons, List.map_nil] at h1
  rw [h1]
  have h2 := cv_closed_form hc [ungroupRows (gbkMerge [gbkLocal b])]
  have h3 := cv_closed_form hc [b]
  simp only [List.map_cons, List.map_nil, List.flatten_cons, List.flatten_nil, List.append_nil] at h2 h3
  rw [h2, h3, addKeys_ungroupRows _ (gbkSeq_groups_nonempty b) [], keys_gbkSeq, addKeys_dedup]
  apply List.map_congr_left
  intro k _
  have := rowVals_ungroupRows k (gbkMerge [gbkLocal b])
  rw [groupVals_gbkSeq] at this
  unfold rowVals at this
  rw [this]

/-! ## the shape of builder-made windows -/

/-- every `gbk` node is the builders' `gbkNode` and every combine that carries `local_groups` is
    `combineValuesLiftedNode c` for a lawful `c` (all other nodes are unconstrained) -/
def LiftShapeNode : Node Part → Prop
  | .gbk gl gm => gl = gbkLocal ∧ gm = gbkMerge
  | .combineValues lp (some lg) m =>
      ∃ (c : VCombiner) (R : Val → Val → Prop), LawfulCombiner c R ∧
        lp = combineLocalPairs c ∧ lg = combineLocalGroups c ∧ m = combineMerge c
  | _ => True

def LiftShape (ch : List (Node Part)) : Prop := ∀ nd ∈ ch, LiftShapeNode nd

theorem liftPairsOK_of_shape' (ch : List (Node Part)) : LiftShape ch → LiftPairsOK ch := by
  fun_induction LiftPairsOK ch with
  | case1 gl gm lp lg m rest ih =>
    intro h
    refine ⟨?_, ih (fun x hx => h x (by simp [hx]))⟩
    obtain ⟨rfl, rfl⟩ := h (.gbk gl gm) (by simp)
    obtain ⟨c, R, hc, rfl, rfl, rfl⟩ := h (.combineValues lp (some lg) m) (by simp)
    exact lift_pair_core hc
  | case2 n rest hne ih =>
    intro h
    exact ih (fun x hx => h x (List.mem_cons_of_mem _ hx))
  | case3 => intro _; trivial

/-- fusion only merges stateless blocks, so the shape survives -/
theorem liftShape_fuse (ch : List (Node Part)) (h : LiftShape ch) : LiftShape (fuse ch) := by
  intro n hn
  rcases fuse_mem_cases ch n hn with h1 | ⟨ops, rfl⟩
  · exact h n h1
  · trivial

/-- the reorder pass only permutes ops inside stateless blocks, so the shape survives -/
theorem liftShape_reorder (ch : List (Node Part)) (h : LiftShape ch) : LiftShape (reorder ch) := by
  intro n hn
  rcases reorder_mem_cases ch n hn with h1 | ⟨ops, rfl⟩
  · exact h n h1
  · trivial

end IB
