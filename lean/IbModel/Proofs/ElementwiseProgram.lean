import IbModel.Model.Program
import IbModel.Proofs.ElementwiseOrder
/-!
# C02 helpers (4): the bridge to what the driver runs

The correspondence check evaluates `runSeq / runPar / runLiteral / runSeqNoReorder` on programs of
the named-function library (`Model/Program.lean`). For the element-wise subset of `Step` the chain
those functions build IS `elemChain` of the corresponding shallow `EStep`s, so the C02 theorems speak
about exactly the definitions the driver executes.
-/
namespace IB

/-- without the reorder pass the planner is pure fusion on source/stateless chains -/
theorem optimiseNoReorder_of_isElem {P : Type} (c : List (Node P))
    (h : ∀ n ∈ c, Node.isElem n = true) : optimiseNoReorder c = fuse c := by
  have hf := fuse_isElem c h
  unfold optimiseNoReorder
  rw [liftGbk_of_noLiftPair _ (noLiftPair_of_isElem _ hf), dropMid_of_noMat _ (noMat_of_isElem _ hf)]

/-- attribution: with the reorder pass skipped, EVERY element-wise program computes the steps as written -/
theorem noReorder_seq_eq_interp (xs : List Val) (steps : List EStep) :
    execSeq (optimiseNoReorder (elemChain xs steps)) = .ok (interp steps xs) := by
  rw [optimiseNoReorder_of_isElem _ (elemChain_isElem xs steps), fuse_sem', execSeq_elemChain]

/-- the element-wise builder calls of the program library, as shallow steps -/
def Step.toEStep : Step → Option EStep
  | .map f => some (.map f.eval)
  | .filter p => some (.filter p.eval)
  | .flatMap f => some (.flatMap f.eval)
  | .keyBy k => some (.keyBy k.eval)
  | .mapBatches n f => some (.mapBatches n f.eval)
  | .mapValues f => some (.mapValues f.eval)
  | .filterValues p => some (.filterValues p.eval)
  | .mapValuesBatches n f => some (.mapValuesBatches n f.eval)
  | .unkey => some (.map unkeyF)
  | .swapkv => some (.map swapF)
  | .values => some (.map Val.value)
  | .keys => some (.map Val.key)
  | .topair => some (.map topairF)
  | .ungroup => some (.flatMap ungroupF)
  | .glen => some (.map glenF)
  | .gsum => some (.map gsumF)
  | .mapSide side => some (.map (mapSideF side))
  | .filterSide side => some (.filter (filterSideF side))
  | .tryMap => some (.map tryF)
  | .unresult => some (.map (fun x => x))
  | .debugInspect => some (.map (fun x => x))
  | .debugCount => some (.map (fun x => x))
  | .debugSample _ => some (.map (fun x => x))
  | .customOp n => some (.map (customF n))
  | .mapSideMap => some (.map sideMapF)
  | .tryMapP p => some (.map (tryPF p))
  | .resMap f => some (.map (resMapF f))
  | .resFilter p => some (.filter (resFilterF p))
  | .mapSideMapP pairs => some (.map (sideMapPF pairs))
  | _ => none

def toESteps : List Step → Option (List EStep)
  | [] => some []
  | s :: rest =>
    match s.toEStep, toESteps rest with
    | some e, some es => some (e :: es)
    | _, _ => none

theorem Step.apply_elementwise (acc : List (Node Part)) (s : Step) (e : EStep)
    (h : s.toEStep = some e) : Step.apply acc s = acc ++ [e.toNode] := by
  cases s <;> simp only [Step.toEStep, Option.some.injEq, reduceCtorEq] at h <;> subst h <;>
    simp only [Step.apply] <;> rfl

theorem applySteps_elementwise (steps : List Step) :
    ∀ (acc : List (Node Part)) (es : List EStep), toESteps steps = some es →
      applySteps acc steps = acc ++ es.map EStep.toNode := by
  induction steps with
  | nil =>
    intro acc es h
    simp only [toESteps, Option.some.injEq] at h
    subst h
    simp [applySteps]
  | cons s rest ih =>
    intro acc es h
    unfold toESteps at h
    split at h
    · next e es' he hes =>
      simp only [Option.some.injEq] at h
      subst h
      rw [applySteps, Step.apply_elementwise acc s e he, ih _ es' hes]
      simp
    · exact absurd h (by simp)

theorem litChain_elementwise (src : List Val) (steps : List Step) (es : List EStep)
    (h : toESteps steps = some es) : litChain src steps = elemChain src es := by
  unfold litChain
  rw [applySteps_elementwise steps _ es h]
  rfl

end IB
