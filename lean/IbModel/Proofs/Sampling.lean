import IbModel.Model.Sampling
import IbModel.Proofs.FanIn
/-!
Helper lemmas for C14: the heap/store/alive invariant of `PRAcc` and its preservation by
`add_input`, `merge` (index remapping) and the trim loop; `finish`.
-/
namespace IB.Sampling

variable {σ α : Type}

/-! ## live slots and their indices -/

/-- indices of the live (non-tombstoned) slots, ascending -/
def liveIdx : List (Option (Nat × Nat × α)) → List Nat
  | [] => []
  | none :: r => (liveIdx r).map (· + 1)
  | some _ :: r => 0 :: (liveIdx r).map (· + 1)

@[simp] theorem live_nil : live ([] : List (Option (Nat × Nat × α))) = [] := rfl
@[simp] theorem live_none_cons (r : List (Option (Nat × Nat × α))) : live (none :: r) = live r := by
  simp [live]
@[simp] theorem live_some_cons (x : Nat × Nat × α) (r : List (Option (Nat × Nat × α))) :
    live (some x :: r) = x :: live r := by
  simp [live]
theorem live_append (a b : List (Option (Nat × Nat × α))) : live (a ++ b) = live a ++ live b := by
  simp [live, List.filterMap_append]
@[simp] theorem live_map_some (l : List (Nat × Nat × α)) : live (l.map some) = l := by
  induction l with
  | nil => rfl
  | cons x l ih => simp [ih]

theorem liveIdx_length : ∀ (st : List (Option (Nat × Nat × α))), (liveIdx st).length = (live st).length
  | [] => rfl
  | none :: r => by simp [liveIdx, liveIdx_length r]
  | some _ :: r => by simp [liveIdx, liveIdx_length r]

theorem mem_liveIdx : ∀ (st : List (Option (Nat × Nat × α))) (j : Nat),
    j ∈ liveIdx st → ∃ e, st[j]? = some (some e)
  | [], j, h => by simp [liveIdx] at h
  | none :: r, j, h => by
    simp only [liveIdx, List.mem_map] at h
    obtain ⟨i, hi, rfl⟩ := h
    obtain ⟨e, he⟩ := mem_liveIdx r i hi
    exact ⟨e, by simpa using he⟩
  | some x :: r, j, h => by
    simp only [liveIdx, List.mem_cons, List.mem_map] at h
    rcases h with rfl | ⟨i, hi, rfl⟩
    · exact ⟨x, by simp⟩
    · obtain ⟨e, he⟩ := mem_liveIdx r i hi
      exact ⟨e, by simpa using he⟩

/-- tombstoning a live slot removes exactly its index … -/
theorem liveIdx_set_none : ∀ (st : List (Option (Nat × Nat × α))) (j : Nat) (e : Nat × Nat × α),
    st[j]? = some (some e) → (liveIdx st).Perm (j :: liveIdx (st.set j none))
  | [], j, e, h => by simp at h
  | x :: r, 0, e, h => by
    simp only [List.getElem?_cons_zero, Option.some.injEq] at h
    subst h
    simp [liveIdx]
  | x :: r, j + 1, e, h => by
    have h' : r[j]? = some (some e) := by simpa using h
    have ih := (liveIdx_set_none r j e h').map (· + 1)
    simp only [List.map_cons] at ih
    cases x with
    | none => simpa [liveIdx] using ih
    | some y =>
      simp only [liveIdx, List.set_cons_succ]
      exact (List.Perm.cons 0 ih).trans (List.Perm.swap _ _ _)

/-- … and exactly its item -/
theorem live_set_none : ∀ (st : List (Option (Nat × Nat × α))) (j : Nat) (e : Nat × Nat × α),
    st[j]? = some (some e) → (live st).Perm (e :: live (st.set j none))
  | [], j, e, h => by simp at h
  | x :: r, 0, e, h => by
    simp only [List.getElem?_cons_zero, Option.some.injEq] at h
    subst h
    simp
  | x :: r, j + 1, e, h => by
    have h' : r[j]? = some (some e) := by simpa using h
    have ih := live_set_none r j e h'
    cases x with
    | none => simpa using ih
    | some y =>
      simp only [List.set_cons_succ, live_some_cons]
      exact (List.Perm.cons y ih).trans (List.Perm.swap _ _ _)

theorem liveIdx_append : ∀ (a b : List (Option (Nat × Nat × α))),
    liveIdx (a ++ b) = liveIdx a ++ (liveIdx b).map (· + a.length)
  | [], b => by simp [liveIdx]
  | none :: r, b => by
    simp only [List.cons_append, liveIdx, liveIdx_append r b, List.map_append, List.map_map,
      List.length_cons]
    congr 1
  | some _ :: r, b => by
    simp only [List.cons_append, liveIdx, liveIdx_append r b, List.map_append, List.map_map,
      List.length_cons, List.cons.injEq, true_and]
    congr 1

theorem liveIdx_map_some_add : ∀ (l : List (Nat × Nat × α)) (b : Nat),
    (liveIdx (l.map some)).map (· + b) = List.range' b l.length
  | [], b => rfl
  | x :: l, b => by
    have ih := liveIdx_map_some_add l (b + 1)
    simp only [List.map_cons, liveIdx, List.map_map, List.length_cons, List.range'_succ, Nat.zero_add,
      List.cons.injEq, true_and]
    rw [← ih]
    apply List.map_congr_left
    intro i _
    simp only [Function.comp]
    omega

/-! ## the heap -/

theorem minOf_mem : ∀ (xs : List (Nat × Nat × Nat)) (m : Nat × Nat × Nat), minOf m xs = m ∨ minOf m xs ∈ xs
  | [], m => Or.inl rfl
  | x :: xs, m => by
    simp only [minOf]
    rcases minOf_mem xs (if lexLt x m then x else m) with h | h
    · by_cases hx : lexLt x m
      · simp only [hx, ↓reduceIte] at h ⊢
        exact Or.inr (by simp [h])
      · simp only [hx, Bool.false_eq_true, ↓reduceIte] at h ⊢
        exact Or.inl h
    · exact Or.inr (List.mem_cons_of_mem _ h)

theorem popMin_perm {h h' : List (Nat × Nat × Nat)} {e : Nat × Nat × Nat}
    (hp : popMin h = some (e, h')) : h.Perm (e :: h') := by
  cases h with
  | nil => simp [popMin] at hp
  | cons x xs =>
    simp only [popMin, Option.some.injEq, Prod.mk.injEq] at hp
    obtain ⟨rfl, rfl⟩ := hp
    have hm : minOf x xs ∈ x :: xs := by
      rcases minOf_mem xs x with h | h
      · rw [h]; exact List.mem_cons_self
      · exact List.mem_cons_of_mem _ h
    exact List.perm_cons_erase hm

theorem lexLt_iff (a b : Nat × Nat × Nat) :
    lexLt a b = true ↔ (a.1 < b.1 ∨ (a.1 = b.1 ∧ (a.2.1 < b.2.1 ∨ (a.2.1 = b.2.1 ∧ a.2.2 < b.2.2)))) := by
  simp [lexLt]

theorem minOf_min : ∀ (xs : List (Nat × Nat × Nat)) (m : Nat × Nat × Nat),
    ∀ y ∈ m :: xs, lexLt y (minOf m xs) = false
  | [], m, y, hy => by
    simp only [List.mem_singleton] at hy
    subst hy
    simp only [minOf]
    cases h : lexLt y y with
    | false => rfl
    | true => rw [lexLt_iff] at h; omega
  | x :: xs, m, y, hy => by
    simp only [minOf]
    have ih := minOf_min xs (if lexLt x m then x else m)
    cases hr : lexLt y (minOf (if lexLt x m then x else m) xs) with
    | false => rfl
    | true =>
      exfalso
      simp only [List.mem_cons] at hy
      by_cases hc : lexLt x m = true
      · simp only [hc, ↓reduceIte] at ih hr
        have hx := ih x List.mem_cons_self
        rcases hy with rfl | rfl | hy
        · -- y = m: x < m < r contradicts ¬ x < r
          have h1 := (lexLt_iff x y).mp hc
          have h2 := (lexLt_iff _ _).mp hr
          have h3 : ¬ lexLt x (minOf x xs) = true := by simp [hx]
          rw [lexLt_iff] at h3
          omega
        · simp [hx] at hr
        · have := ih y (List.mem_cons_of_mem _ hy); simp [this] at hr
      · simp only [hc, Bool.false_eq_true, ↓reduceIte] at ih hr
        have hm := ih m List.mem_cons_self
        rcases hy with rfl | rfl | hy
        · simp [hm] at hr
        · -- y = x: x < r, ¬ m < r  ⇒ x < m, contradiction
          have h2 := (lexLt_iff _ _).mp hr
          have h3 : ¬ lexLt m (minOf m xs) = true := by simp [hm]
          rw [lexLt_iff] at h3 hc
          omega
        · have := ih y (List.mem_cons_of_mem _ hy); simp [this] at hr
theorem popMin_cons (x : Nat × Nat × Nat) (xs : List (Nat × Nat × Nat)) :
    ∃ e h', popMin (x :: xs) = some (e, h') := ⟨_, _, rfl⟩

/-! ## well-formedness: heap entries = live slots, `alive` = number of live slots -/

structure WF (a : PRAcc σ α) : Prop where
  heap_perm : (a.heap.map (fun e => e.2.2)).Perm (liveIdx a.store)
  alive_eq : a.alive = (live a.store).length

theorem wf_create (k : Nat) (s0 : σ) : WF (create k s0 : PRAcc σ α) :=
  ⟨by simp [create, liveIdx], by simp [create]⟩

/-- the trim loop: keeps well-formedness, leaves `k`, reduces `alive` to `min alive k`, and only
    tombstones (every previously live item is still live or was dropped) -/
theorem trimLoop_spec : ∀ (fuel : Nat) (a : PRAcc σ α), WF a → fuel = a.heap.length →
    WF (trimLoop fuel a) ∧ (trimLoop fuel a).k = a.k ∧ (trimLoop fuel a).alive = min a.alive a.k ∧
      ∃ d, (live a.store).Perm (d ++ live (trimLoop fuel a).store)
  | 0, a, wf, hf => by
    have h0 : trimLoop 0 a = a := rfl
    rw [h0]
    refine ⟨wf, rfl, ?_, [], by simp⟩
    have hh : a.heap = [] := List.length_eq_zero_iff.mp hf.symm
    have h0 : (liveIdx a.store).length = 0 := by
      rw [← wf.heap_perm.length_eq, hh]; rfl
    have : a.alive = 0 := by rw [wf.alive_eq, ← liveIdx_length, h0]
    omega
  | fuel + 1, a, wf, hf => by
    by_cases hgt : a.alive > a.k
    · -- the heap is not empty
      cases hheap : a.heap with
      | nil => rw [hheap] at hf; simp at hf
      | cons x xs =>
        obtain ⟨e, h', hp⟩ := popMin_cons x xs
        have hperm : a.heap.Perm (e :: h') := by rw [hheap]; exact popMin_perm hp
        have hmem : e.2.2 ∈ liveIdx a.store := by
          have : e.2.2 ∈ a.heap.map (fun e => e.2.2) :=
            List.mem_map.mpr ⟨e, hperm.mem_iff.mpr List.mem_cons_self, rfl⟩
          exact wf.heap_perm.mem_iff.mp this
        obtain ⟨it, hit⟩ := mem_liveIdx a.store e.2.2 hmem
        have hstep : trimLoop (fuel + 1) a =
            trimLoop fuel { a with heap := h', store := a.store.set e.2.2 none, alive := a.alive - 1 } := by
          rw [trimLoop]
          simp only [hgt, ↓reduceIte, hheap, hp, hit]
        have hidx := liveIdx_set_none a.store e.2.2 it hit
        have hlive := live_set_none a.store e.2.2 it hit
        have wf' : WF { a with heap := h', store := a.store.set e.2.2 none, alive := a.alive - 1 } := by
          constructor
          · have hm := hperm.map (fun (e : Nat × Nat × Nat) => e.2.2)
            simp only [List.map_cons] at hm
            exact ((hm.symm.trans wf.heap_perm).trans hidx).cons_inv
          · have := hlive.length_eq
            simp only [List.length_cons] at this
            simp only
            rw [wf.alive_eq]; omega
        have hf' : fuel = h'.length := by
          have := hperm.length_eq
          simp only [List.length_cons] at this
          omega
        obtain ⟨w, hk, hal, d, hd⟩ := trimLoop_spec fuel _ wf' hf'
        rw [hstep]
        refine ⟨w, hk, ?_, it :: d, ?_⟩
        · rw [hal]; simp only; omega
        · exact hlive.trans (List.Perm.cons it hd)
    · have hstep : trimLoop (fuel + 1) a = a := by
        rw [trimLoop]; simp only [hgt, ↓reduceIte]
      rw [hstep]
      exact ⟨wf, rfl, by omega, [], by simp⟩

theorem trim_spec (a : PRAcc σ α) (wf : WF a) :
    WF (trim a) ∧ (trim a).k = a.k ∧ (trim a).alive = min a.alive a.k ∧
      ∃ d, (live a.store).Perm (d ++ live (trim a).store) :=
  trimLoop_spec _ a wf rfl

/-! ## `add_input` -/

theorem addInput_spec (next : σ → Nat × σ) (a : PRAcc σ α) (v : α) (wf : WF a) (hk : a.k ≠ 0) :
    WF (addInput next a v) ∧ (addInput next a v).k = a.k ∧
      (addInput next a v).alive = min (a.alive + 1) a.k ∧
      ∃ d, ((live a.store).map (fun it => it.2.2) ++ [v]).Perm
        (d ++ (live (addInput next a v).store).map (fun it => it.2.2)) := by
  have hk' : (a.k == 0) = false := by simpa using hk
  have wf1 : WF { a with rng := (next a.rng).2, seq := a.seq + 1,
                         store := a.store ++ [some ((next a.rng).1, a.seq, v)],
                         heap := ((next a.rng).1, a.seq, a.store.length) :: a.heap,
                         alive := a.alive + 1 } := by
    constructor
    · simp only [List.map_cons, liveIdx_append, liveIdx, List.map_nil, List.map_cons, Nat.zero_add]
      exact (List.Perm.cons _ wf.heap_perm).trans (List.perm_append_singleton _ _).symm
    · simp only [live_append, List.length_append, live_some_cons, live_nil, List.length_cons,
        List.length_nil, wf.alive_eq]
  obtain ⟨w, hkk, hal, d, hd⟩ := trim_spec _ wf1
  unfold addInput
  simp only [hk', Bool.false_eq_true, ↓reduceIte]
  refine ⟨w, hkk, hal, d.map (fun it => it.2.2), ?_⟩
  have := hd.map (fun it => it.2.2)
  simpa [live_append] using this

/-! ## `merge` -/

/-- the `map` vector built by the move loop: new index of each live slot, `none` for tombstones -/
def remapFrom : Nat → List (Option (Nat × Nat × α)) → List (Option Nat)
  | _, [] => []
  | n, none :: r => none :: remapFrom n r
  | n, some _ :: r => some n :: remapFrom (n + 1) r

theorem moveLive_eq : ∀ (os st : List (Option (Nat × Nat × α))) (mp : List (Option Nat)) (al : Nat),
    moveLive os (st, mp, al) =
      (st ++ (live os).map some, mp ++ remapFrom st.length os, al + (live os).length)
  | [], st, mp, al => by simp [moveLive, remapFrom]
  | none :: r, st, mp, al => by
    rw [moveLive, moveLive_eq r]
    simp [remapFrom]
  | some it :: r, st, mp, al => by
    rw [moveLive, moveLive_eq r]
    simp [remapFrom, Nat.add_assoc, Nat.add_comm 1]

/-- what the drain loop does to one heap entry -/
def remapEntry (mp : List (Option Nat)) (e : Nat × Nat × Nat) : Option (Nat × Nat × Nat) :=
  match mp[e.2.2]? with
  | some (some i) => some (e.1, e.2.1, i)
  | _ => none

def remapIdx (mp : List (Option Nat)) (i : Nat) : Option Nat :=
  match mp[i]? with
  | some (some j) => some j
  | _ => none

theorem drainHeap_perm (mp : List (Option Nat)) : ∀ (fuel : Nat) (oh acc : List (Nat × Nat × Nat)),
    fuel = oh.length → (drainHeap mp fuel oh acc).Perm (oh.filterMap (remapEntry mp) ++ acc)
  | 0, oh, acc, hf => by
    have : oh = [] := List.length_eq_zero_iff.mp hf.symm
    subst this
    simp [drainHeap]
  | fuel + 1, oh, acc, hf => by
    cases oh with
    | nil => simp at hf
    | cons x xs =>
      obtain ⟨e, h', hp⟩ := popMin_cons x xs
      have hperm := popMin_perm hp
      have hf' : fuel = h'.length := by
        have := hperm.length_eq
        simp only [List.length_cons] at this hf
        omega
      have hfm := hperm.filterMap (remapEntry mp)
      rw [drainHeap]
      simp only [hp]
      cases hm : mp[e.2.2]? with
      | none =>
        have ih := drainHeap_perm mp fuel h' acc hf'
        refine ih.trans (List.Perm.append_right _ ?_)
        refine List.Perm.trans ?_ hfm.symm
        simp [remapEntry, hm]
      | some o =>
        cases o with
        | none =>
          have ih := drainHeap_perm mp fuel h' acc hf'
          refine ih.trans (List.Perm.append_right _ ?_)
          refine List.Perm.trans ?_ hfm.symm
          simp [remapEntry, hm]
        | some i =>
          have ih := drainHeap_perm mp fuel h' ((e.1, e.2.1, i) :: acc) hf'
          refine ih.trans ?_
          refine List.Perm.trans ?_ (List.Perm.append_right _ hfm.symm)
          simp only [List.filterMap_cons, remapEntry, hm, List.cons_append]
          exact List.perm_middle

theorem map_idx_filterMap_remap (mp : List (Option Nat)) (oh : List (Nat × Nat × Nat)) :
    (oh.filterMap (remapEntry mp)).map (fun e => e.2.2) = (oh.map (fun e => e.2.2)).filterMap (remapIdx mp) := by
  induction oh with
  | nil => rfl
  | cons e oh ih =>
    simp only [List.filterMap_cons, List.map_cons, remapEntry, remapIdx]
    cases hm : mp[e.2.2]? with
    | none => simpa using ih
    | some o =>
      cases o with
      | none => simpa using ih
      | some i => simp [ih]

theorem remapIdx_cons_succ (o : Option Nat) (m : List (Option Nat)) :
    (remapIdx (o :: m)) ∘ (· + 1) = remapIdx m := by
  funext i
  simp [remapIdx, Function.comp]

/-- the remap table sends the live indices of `st`, in order, to `n, n+1, …` -/
theorem liveIdx_remap : ∀ (st : List (Option (Nat × Nat × α))) (n : Nat),
    (liveIdx st).filterMap (remapIdx (remapFrom n st)) = List.range' n (live st).length
  | [], n => rfl
  | none :: r, n => by
    have ih := liveIdx_remap r n
    simp only [liveIdx, remapFrom, List.filterMap_map, live_none_cons, remapIdx_cons_succ]
    exact ih
  | some x :: r, n => by
    have ih := liveIdx_remap r (n + 1)
    have h0 : remapIdx (some n :: remapFrom (n + 1) r) 0 = some n := by simp [remapIdx]
    simp only [liveIdx, remapFrom, List.filterMap_cons, h0, List.filterMap_map, remapIdx_cons_succ,
      live_some_cons, List.length_cons, List.range'_succ, List.cons.injEq, true_and]
    exact ih

theorem merge_spec (a o : PRAcc σ α) (wa : WF a) (wo : WF o) (hk : a.k ≠ 0) :
    WF (merge a o) ∧ (merge a o).k = max a.k o.k ∧
      (merge a o).alive = min (a.alive + o.alive) (max a.k o.k) ∧
      ∃ d, ((live a.store).map (fun it => it.2.2) ++ (live o.store).map (fun it => it.2.2)).Perm
        (d ++ (live (merge a o).store).map (fun it => it.2.2)) := by
  have hk' : (a.k == 0) = false := by simpa using hk
  have hmoved := moveLive_eq o.store a.store [] a.alive
  simp only [List.nil_append] at hmoved
  have wf1 : WF { a with k := max a.k o.k,
                         store := a.store ++ (live o.store).map some,
                         heap := drainHeap (remapFrom a.store.length o.store) o.heap.length o.heap a.heap,
                         alive := a.alive + (live o.store).length } := by
    constructor
    · have h1 := (drainHeap_perm (remapFrom a.store.length o.store) o.heap.length o.heap a.heap rfl).map
        (fun e => e.2.2)
      refine h1.trans ?_
      rw [List.map_append, map_idx_filterMap_remap, liveIdx_append, liveIdx_map_some_add]
      have h2 := (wo.heap_perm.filterMap (remapIdx (remapFrom a.store.length o.store)))
      rw [liveIdx_remap] at h2
      exact List.perm_append_comm.trans (List.Perm.append wa.heap_perm h2)
    · simp only [live_append, live_map_some, List.length_append, wa.alive_eq]
  obtain ⟨w, hkk, hal, d, hd⟩ := trim_spec _ wf1
  unfold merge
  simp only [hk', Bool.false_eq_true, ↓reduceIte, hmoved]
  refine ⟨w, hkk, ?_, d.map (fun it => it.2.2), ?_⟩
  · rw [hal]; simp only; rw [wo.alive_eq]
  · have := hd.map (fun it => it.2.2)
    simpa [live_append] using this

/-! ## `finish` -/

theorem insertItem_perm (x : Nat × Nat × α) : ∀ (l : List (Nat × Nat × α)), (insertItem x l).Perm (x :: l)
  | [] => List.Perm.refl _
  | y :: ys => by
    simp only [insertItem]
    split
    · exact List.Perm.refl _
    · exact (List.Perm.cons y (insertItem_perm x ys)).trans (List.Perm.swap _ _ _)

theorem sortItems_perm : ∀ (l : List (Nat × Nat × α)), (sortItems l).Perm l
  | [] => List.Perm.refl _
  | x :: l => by
    simp only [sortItems, List.foldr_cons]
    exact (insertItem_perm x _).trans (List.Perm.cons x (sortItems_perm l))

/-! ## partitions -/

theorem vecSplit_flatten {β : Type} (xs : List β) (n : Nat) : (vecSplit xs n).flatten = xs := by
  unfold vecSplit
  split
  · simp
  · rename_i h
    have h1 : 1 < n := by omega
    have h2 : 1 < xs.length := by omega
    apply chunksOf_flatten _ _ _ _ (Nat.le_refl _)
    apply Nat.div_pos <;> omega

theorem partsOf_flatten {β : Type} (n : Nat) (xs : List β) : (partsOf n xs).flatten = xs :=
  vecSplit_flatten xs _

end IB.Sampling
