import IbModel.Proofs.Sampling
/-!
Helper lemmas for C14's general negation: when every partition holds one element, every element draws the
*same* priority (the first of the restarted stream) with `seq = 0`; all heap comparisons are ties broken by
slot index, so merging drops the oldest element and the "sample" is the last `k` inputs — for every
generator and every seed.
-/
namespace IB.Sampling

variable {σ α : Type}

/-! ## the heap minimum under ties -/

theorem lexLt_tied (p s i j : Nat) : lexLt (p, s, i) (p, s, j) = decide (i < j) := by
  simp [lexLt]

theorem minOf_tied (p s : Nat) : ∀ (xs : List (Nat × Nat × Nat)) (m : Nat × Nat × Nat),
    (∀ y ∈ m :: xs, y.1 = p ∧ y.2.1 = s) → ∀ y ∈ m :: xs, (minOf m xs).2.2 ≤ y.2.2
  | [], m, _, y, hy => by
    simp only [List.mem_singleton] at hy
    subst hy
    exact Nat.le_refl _
  | x :: xs, m, hall, y, hy => by
    have hm := hall m List.mem_cons_self
    have hx := hall x (List.mem_cons_of_mem _ List.mem_cons_self)
    have hlt : lexLt x m = decide (x.2.2 < m.2.2) := by
      obtain ⟨x1, x2, x3⟩ := x
      obtain ⟨m1, m2, m3⟩ := m
      simp only at hm hx
      obtain ⟨rfl, rfl⟩ := hm
      obtain ⟨rfl, rfl⟩ := hx
      exact lexLt_tied _ _ _ _
    simp only [minOf]
    by_cases hc : x.2.2 < m.2.2
    · have hcond : lexLt x m = true := by rw [hlt]; simpa using hc
      simp only [hcond, ↓reduceIte]
      have ih := minOf_tied p s xs x (by
        intro z hz
        exact hall z (by
          simp only [List.mem_cons] at hz ⊢
          rcases hz with h | h
          · exact Or.inr (Or.inl h)
          · exact Or.inr (Or.inr h)))
      have hxm := ih x List.mem_cons_self
      simp only [List.mem_cons] at hy
      rcases hy with rfl | rfl | hy
      · omega
      · exact hxm
      · exact ih y (List.mem_cons_of_mem _ hy)
    · have hcond : lexLt x m = false := by rw [hlt]; simpa using hc
      simp only [hcond, Bool.false_eq_true, ↓reduceIte]
      have ih := minOf_tied p s xs m (by
        intro z hz
        exact hall z (by
          simp only [List.mem_cons] at hz ⊢
          rcases hz with h | h
          · exact Or.inl h
          · exact Or.inr (Or.inr h)))
      have hmm := ih m List.mem_cons_self
      simp only [List.mem_cons] at hy
      rcases hy with rfl | rfl | hy
      · exact hmm
      · omega
      · exact ih y (List.mem_cons_of_mem _ hy)

/-! ## tombstoning the first live slot -/

theorem live_set_min : ∀ (st : List (Option (Nat × Nat × α))) (j : Nat),
    j ∈ liveIdx st → (∀ i ∈ liveIdx st, j ≤ i) → live (st.set j none) = (live st).tail
  | [], j, h, _ => by simp [liveIdx] at h
  | none :: r, j, h, hmin => by
    simp only [liveIdx, List.mem_map] at h
    obtain ⟨j', hj', rfl⟩ := h
    have hmin' : ∀ i ∈ liveIdx r, j' ≤ i := by
      intro i hi
      have := hmin (i + 1) (by simp only [liveIdx, List.mem_map]; exact ⟨i, hi, rfl⟩)
      omega
    simpa using live_set_min r j' hj' hmin'
  | some x :: r, j, _, hmin => by
    have : j = 0 := by
      have := hmin 0 (by simp [liveIdx])
      omega
    subst this
    simp

/-! ## the trim loop when nothing / exactly one entry has to go -/

theorem trimLoop_noop : ∀ (fuel : Nat) (a : PRAcc σ α), ¬ a.alive > a.k → trimLoop fuel a = a
  | 0, _, _ => rfl
  | fuel + 1, a, h => by rw [trimLoop]; simp only [h, ↓reduceIte]

/-- all heap entries tied on `(p, s)`, one live item too many: the first live slot is tombstoned -/
theorem trim_one_tied (p s : Nat) (b : PRAcc σ α) (wf : WF b)
    (hheap : ∀ e ∈ b.heap, e.1 = p ∧ e.2.1 = s) (hal : b.alive = b.k + 1) :
    live (trim b).store = (live b.store).tail ∧ (∀ e ∈ (trim b).heap, e ∈ b.heap) := by
  unfold trim
  cases hh : b.heap with
  | nil =>
    -- impossible: a live slot exists
    have h0 : (liveIdx b.store).length = 0 := by
      rw [← wf.heap_perm.length_eq, hh]; rfl
    have : b.alive = 0 := by rw [wf.alive_eq, ← liveIdx_length, h0]
    omega
  | cons x xs =>
    obtain ⟨e, h', hp⟩ := popMin_cons x xs
    have hperm : b.heap.Perm (e :: h') := by rw [hh]; exact popMin_perm hp
    have he : e = minOf x xs := by
      simp only [popMin, Option.some.injEq, Prod.mk.injEq] at hp
      exact hp.1.symm
    have hmem : e.2.2 ∈ liveIdx b.store := by
      have : e.2.2 ∈ b.heap.map (fun e => e.2.2) :=
        List.mem_map.mpr ⟨e, hperm.mem_iff.mpr List.mem_cons_self, rfl⟩
      exact wf.heap_perm.mem_iff.mp this
    have hmin : ∀ i ∈ liveIdx b.store, e.2.2 ≤ i := by
      intro i hi
      have hi' : i ∈ b.heap.map (fun e => e.2.2) := wf.heap_perm.mem_iff.mpr hi
      obtain ⟨y, hy, rfl⟩ := List.mem_map.mp hi'
      rw [he]
      exact minOf_tied p s xs x (by intro z hz; exact hheap z (by rw [hh]; exact hz)) y (by rw [← hh]; exact hy)
    obtain ⟨it, hit⟩ := mem_liveIdx b.store e.2.2 hmem
    have hgt : b.alive > b.k := by omega
    have hstep : trimLoop (xs.length + 1) b =
        trimLoop xs.length { b with heap := h', store := b.store.set e.2.2 none, alive := b.alive - 1 } := by
      rw [trimLoop]
      simp only [hgt, ↓reduceIte, hh, hp, hit]
    have hno : trimLoop xs.length { b with heap := h', store := b.store.set e.2.2 none, alive := b.alive - 1 } =
        { b with heap := h', store := b.store.set e.2.2 none, alive := b.alive - 1 } :=
      trimLoop_noop _ _ (by simp only; omega)
    simp only [List.length_cons, hstep, hno]
    refine ⟨live_set_min b.store e.2.2 hmem hmin, ?_⟩
    intro y hy
    rw [← hh]
    exact hperm.mem_iff.mpr (List.mem_cons_of_mem _ hy)

/-! ## stable sort of tied items -/

theorem sortItems_tied (p s : Nat) : ∀ (l : List (Nat × Nat × α)),
    (∀ it ∈ l, it.1 = p ∧ it.2.1 = s) → sortItems l = l
  | [], _ => rfl
  | x :: l, h => by
    have ih := sortItems_tied p s l (fun it hit => h it (List.mem_cons_of_mem _ hit))
    simp only [sortItems, List.foldr_cons] at ih ⊢
    rw [ih]
    cases l with
    | nil => rfl
    | cons y ys =>
      have hx := h x List.mem_cons_self
      have hy := h y (List.mem_cons_of_mem _ List.mem_cons_self)
      have : itemLe x y = true := by
        simp [itemLe, hx.1, hx.2, hy.1, hy.2]
      simp [insertItem, this]

/-! ## one element per partition -/

theorem chunksOf_one {β : Type} : ∀ (fuel : Nat) (xs : List β), xs.length ≤ fuel →
    chunksOf 1 fuel xs = xs.map (fun x => [x])
  | 0, xs, h => by
    have : xs = [] := List.length_eq_zero_iff.mp (by omega)
    subst this; rfl
  | fuel + 1, [], _ => by simp [chunksOf]
  | fuel + 1, x :: xs, h => by
    simp only [List.length_cons] at h
    simp [chunksOf, chunksOf_one fuel xs (by omega)]

theorem partsOf_singletons {β : Type} (n : Nat) (xs : List β) (h2 : 2 ≤ xs.length) (hn : xs.length ≤ n) :
    partsOf n xs = xs.map (fun x => [x]) := by
  have hc : clampParts n xs.length = xs.length := by
    unfold clampParts; omega
  unfold partsOf vecSplit
  rw [hc, if_neg (by omega)]
  have hd : (xs.length + xs.length - 1) / xs.length = 1 :=
    Nat.div_eq_of_lt_le (by omega) (by omega)
  rw [hd]
  exact chunksOf_one _ _ (Nat.le_refl _)

/-! ## accumulators whose live items are all tied on `(p, 0)` -/

/-- every live item and heap entry carries priority `p` and `seq = 0`; the live values, in store order, are `vals` -/
structure Tied (p k : Nat) (vals : List α) (a : PRAcc σ α) : Prop where
  wf : WF a
  k_eq : a.k = k
  items : ∀ it ∈ live a.store, it.1 = p ∧ it.2.1 = 0
  heap : ∀ e ∈ a.heap, e.1 = p ∧ e.2.1 = 0
  vals_eq : (live a.store).map (fun it => it.2.2) = vals
  len : vals.length ≤ k

/-- the last `k` elements -/
def lastK (k : Nat) (l : List α) : List α := l.drop (l.length - k)

theorem lastK_of_length_le (k : Nat) (l : List α) (h : l.length ≤ k) : lastK k l = l := by
  unfold lastK
  have : l.length - k = 0 := by omega
  rw [this]; rfl

theorem lastK_lastK_append (k : Nat) (l r : List α) : lastK k (lastK k l ++ r) = lastK k (l ++ r) := by
  unfold lastK
  have h1 : (l ++ r).drop (l.length - k) = l.drop (l.length - k) ++ r :=
    List.drop_append_of_le_length (by omega)
  rw [← h1, List.drop_drop]
  congr 1
  simp only [List.length_drop, List.length_append]
  omega

/-- the accumulator of a one-element partition (`k ≥ 1`) -/
def singleAcc (next : σ → Nat × σ) (k : Nat) (s0 : σ) (x : α) : PRAcc σ α :=
  { k := k, rng := (next s0).2, seq := 1, heap := [((next s0).1, 0, 0)],
    store := [some ((next s0).1, 0, x)], alive := 1 }

theorem fold_single (next : σ → Nat × σ) (k : Nat) (s0 : σ) (x : α) (hk : 1 ≤ k) :
    (reservoir next k s0).foldAdd (reservoir next k s0).create [x] = singleAcc next k s0 x := by
  have hk0 : ¬ k = 0 := by omega
  have hgt : ¬ 1 > k := by omega
  simp [reservoir, Combiner.foldAdd, addInput, create, trim, trimLoop, singleAcc, hk0, hgt]

theorem tied_single (next : σ → Nat × σ) (k : Nat) (s0 : σ) (x : α) (hk : 1 ≤ k) :
    Tied (next s0).1 k [x] (singleAcc next k s0 x) := by
  refine ⟨⟨?_, ?_⟩, rfl, ?_, ?_, ?_, ?_⟩ <;> simp [singleAcc, liveIdx, hk]

/-- `acc` after the move loops of `merge(acc, singleAcc)`, before the trim loop -/
def pushSingle (a : PRAcc σ α) (k p : Nat) (x : α) : PRAcc σ α :=
  { a with k := max a.k k, store := a.store ++ [some (p, 0, x)],
           heap := (p, 0, a.store.length) :: a.heap, alive := a.alive + 1 }

theorem merge_single (next : σ → Nat × σ) (k : Nat) (s0 : σ) (x : α) (a : PRAcc σ α) (hk : a.k ≠ 0) :
    merge a (singleAcc next k s0 x) = trim (pushSingle a k (next s0).1 x) := by
  simp [merge, singleAcc, pushSingle, moveLive, drainHeap, popMin, minOf, hk]

theorem tied_merge_single (next : σ → Nat × σ) (k : Nat) (s0 : σ) (x : α) (hk : 1 ≤ k)
    {vals : List α} {a : PRAcc σ α} (h : Tied (next s0).1 k vals a) :
    Tied (next s0).1 k (lastK k (vals ++ [x])) (merge a (singleAcc next k s0 x)) := by
  obtain ⟨wf, hak, hitems, hheap, hvals, hlen⟩ := h
  have hk0 : a.k ≠ 0 := by omega
  rw [merge_single next k s0 x a hk0]
  have hal : a.alive = vals.length := by rw [wf.alive_eq, ← hvals, List.length_map]
  -- the state before the trim loop
  have wfb : WF (pushSingle a k (next s0).1 x) := by
    constructor
    · simp only [pushSingle, List.map_cons, liveIdx_append, liveIdx, List.map_nil, Nat.zero_add]
      exact (List.Perm.cons _ wf.heap_perm).trans (List.perm_append_singleton _ _).symm
    · simp only [pushSingle, live_append, List.length_append, live_some_cons, live_nil, List.length_cons,
        List.length_nil, wf.alive_eq]
  have hheapb : ∀ e ∈ (pushSingle a k (next s0).1 x).heap, e.1 = (next s0).1 ∧ e.2.1 = 0 := by
    intro e he
    simp only [pushSingle, List.mem_cons] at he
    rcases he with rfl | he
    · exact ⟨rfl, rfl⟩
    · exact hheap e he
  have hitemsb : ∀ it ∈ live (pushSingle a k (next s0).1 x).store, it.1 = (next s0).1 ∧ it.2.1 = 0 := by
    intro it hit
    simp only [pushSingle, live_append, live_some_cons, live_nil, List.mem_append, List.mem_singleton] at hit
    rcases hit with hit | rfl
    · exact hitems it hit
    · exact ⟨rfl, rfl⟩
  have hvalsb : (live (pushSingle a k (next s0).1 x).store).map (fun it => it.2.2) = vals ++ [x] := by
    simp [pushSingle, live_append, hvals]
  have hkb : (pushSingle a k (next s0).1 x).k = k := by simp only [pushSingle]; omega
  have halb : (pushSingle a k (next s0).1 x).alive = a.alive + 1 := rfl
  obtain ⟨wt, hkt, _, _⟩ := trim_spec _ wfb
  by_cases hfit : a.alive + 1 ≤ k
  · -- nothing to trim
    have hno : trim (pushSingle a k (next s0).1 x) = pushSingle a k (next s0).1 x :=
      trimLoop_noop _ _ (by rw [hkb, halb]; omega)
    rw [hno]
    rw [lastK_of_length_le k _ (by simp only [List.length_append, List.length_cons, List.length_nil]; omega)]
    exact ⟨wfb, hkb, hitemsb, hheapb, hvalsb, by
      simp only [List.length_append, List.length_cons, List.length_nil]; omega⟩
  · -- exactly one too many: the first live slot goes
    obtain ⟨hlive, hsub⟩ := trim_one_tied (next s0).1 0 _ wfb hheapb (by rw [hkb, halb]; omega)
    refine ⟨wt, hkt.trans hkb, ?_, ?_, ?_, ?_⟩
    · intro it hit
      rw [hlive] at hit
      exact hitemsb it (List.mem_of_mem_tail hit)
    · intro e he
      exact hheapb e (hsub e he)
    · rw [hlive, List.map_tail, hvalsb]
      unfold lastK
      have : (vals ++ [x]).length - k = 1 := by
        simp only [List.length_append, List.length_cons, List.length_nil]; omega
      rw [this, List.drop_one]
    · unfold lastK
      simp only [List.length_drop, List.length_append, List.length_cons, List.length_nil]
      omega

theorem tied_mergeAll_singletons (next : σ → Nat × σ) (k : Nat) (s0 : σ) (hk : 1 ≤ k) :
    ∀ (rest vals : List α) (a : PRAcc σ α), Tied (next s0).1 k vals a →
      Tied (next s0).1 k (lastK k (vals ++ rest))
        ((rest.map (fun x => singleAcc next k s0 x)).foldl merge a)
  | [], vals, a, h => by
    simpa [lastK_of_length_le k vals h.len] using h
  | x :: rest, vals, a, h => by
    have h1 := tied_merge_single next k s0 x hk h
    have h2 := tied_mergeAll_singletons next k s0 hk rest _ _ h1
    rw [lastK_lastK_append] at h2
    simpa using h2

theorem finish_tied {p k : Nat} {vals : List α} {a : PRAcc σ α} (h : Tied p k vals a) :
    finish a = vals := by
  obtain ⟨wf, hak, hitems, _, hvals, hlen⟩ := h
  unfold finish
  by_cases h0 : (a.k == 0 || a.alive == 0) = true
  · simp only [h0, ↓reduceIte]
    have hl : vals.length = 0 := by
      simp only [Bool.or_eq_true, beq_iff_eq] at h0
      rcases h0 with h0 | h0
      · omega
      · rw [← hvals, List.length_map, ← wf.alive_eq]; exact h0
    exact (List.length_eq_zero_iff.mp hl).symm
  · simp only [h0, Bool.false_eq_true, ↓reduceIte]
    rw [sortItems_tied p 0 _ hitems, List.take_of_length_le (by
      have : (live a.store).length = vals.length := by rw [← hvals, List.length_map]
      omega), hvals]

/-! ## partitions of at most one element (singleton partitions thinned out by an upstream `filter`) -/

theorem tied_create (p k : Nat) (s0 : σ) : Tied p k ([] : List α) (create k s0 : PRAcc σ α) := by
  refine ⟨wf_create k s0, rfl, ?_, ?_, ?_, ?_⟩ <;> simp [create, live]

/-- merging the accumulator of an EMPTY partition changes nothing (no live item moves, nothing to trim) -/
theorem merge_create_right (k : Nat) (s0 : σ) (a : PRAcc σ α) (hk : a.k = k) (hk0 : k ≠ 0)
    (hal : a.alive ≤ k) : merge a (create k s0) = a := by
  have hk0' : ¬ a.k = 0 := by omega
  have hno : ¬ a.alive > max a.k k := by omega
  simp only [merge, create, moveLive, drainHeap, List.length_nil, beq_iff_eq, hk0', ↓reduceIte, trim]
  rw [trimLoop_noop _ _ (by simpa using hno)]
  cases a
  simp only [PRAcc.mk.injEq, and_true] at hk ⊢
  omega

theorem tied_alive_le {p k : Nat} {vals : List α} {a : PRAcc σ α} (h : Tied p k vals a) : a.alive ≤ k := by
  have := h.len
  rw [← h.vals_eq, List.length_map] at this
  rw [h.wf.alive_eq]; exact this

/-- every partition holds at most one element: the merged accumulator keeps the last `k` values seen -/
theorem tied_foldl_small (next : σ → Nat × σ) (k : Nat) (s0 : σ) (hk : 1 ≤ k) :
    ∀ (ps : List (List α)) (vals : List α) (a : PRAcc σ α), (∀ q ∈ ps, q.length ≤ 1) →
      Tied (next s0).1 k vals a →
      Tied (next s0).1 k (lastK k (vals ++ ps.flatten))
        ((ps.map ((reservoir next k s0).foldAdd (reservoir next k s0).create)).foldl merge a)
  | [], vals, a, _, h => by
    simpa [lastK_of_length_le k vals h.len] using h
  | q :: ps, vals, a, hq, h => by
    have hps : ∀ q' ∈ ps, q'.length ≤ 1 := fun q' hq' => hq q' (List.mem_cons_of_mem _ hq')
    have hq1 := hq q List.mem_cons_self
    match q, hq1 with
    | [], _ =>
      have hm : merge a (reservoir next k s0).create = a :=
        merge_create_right k s0 a h.k_eq (by omega) (tied_alive_le h)
      have := tied_foldl_small next k s0 hk ps vals a hps h
      simpa [hm] using this
    | [x], _ =>
      have h1 := tied_merge_single next k s0 x hk h
      have h2 := tied_foldl_small next k s0 hk ps _ _ hps h1
      rw [lastK_lastK_append] at h2
      simpa [fold_single next k s0 x hk] using h2

end IB.Sampling
