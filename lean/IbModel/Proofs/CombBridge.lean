import IbModel.Model.Program
import IbModel.Proofs.ValOrder
import IbModel.Proofs.CombTransfer
import IbModel.Proofs.CombinersBasic
import IbModel.Proofs.CombinersDistinct
import IbModel.Proofs.CombinersOrd
/-!
# The pipeline model's built-in combiners ARE (encodings of) C06's typed combiners

`Model/Program.lean` (`Comb.toCombiner`) carries a second, hand-written, `Val`-level model of `Count`, `Sum`,
`Min`, `Max` and `DistinctSet` (its `TopK` already is C06's model behind an encoding, `Proofs/CombTransfer.lean`).
This file ties the two: `SimEq vc t decV encA encO` says that on encoded accumulators the `Val`-level combiner
`vc` computes what the typed combiner `t` computes. Then every merge tree of `vc` evaluates to the encoding of
the same tree of `t`, and `LawfulCombiner t Eq` (C06) gives `LawfulCombiner vc Eq` (what C05 / C01 consume).
`Program.lean` is imported read-only.
-/
namespace IB
open IB.Combiners

/-- on encoded accumulators, `vc` does what `t` does -/
structure SimEq {V A O : Type} (vc : VCombiner) (t : Combiner V A O) (decV : Val → V) (encA : A → Val)
    (encO : O → Val) : Prop where
  create : vc.create = encA t.create
  add : ∀ a v, vc.add (encA a) v = encA (t.add a (decV v))
  merge : ∀ a b, vc.merge (encA a) (encA b) = encA (t.merge a b)
  finish : ∀ a, vc.finish (encA a) = encO (t.finish a)
  build : ∀ xs, vc.build xs = encA (t.build (xs.map decV))

theorem sim_foldl {V A : Type} {vadd : Val → Val → Val} {tadd : A → V → A} {decV : Val → V} {encA : A → Val}
    (hadd : ∀ a v, vadd (encA a) v = encA (tadd a (decV v))) (xs : List Val) : ∀ a : A,
    xs.foldl vadd (encA a) = encA ((xs.map decV).foldl tadd a) := by
  induction xs with
  | nil => intro a; rfl
  | cons x xs ih => intro a; simp only [List.foldl_cons, List.map_cons]; rw [hadd, ih]

namespace SimEq
variable {V A O : Type} {vc : VCombiner} {t : Combiner V A O} {decV : Val → V} {encA : A → Val} {encO : O → Val}

theorem foldAdd (h : SimEq vc t decV encA encO) (xs : List Val) (a : A) :
    vc.foldAdd (encA a) xs = encA (t.foldAdd a (xs.map decV)) := sim_foldl h.add xs a

theorem foldAdd_create (h : SimEq vc t decV encA encO) (xs : List Val) :
    vc.foldAdd vc.create xs = encA (t.foldAdd t.create (xs.map decV)) := by
  rw [h.create]; exact h.foldAdd xs t.create

/-- every merge tree of the `Val`-level combiner evaluates to the encoding of the same tree of the typed one -/
theorem eval (h : SimEq vc t decV encA encO) (tr : MergeTree Val) :
    tr.eval vc = encA ((tr.map decV).eval t) := by
  induction tr with
  | leaf xs => exact h.foldAdd_create xs
  | built xs => exact h.build xs
  | node l r ihl ihr =>
    show vc.merge (l.eval vc) (r.eval vc) = encA (t.merge _ _)
    rw [ihl, ihr, h.merge]
  | more tr xs ih =>
    show vc.foldAdd (tr.eval vc) xs = encA (t.foldAdd _ (xs.map decV))
    rw [ih, h.foldAdd]

theorem finish_eval (h : SimEq vc t decV encA encO) (tr : MergeTree Val) :
    vc.finish (tr.eval vc) = encO (t.finish ((tr.map decV).eval t)) := by
  rw [h.eval, h.finish]

/-- **transfer**: the typed combiner's laws (C06) are the `Val`-level combiner's laws (C05 / C01) -/
theorem lawful (h : SimEq vc t decV encA encO) (ht : LawfulCombiner t Eq) : LawfulCombiner vc Eq where
  refl _ := rfl
  symm e := e.symm
  trans e1 e2 := e1.trans e2
  merge_congr e1 e2 := by rw [e1, e2]
  finish_congr e := by rw [e]
  merge_fold := by
    intro xs ys
    rw [h.foldAdd_create, h.foldAdd_create, h.foldAdd_create, h.merge, List.map_append, ht.merge_fold]
  build_fold := by
    intro xs
    rw [h.foldAdd_create, h.build, ht.build_fold]

end SimEq

/-! ## `Val.lt` is the strict part of the total order `Val.le` -/

theorem Val.lt_eq_not_le (a b : Val) : Val.lt a b = !Val.le b a := by
  unfold Val.lt
  by_cases hab : a = b
  · subst hab; simp [Val.le_refl]
  · have hne : (a == b) = false := by simpa using hab
    rw [hne]
    cases h1 : Val.le a b <;> cases h2 : Val.le b a <;> simp
    · rcases Val.le_total a b with h | h
      · rw [h1] at h; exact absurd h (by simp)
      · rw [h2] at h; exact absurd h (by simp)
    · exact hab (Val.le_antisymm h1 h2)

theorem Val.lt_strictWeak : StrictWeakB Val.lt where
  irrefl a := by rw [Val.lt_eq_not_le, Val.le_refl]; rfl
  trans a b c h1 h2 := by
    rw [Val.lt_eq_not_le] at *
    simp only [Bool.not_eq_true'] at *
    -- ¬ b ≤ a, ¬ c ≤ b ⇒ ¬ c ≤ a
    cases h3 : Val.le c a with
    | false => rfl
    | true =>
      have hab : Val.le a b = true := by
        rcases Val.le_total a b with h | h
        · exact h
        · rw [h1] at h; exact absurd h (by simp)
      have := Val.le_trans h3 hab
      rw [h2] at this; exact absurd this (by simp)
  neg_trans a b c h1 h2 := by
    rw [Val.lt_eq_not_le] at *
    simp only [Bool.not_eq_false'] at *
    exact Val.le_trans h2 h1

theorem Val.lt_anti : ∀ a b : Val, Equiv Val.lt a b → a = b := by
  intro a b e
  have e1 := e.1; have e2 := e.2
  rw [Val.lt_eq_not_le] at e1 e2
  simp only [Bool.not_eq_false'] at e1 e2
  exact Val.le_antisymm e2 e1

/-! ## the simulations -/

def encOptAcc : Option Val → Val
  | some v => .some v
  | none => .none
/-- `Min::finish` / `Max::finish`: `expect` on an empty accumulator panics (`err`) -/
def encOptPanic : Option Val → Val
  | some v => v
  | none => .err
/-- the harness's total variants answer `none` -/
def encOptTotal : Option Val → Val
  | some v => v
  | none => .none

theorem sim_count : SimEq Comb.count.toCombiner (count Val) id (fun n => .int n) (fun n => .int n) where
  create := rfl
  add a v := by
    show Val.int ((Val.int (a : Int)).toInt + 1) = Val.int ((a + 1 : Nat) : Int)
    simp [Val.toInt]
  merge a b := by
    show Val.int ((Val.int (a : Int)).toInt + (Val.int (b : Int)).toInt) = Val.int ((a + b : Nat) : Int)
    simp [Val.toInt]
  finish _ := rfl
  build xs := by
    show Val.int xs.length = Val.int ((xs.map id).length : Nat)
    simp

theorem sim_sum : SimEq Comb.sum.toCombiner Combiners.sum Val.toInt (fun i => .int i) (fun i => .int i) where
  create := rfl
  add _ _ := rfl
  merge _ _ := rfl
  finish _ := rfl
  build xs := by
    show xs.foldl (fun a v => Val.int (a.toInt + v.toInt)) (.int 0) = Val.int ((xs.map Val.toInt).foldl (fun a v => a + v) 0)
    exact sim_foldl (vadd := fun a v => Val.int (a.toInt + v.toInt)) (tadd := fun (a : Int) (v : Int) => a + v)
      (decV := Val.toInt) (encA := fun i => Val.int i) (fun _ _ => rfl) xs 0

theorem minAdd_sim (a : Option Val) (v : Val) : minAdd (encOptAcc a) v = encOptAcc ((minBy Val.lt).add a v) := by
  cases a <;> simp only [minAdd, encOptAcc, minBy] <;> split <;> rfl
theorem maxAdd_sim (a : Option Val) (v : Val) : maxAdd (encOptAcc a) v = encOptAcc ((maxBy Val.lt).add a v) := by
  cases a <;> simp only [maxAdd, encOptAcc, maxBy] <;> split <;> rfl

theorem minMerge_sim (a b : Option Val) :
    (match encOptAcc b with | .some v => minAdd (encOptAcc a) v | _ => encOptAcc a) = encOptAcc ((minBy Val.lt).merge a b) := by
  cases b with
  | none => rfl
  | some v => cases a <;> simp only [minAdd, encOptAcc, minBy] <;> split <;> rfl
theorem maxMerge_sim (a b : Option Val) :
    (match encOptAcc b with | .some v => maxAdd (encOptAcc a) v | _ => encOptAcc a) = encOptAcc ((maxBy Val.lt).merge a b) := by
  cases b with
  | none => rfl
  | some v => cases a <;> simp only [maxAdd, encOptAcc, maxBy] <;> split <;> rfl

theorem minBuild_sim (xs : List Val) : xs.foldl minAdd .none = encOptAcc ((minBy Val.lt).build (xs.map id)) := by
  rw [minBy_build_eq_fold]
  exact sim_foldl (encA := encOptAcc) (decV := id) minAdd_sim xs none
/-- the reviewer's divergence (`iter().max()` returns the LAST of equal maxima, the pipeline model's `Max` folds
    `add_input`, which keeps the first): on `Val` "equal" means identical, so the two agree -/
theorem maxBuild_sim (xs : List Val) : xs.foldl maxAdd .none = encOptAcc ((maxBy Val.lt).build (xs.map id)) := by
  rw [maxBy_build_eq_fold Val.lt_strictWeak Val.lt_anti]
  exact sim_foldl (encA := encOptAcc) (decV := id) maxAdd_sim xs none

theorem sim_min : SimEq Comb.min.toCombiner (minBy Val.lt) id encOptAcc encOptPanic where
  create := rfl
  add := minAdd_sim
  merge := minMerge_sim
  finish a := by cases a <;> rfl
  build := minBuild_sim

theorem sim_max : SimEq Comb.max.toCombiner (maxBy Val.lt) id encOptAcc encOptPanic where
  create := rfl
  add := maxAdd_sim
  merge := maxMerge_sim
  finish a := by cases a <;> rfl
  build := maxBuild_sim

theorem sim_minT : SimEq Comb.minT.toCombiner (minBy Val.lt) id encOptAcc encOptTotal where
  create := rfl
  add := minAdd_sim
  merge := minMerge_sim
  finish a := by cases a <;> rfl
  build := minBuild_sim

theorem sim_maxT : SimEq Comb.maxT.toCombiner (maxBy Val.lt) id encOptAcc encOptTotal where
  create := rfl
  add := maxAdd_sim
  merge := maxMerge_sim
  finish a := by cases a <;> rfl
  build := maxBuild_sim

/-! ## `DistinctSet`: the two models of the `HashSet` agree up to order

`Program.lean` keeps first-occurrence order (and is lawful on the nose, C05); `Model/Combiners.lean` keeps the newest
element first and is compared up to permutation. A `HashSet` has no order: both are faithful. -/

/-- the `Val`-level accumulator is (the encoding of) a list that is a permutation of the typed accumulator -/
def DistinctRel (a : Val) (s : List Val) : Prop := ∃ l, a = Val.ofList l ∧ l.Perm s

theorem progSetInsert_perm {l s : List Val} (p : l.Perm s) (v : Val) :
    (IB.setInsert l v).Perm (Combiners.setInsert s v) := by
  unfold IB.setInsert Combiners.setInsert
  by_cases hv : v ∈ l
  · have hc : l.contains v = true := by simpa using hv
    rw [if_pos hc, if_pos (p.mem_iff.mp hv)]; exact p
  · have hc : ¬ l.contains v = true := by simpa using hv
    rw [if_neg hc, if_neg (fun h => hv (p.mem_iff.mpr h))]
    exact (List.perm_append_singleton v l).trans (p.cons v)

theorem progSetFold_perm (xs : List Val) : ∀ {l s : List Val}, l.Perm s →
    (xs.foldl IB.setInsert l).Perm (xs.foldl Combiners.setInsert s) := by
  induction xs with
  | nil => intro l s p; exact p
  | cons x xs ih => intro l s p; exact ih (progSetInsert_perm p x)

theorem distinct_rel_create : DistinctRel Comb.distinctSet.toCombiner.create (distinctCount Val).create :=
  ⟨[], rfl, List.Perm.refl _⟩

theorem distinct_rel_add {a : Val} {s : List Val} (h : DistinctRel a s) (v : Val) :
    DistinctRel (Comb.distinctSet.toCombiner.add a v) ((distinctCount Val).add s v) := by
  obtain ⟨l, rfl, p⟩ := h
  refine ⟨IB.setInsert l v, ?_, progSetInsert_perm p v⟩
  show Val.ofList (IB.setInsert (Val.ofList l).toList v) = _
  rw [Val.toList_ofList]

theorem distinct_rel_merge {a b : Val} {s u : List Val} (ha : DistinctRel a s) (hb : DistinctRel b u) :
    DistinctRel (Comb.distinctSet.toCombiner.merge a b) ((distinctCount Val).merge s u) := by
  obtain ⟨l, rfl, p⟩ := ha
  obtain ⟨m, rfl, q⟩ := hb
  show DistinctRel (if (Val.ofList l).toList.isEmpty then Val.ofList m
    else Val.ofList ((Val.ofList m).toList.foldl IB.setInsert (Val.ofList l).toList)) (setMerge s u)
  rw [Val.toList_ofList, Val.toList_ofList]
  have hemp : l.isEmpty = s.isEmpty := by
    cases l <;> cases s <;> first | rfl | (have := p.length_eq; simp at this)
  unfold setMerge
  rw [← hemp]
  cases hl : l.isEmpty
  · refine ⟨_, rfl, ?_⟩
    simp only [Bool.false_eq_true, if_false]
    refine (progSetFold_perm m p).trans ?_
    have := setMerge_perm (List.Perm.refl s) q
    have hs : s.isEmpty = false := by rw [← hemp]; exact hl
    simpa [setMerge, hs, setExtend] using this
  · exact ⟨m, by simp, by simpa using q⟩

theorem distinct_rel_build (xs : List Val) :
    DistinctRel (Comb.distinctSet.toCombiner.build xs) ((distinctCount Val).build xs) :=
  ⟨xs.foldl IB.setInsert [], rfl, progSetFold_perm xs (List.Perm.refl [])⟩

theorem distinct_rel_fold (xs : List Val) : ∀ {a : Val} {s : List Val}, DistinctRel a s →
    DistinctRel (Comb.distinctSet.toCombiner.foldAdd a xs) ((distinctCount Val).foldAdd s xs) := by
  induction xs with
  | nil => intro a s h; exact h
  | cons x xs ih => intro a s h; exact ih (distinct_rel_add h x)

/-- every merge tree: the pipeline model's `HashSet` holds the same elements as C06's -/
theorem distinct_rel_eval (tr : MergeTree Val) :
    DistinctRel (tr.eval Comb.distinctSet.toCombiner) (tr.eval (distinctCount Val)) := by
  induction tr with
  | leaf xs => exact distinct_rel_fold xs distinct_rel_create
  | built xs => exact distinct_rel_build xs
  | node l r ihl ihr => exact distinct_rel_merge ihl ihr
  | more tr xs ih => exact distinct_rel_fold xs ih

end IB
