/-!
# Wire helpers for the line protocol (driver side)

Tokens are separated by single spaces. Integers are decimal with optional leading `-`.
Byte strings travel as lower-case hex. Nothing here is the subject of a theorem; it is the
(trusted, small) glue between request lines and the model's executable definitions.
-/
namespace IB.Wire

def tokens (line : String) : List String :=
  (line.trimAscii.toString.splitOn " ").filter (· ≠ "")

def parseNat? (s : String) : Option Nat := s.toNat?

def parseInt? (s : String) : Option Int :=
  if s.startsWith "-" then (s.drop 1).toString.toNat?.map (fun n => - (Int.ofNat n))
  else s.toNat?.map Int.ofNat

def hexDigit? (c : Char) : Option Nat :=
  if '0' ≤ c ∧ c ≤ '9' then some (c.toNat - '0'.toNat)
  else if 'a' ≤ c ∧ c ≤ 'f' then some (c.toNat - 'a'.toNat + 10)
  else none

def hexToBytes? : List Char → Option (List Nat)
  | [] => some []
  | [_] => none
  | a :: b :: rest => do
      let x ← hexDigit? a
      let y ← hexDigit? b
      let r ← hexToBytes? rest
      pure ((x * 16 + y) :: r)

def nibble (n : Nat) : Char :=
  if n < 10 then Char.ofNat ('0'.toNat + n) else Char.ofNat ('a'.toNat + (n - 10))

def bytesToHex (bs : List Nat) : String :=
  String.ofList (bs.flatMap (fun b => [nibble (b / 16 % 16), nibble (b % 16)]))

/-- ASCII-only strings travel as hex of their bytes (the harness only generates ASCII in
    positions that are compared structurally; UTF-8 payloads travel as opaque bytes). -/
def hexToString? (h : String) : Option String :=
  (hexToBytes? h.toList).map (fun bs => String.ofList (bs.map Char.ofNat))

def stringToHex (s : String) : String :=
  bytesToHex (s.toUTF8.toList.map (·.toNat))

/-- `key=value` lookup in a token list -/
def kv? (key : String) : List String → Option String
  | [] => none
  | t :: ts => if t.startsWith (key ++ "=") then some ((t.drop (key.length + 1)).toString) else kv? key ts

def boolStr (b : Bool) : String := if b then "T" else "F"

end IB.Wire
