/-!
# SHA-256 (FIPS 180-4), executable, for the driver only

The checkpoint model takes the hash as a parameter `H`; no theorem mentions this file. The driver
instantiates `H` with `sha256Hex` so that `CKPT-DEC` answers can be compared with the real
`load_checkpoint` (which uses the `sha2` crate). Its agreement with `sha2` is validated by the
correspondence run itself: every accepted checkpoint requires equal digests on both sides.
-/
namespace IB.Sha256

def K : Array UInt32 := #[
  0x428a2f98, 0x71374491, 0xb5c0fbcf, 0xe9b5dba5, 0x3956c25b, 0x59f111f1, 0x923f82a4, 0xab1c5ed5,
  0xd807aa98, 0x12835b01, 0x243185be, 0x550c7dc3, 0x72be5d74, 0x80deb1fe, 0x9bdc06a7, 0xc19bf174,
  0xe49b69c1, 0xefbe4786, 0x0fc19dc6, 0x240ca1cc, 0x2de92c6f, 0x4a7484aa, 0x5cb0a9dc, 0x76f988da,
  0x983e5152, 0xa831c66d, 0xb00327c8, 0xbf597fc7, 0xc6e00bf3, 0xd5a79147, 0x06ca6351, 0x14292967,
  0x27b70a85, 0x2e1b2138, 0x4d2c6dfc, 0x53380d13, 0x650a7354, 0x766a0abb, 0x81c2c92e, 0x92722c85,
  0xa2bfe8a1, 0xa81a664b, 0xc24b8b70, 0xc76c51a3, 0xd192e819, 0xd6990624, 0xf40e3585, 0x106aa070,
  0x19a4c116, 0x1e376c08, 0x2748774c, 0x34b0bcb5, 0x391c0cb3, 0x4ed8aa4a, 0x5b9cca4f, 0x682e6ff3,
  0x748f82ee, 0x78a5636f, 0x84c87814, 0x8cc70208, 0x90befffa, 0xa4506ceb, 0xbef9a3f7, 0xc67178f2]

def H0 : Array UInt32 := #[
  0x6a09e667, 0xbb67ae85, 0x3c6ef372, 0xa54ff53a, 0x510e527f, 0x9b05688c, 0x1f83d9ab, 0x5be0cd19]

@[inline] def rotr (x : UInt32) (n : UInt32) : UInt32 := (x >>> n) ||| (x <<< (32 - n))

def pad (msg : List UInt8) : List UInt8 :=
  let l := msg.length
  let zeros := (55 + 64 - l % 64) % 64
  let bits := l * 8
  msg ++ [0x80] ++ List.replicate zeros 0 ++
    (List.range 8).map (fun i => UInt8.ofNat (bits / 256 ^ (7 - i) % 256))

def word (b0 b1 b2 b3 : UInt8) : UInt32 :=
  (b0.toUInt32 <<< 24) ||| (b1.toUInt32 <<< 16) ||| (b2.toUInt32 <<< 8) ||| b3.toUInt32

def blockWords : List UInt8 → Array UInt32 → Array UInt32
  | b0 :: b1 :: b2 :: b3 :: r, acc => blockWords r (acc.push (word b0 b1 b2 b3))
  | _, acc => acc

def schedule (w : Array UInt32) : Array UInt32 := Id.run do
  let mut w := w
  for i in [16:64] do
    let w15 := w[i - 15]!
    let w2 := w[i - 2]!
    let s0 := rotr w15 7 ^^^ rotr w15 18 ^^^ (w15 >>> 3)
    let s1 := rotr w2 17 ^^^ rotr w2 19 ^^^ (w2 >>> 10)
    w := w.push (w[i - 16]! + s0 + w[i - 7]! + s1)
  return w

def compress (h : Array UInt32) (block : List UInt8) : Array UInt32 := Id.run do
  let w := schedule (blockWords block #[])
  let mut a := h[0]!
  let mut b := h[1]!
  let mut c := h[2]!
  let mut d := h[3]!
  let mut e := h[4]!
  let mut f := h[5]!
  let mut g := h[6]!
  let mut hh := h[7]!
  for i in [0:64] do
    let s1 := rotr e 6 ^^^ rotr e 11 ^^^ rotr e 25
    let ch := (e &&& f) ^^^ ((~~~ e) &&& g)
    let t1 := hh + s1 + ch + K[i]! + w[i]!
    let s0 := rotr a 2 ^^^ rotr a 13 ^^^ rotr a 22
    let maj := (a &&& b) ^^^ (a &&& c) ^^^ (b &&& c)
    let t2 := s0 + maj
    hh := g; g := f; f := e; e := d + t1; d := c; c := b; b := a; a := t1 + t2
  return #[h[0]! + a, h[1]! + b, h[2]! + c, h[3]! + d, h[4]! + e, h[5]! + f, h[6]! + g, h[7]! + hh]

def blocks : Nat → Array UInt32 → List UInt8 → Array UInt32
  | 0, h, _ => h
  | fuel + 1, h, bytes =>
    if bytes.isEmpty then h else blocks fuel (compress h (bytes.take 64)) (bytes.drop 64)

def hexNibble (n : UInt8) : UInt8 := if n < 10 then 48 + n else 87 + n

/-- lower-case hex of the SHA-256 digest, as bytes (what `format!("{:x}", hasher.finalize())` yields) -/
def sha256Hex (msg : List UInt8) : List UInt8 :=
  let p := pad msg
  let h := blocks (p.length / 64 + 1) H0 p
  h.toList.flatMap fun w =>
    ([24, 16, 8, 0] : List UInt32).flatMap fun (s : UInt32) =>
      let b := ((w >>> s) &&& 0xff).toUInt8
      [hexNibble (b >>> 4), hexNibble (b &&& 0x0f)]

end IB.Sha256
