#!/usr/bin/env python3
"""Regenerates MANIFEST.json from bin/manifest_data.json (claimed checks + not-applicable list)."""
import json, os
V = os.path.dirname(os.path.dirname(os.path.abspath(__file__)))
data = json.load(open(os.path.join(V, "bin", "manifest_data.json")))
props = [json.loads(l) for l in open(os.path.join(V, "properties.jsonl"))]
checks, na = [], []
for p in props:
    pid = p["id"]
    d = data["claimed"].get(pid)
    if d is None:
        na.append({"property_id": pid, "reason": data["unclaimed"].get(pid, "check not built yet in this round (the Lean-proof technique applies; see DESIGN.md §7)")})
        continue
    checks.append({
        "property_id": pid,
        "quick_cmd": f"bin/ibcheck run {pid} --tier quick",
        "thorough_cmd": f"bin/ibcheck run {pid} --tier thorough",
        "evidence_file": f"/verif/evidence/{pid}.json",
        "replay_cmd_template": "bin/ibcheck replay {path}",
        "engine": "ibcheck",
        "level_claimed": {"category": "proof", "text": d["text"], "design_ref": d.get("design_ref", f"DESIGN.md §7 {pid}")},
        "level_note": d["note"],
        "technique": d.get("technique", "Lean 4 theorems about a hand-written executable model + differential correspondence check against the real code (ibh | ibdriver | diff)"),
    })
m = {
    "version": 1,
    "setup_cmd": "bin/ibcheck setup",
    "hooks": {
        "guard": "cargo feature verif-hooks",
        "enable": "harness/Cargo.toml: ironbeam = { path = \"/repo\", features = [\"verif-hooks\"] }",
        "baseline_off_cmd": "cd /repo && cargo nextest run --workspace --no-fail-fast --tool-config-file pb:/w/lib/nextest.toml --profile pb --test-threads 8 --offline || cargo test --workspace --no-fail-fast --offline",
        "source_commits": data["hook_commits"],
        "add_only": True,
    },
    "engines": [{"name": "ibcheck", "path": "bin/ibcheck", "serves_properties": [c["property_id"] for c in checks],
                 "kind_free_text": "Lean 4 model + theorems (lean/IbModel), Rust correspondence harness (harness/, links /repo with hooks), Python orchestrator"}],
    "checks": checks,
    "not_applicable": na,
    "notes": data.get("notes", ""),
}
json.dump(m, open(os.path.join(V, "MANIFEST.json"), "w"), indent=1)
print("claimed", [c["property_id"] for c in checks], "unclaimed", [n["property_id"] for n in na])
