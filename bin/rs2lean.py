#!/usr/bin/env python3
"""rs2lean — translate named arithmetic kernels of the Rust source text into Lean 4 definitions.

  bin/rs2lean.py --repo <path> --spec bin/kernels.json --out lean/IbModel/Generated/Kernels.lean
  bin/rs2lean.py --selftest

For every entry of the spec the translator finds a named function in a Rust file (brace matching on the
comment/attribute-stripped token stream), picks ONE expression of it (a `let` right-hand side, an `if`/`while`
condition, the tail expression, the whole straight-line body, a match arm, a call argument, an assignment,
a struct-literal field), parses it with a Pratt parser for a subset of Rust expressions and prints a Lean
definition `IB.Generated.K.<id>`. The hand-written tie theorems (lean/IbModel/Props/CxxK.lean) state that the
definition equals the expression the hand-written model uses; they are re-checked by the Lean kernel on every
run, against the definition regenerated from the CURRENT source text.

Anything outside the subset (or not found) is emitted as `def <id> : K.Untranslatable := ⟨"reason"⟩`, which
can never satisfy a tie theorem (it is not a function and not a Nat/Bool/Option): nothing is skipped or
defaulted silently.

Modes
  nat        unbounded Nat. `as usize/u64/u128` are the identity, `usize::try_from(e).expect/unwrap` and
             `u64::from(e)` too; narrowing casts are untranslatable. `usize::MAX`/`u64::MAX` = the literal
             2^64-1 (`K.usizeMax` / `K.u64Max`; the target is 64-bit), `u32::MAX` = 2^32-1. `a - b` is Lean's
             truncated subtraction and `/`, `%` are Lean's total operations: this mode does NOT model panics
             (overflow, underflow, division by zero); `debug_assert!` is ignored. `saturating_add/mul`
             saturate at 2^sat_bits-1 (entry field `sat_bits`, default 64), `saturating_sub` is truncated `-`.
  checked64  every + - * / % is checked u64 arithmetic in the Option monad (overflow, underflow, division by
             zero = none: what a build with overflow checks does); `debug_assert!(c)` = none when c is false.
  wrap64     every integer is a UInt64; + - * (and wrapping_add/sub/mul) wrap, >> << ^ & | are the UInt64
             operations (a release build).

The output does not depend on comments, attributes or white space of the Rust source. Line numbers therefore do
NOT go into Kernels.lean (a comment added above a function would otherwise rebuild every tie); they go into the
side file <out minus .lean>.sites.json, which Lean never reads.
"""
import sys, os, re, json, argparse


class XErr(Exception):
    """the entry cannot be translated (outside the subset, not found, ill-typed)"""


# ----------------------------------------------------------------------------------------------------
# 1. comment / attribute stripping (newlines preserved so that token line numbers stay true)
# ----------------------------------------------------------------------------------------------------

def _skip_string(src, i):
    """src[i] == '"' : return index after the closing quote"""
    n = len(src); i += 1
    while i < n:
        if src[i] == "\\": i += 2; continue
        if src[i] == '"': return i + 1
        i += 1
    return n


def _raw_string_at(src, i):
    """r"..." / r#"..."# / br#"..."# starting at i? return end index or None"""
    m = re.compile(r'b?r(#*)"').match(src, i)
    if not m: return None
    close = '"' + m.group(1)
    j = src.find(close, m.end())
    return len(src) if j < 0 else j + len(close)


_CHAR_RE = re.compile(r"'(\\x[0-9a-fA-F]{2}|\\u\{[0-9a-fA-F_]+\}|\\.|[^\\'\n])'")


def strip_rust(src):
    out, i, n = [], 0, len(src)

    def blank(a, b):
        out.append("".join(c if c == "\n" else " " for c in src[a:b]))

    while i < n:
        c = src[i]
        if src.startswith("//", i):
            j = src.find("\n", i); j = n if j < 0 else j
            blank(i, j); i = j; continue
        if src.startswith("/*", i):
            depth, j = 1, i + 2
            while j < n and depth:
                if src.startswith("/*", j): depth += 1; j += 2
                elif src.startswith("*/", j): depth -= 1; j += 2
                else: j += 1
            blank(i, j); i = j; continue
        if c == '"':
            j = _skip_string(src, i); out.append(src[i:j]); i = j; continue
        if c in "rb" and (i == 0 or not (src[i - 1].isalnum() or src[i - 1] == "_")):
            j = _raw_string_at(src, i)
            if j is not None:
                out.append(src[i:j]); i = j; continue
            if src.startswith('b"', i):
                j = _skip_string(src, i + 1); out.append(src[i:j]); i = j; continue
        if c == "'":
            m = _CHAR_RE.match(src, i)
            if m:
                out.append(m.group(0)); i = m.end(); continue
        if c == "#" and (src.startswith("#[", i) or src.startswith("#![", i)):
            j = src.index("[", i); depth = 0
            while j < n:
                if src[j] == '"': j = _skip_string(src, j); continue
                if src[j] == "[": depth += 1
                elif src[j] == "]":
                    depth -= 1
                    if depth == 0: j += 1; break
                j += 1
            blank(i, j); i = j; continue
        out.append(c); i += 1
    return "".join(out)


# ----------------------------------------------------------------------------------------------------
# 2. tokenizer
# ----------------------------------------------------------------------------------------------------

PUNCT = ["<<=", ">>=", "...", "..=", "::", "->", "=>", "==", "!=", "<=", ">=", "&&", "||", "<<", ">>",
         "+=", "-=", "*=", "/=", "%=", "^=", "|=", "&=", ".."]
_ID = re.compile(r"[A-Za-z_][A-Za-z0-9_]*")
_NUM = re.compile(r"0x[0-9a-fA-F_]+|0o[0-7_]+|0b[01_]+|[0-9][0-9_]*")
_SUFFIX = re.compile(r"(usize|isize|u8|u16|u32|u64|u128|i8|i16|i32|i64|i128|f32|f64)\b")


class Tok:
    __slots__ = ("k", "t", "line")

    def __init__(self, k, t, line): self.k, self.t, self.line = k, t, line

    def __repr__(self): return f"{self.k}:{self.t}"


def tokenize(src):
    toks, i, n, line = [], 0, len(src), 1
    while i < n:
        c = src[i]
        if c == "\n": line += 1; i += 1; continue
        if c.isspace(): i += 1; continue
        if c == '"':
            j = _skip_string(src, i); toks.append(Tok("str", src[i:j], line)); line += src[i:j].count("\n"); i = j; continue
        if c in "rb":
            j = _raw_string_at(src, i)
            if j is None and src.startswith('b"', i): j = _skip_string(src, i + 1)
            if j is None and src.startswith("b'", i):
                m = _CHAR_RE.match(src, i + 1)
                if m: j = m.end()
            if j is not None:
                toks.append(Tok("str", src[i:j], line)); line += src[i:j].count("\n"); i = j; continue
        if c == "'":
            m = _CHAR_RE.match(src, i)
            if m: toks.append(Tok("char", m.group(0), line)); i = m.end(); continue
            m = _ID.match(src, i + 1)
            if m: toks.append(Tok("life", src[i:m.end()], line)); i = m.end(); continue
        m = _ID.match(src, i)
        if m:
            toks.append(Tok("id", m.group(0), line)); i = m.end(); continue
        if c.isdigit():
            m = _NUM.match(src, i); j = m.end(); kind = "int"
            after_dot = bool(toks) and toks[-1].t == "." and toks[-1].k == "p"
            if not after_dot and not m.group(0).startswith(("0x", "0o", "0b")):
                if j + 1 < n and src[j] == "." and src[j + 1].isdigit():
                    m2 = re.compile(r"\.[0-9][0-9_]*").match(src, j); j = m2.end(); kind = "float"
                m3 = re.compile(r"[eE][+-]?[0-9_]+").match(src, j)
                if m3: j = m3.end(); kind = "float"
            text = src[i:j]
            ms = _SUFFIX.match(src, j) if not after_dot else None
            if ms is None and j < n and src[j] == "_" and not after_dot:
                ms = _SUFFIX.match(src, j + 1)
            if ms:
                j = ms.end(); text = src[i:j]
                if ms.group(1) in ("f32", "f64"): kind = "float"
            toks.append(Tok(kind, text, line)); i = j; continue
        for p in PUNCT:
            if src.startswith(p, i):
                toks.append(Tok("p", p, line)); i += len(p); break
        else:
            toks.append(Tok("p", c, line)); i += 1
    return toks


def int_value(text):
    t = text.replace("_", "")
    m = re.match(r"(0x[0-9a-fA-F]+|0o[0-7]+|0b[01]+|[0-9]+)(.*)$", t)
    return int(m.group(1), 0), m.group(2)


KEYWORDS = {"if", "while", "match", "in", "return", "as", "let", "else", "for", "loop", "mut", "move", "break", "continue"}


def pretty(toks):
    """white-space-normalised source text of a token run (for the comment above a definition)"""
    out = []
    for idx, t in enumerate(toks):
        if idx == 0: out.append(t.t); continue
        prev = toks[idx - 1]
        pprev = toks[idx - 2] if idx >= 2 else None
        sp = True
        prev_is_operand = (prev.k in ("id", "int", "float", "str", "char") and prev.t not in KEYWORDS) or (prev.k == "p" and prev.t in (")", "]"))
        if t.k == "p" and t.t in (",", ";", ")", ".", "?", "]", "::"): sp = False
        if t.k == "p" and t.t in ("(", "[") and (prev_is_operand or (prev.k == "p" and prev.t in ("!", ">"))): sp = False
        if t.k == "p" and t.t == "!" and prev.k == "id" and prev.t not in KEYWORDS and idx + 1 < len(toks) and toks[idx + 1].t in ("(", "[", "{"): sp = False
        if prev.k == "p" and prev.t in ("(", ".", "[", "::", "!"): sp = False
        if prev.k == "p" and prev.t in ("&", "-", "*") and not ((pprev is not None) and ((pprev.k in ("id", "int", "float") and pprev.t not in KEYWORDS) or pprev.t in (")", "]"))): sp = False
        out.append((" " if sp else "") + t.t)
    return "".join(out)


# ----------------------------------------------------------------------------------------------------
# 3. locating functions and the selected expression
# ----------------------------------------------------------------------------------------------------

OPEN = {"(": ")", "[": "]", "{": "}"}
CLOSE = {")", "]", "}"}


def match_close(toks, i):
    """toks[i] is an opening bracket: index of its partner"""
    depth = 0
    for j in range(i, len(toks)):
        t = toks[j]
        if t.k == "p":
            if t.t in OPEN: depth += 1
            elif t.t in CLOSE:
                depth -= 1
                if depth == 0: return j
    raise XErr("unbalanced brackets")


def nows(s): return re.sub(r"\s+", "", s)


def impl_spans(toks):
    spans = []
    for i, t in enumerate(toks):
        if t.k == "id" and t.t in ("impl", "trait") and (i == 0 or toks[i - 1].t not in (".", "::", "->", ":", "<", ",", "(", "&", "+", "=")):
            j = i
            while j < len(toks) and not (toks[j].k == "p" and toks[j].t in ("{", ";")): j += 1
            if j < len(toks) and toks[j].t == "{":
                spans.append(("".join(x.t for x in toks[i:j]), j, match_close(toks, j)))
    return spans


def find_functions(toks, name):
    """[(fn_token_index, body_open, body_close)] of every `fn name` that has a body"""
    res = []
    for i in range(len(toks) - 1):
        if toks[i].k == "id" and toks[i].t == "fn" and toks[i + 1].k == "id" and toks[i + 1].t == name:
            depth, j = 0, i + 2
            while j < len(toks):
                t = toks[j]
                if t.k == "p":
                    if t.t in ("(", "["): depth += 1
                    elif t.t in (")", "]"): depth -= 1
                    elif depth == 0 and t.t in ("{", ";"): break
                j += 1
            if j < len(toks) and toks[j].t == "{":
                res.append((i, j, match_close(toks, j)))
    return res


def locate_function(toks, entry):
    name = entry["function"]
    cands = find_functions(toks, name)
    if not cands:
        raise XErr(f"function `{name}` not found in {entry['file']}")
    hint = entry.get("impl_hint")
    if hint:
        spans = impl_spans(toks)
        keep = []
        for c in cands:
            inner = [s for s in spans if s[1] < c[0] < s[2]]
            if inner and nows(hint) in max(inner, key=lambda s: s[1])[0]:
                keep.append(c)
        cands = keep
        if not cands:
            raise XErr(f"function `{name}` not found inside an impl matching `{hint}`")
    if "fn_occurrence" in entry:
        k = entry["fn_occurrence"]
        if k >= len(cands): raise XErr(f"function `{name}`: occurrence {k} not found")
        return cands[k]
    if len(cands) > 1:
        raise XErr(f"function `{name}` is ambiguous ({len(cands)} definitions); add impl_hint / fn_occurrence")
    return cands[0]


def own_indices(toks, lo, hi):
    """token indices lo..hi (exclusive) of a function body, minus the bodies of nested `fn` items"""
    idx, i = [], lo
    while i < hi:
        if toks[i].k == "id" and toks[i].t == "fn" and i + 1 < hi and toks[i + 1].k == "id":
            j = i + 2
            while j < hi and not (toks[j].k == "p" and toks[j].t in ("{", ";")): j += 1
            if j < hi and toks[j].t == "{":
                i = match_close(toks, j) + 1; continue
        idx.append(i); i += 1
    return idx


# ----------------------------------------------------------------------------------------------------
# 4. Pratt parser for the expression subset
#    AST nodes are tuples: ('int', v, suffix) ('float', text) ('bool', b) ('var', name) ('path', 'a::b')
#    ('un', op, e) ('bin', op, l, r) ('cast', e, ty) ('field', e, name) ('mcall', recv, name, args)
#    ('call', path, args) ('if', cond, then, else|None) ('block', stmts, tail|None) ('closure', params, body)
#    ('struct', name, [(field, e)]) ('tuple', [e]) ('match', scrut, [(pat, guard, e)]) ('letcond', pat, e)
#    ('macro', name, [args]) ('index', e, i) ('try', e) ('range', lo, hi, op) ('opaque', why) ('str', text)
#    statements: ('let', name|None, pattext, e|None) ('assign', lhs, op, rhs) ('expr', e) ('item', kw)
# ----------------------------------------------------------------------------------------------------

BINPREC = {"*": 11, "/": 11, "%": 11, "+": 10, "-": 10, "<<": 9, ">>": 9, "&": 8, "^": 7, "|": 6,
           "==": 5, "!=": 5, "<": 5, ">": 5, "<=": 5, ">=": 5, "&&": 4, "||": 3, "..": 2, "..=": 2}
ASSIGN_OPS = {"=", "+=", "-=", "*=", "/=", "%=", "^=", "|=", "&=", "<<=", ">>="}
AS_PREC, UNARY_PREC = 12, 13
ITEM_KW = {"fn", "const", "static", "use", "struct", "enum", "impl", "type", "mod", "trait", "extern", "pub"}


class Parser:
    def __init__(self, toks, pos=0, end=None):
        self.t, self.i, self.end = toks, pos, len(toks) if end is None else end

    # -- token helpers
    def peek(self, k=0):
        j = self.i + k
        return self.t[j] if j < self.end else Tok("eof", "<eof>", -1)

    def at(self, text, k=0):
        t = self.peek(k)
        return t.t == text and t.k in ("p", "id")

    def eat(self, text):
        if not self.at(text):
            raise XErr(f"parse: expected `{text}`, found `{self.peek().t}`")
        self.i += 1

    def skip_balanced(self):
        """current token opens a bracket: move past its partner, return the tokens strictly inside"""
        j = match_close(self.t, self.i)
        inner = self.t[self.i + 1:j]
        self.i = j + 1
        return inner

    def skip_angles(self):
        """current token is `<`: skip generic arguments"""
        depth = 0
        while self.i < self.end:
            t = self.peek()
            if t.k == "p":
                if t.t == "<": depth += 1
                elif t.t == "<<": depth += 2
                elif t.t == ">": depth -= 1
                elif t.t == ">>": depth -= 2
                elif t.t in ("(", "[", "{"):
                    self.skip_balanced(); continue
            self.i += 1
            if depth <= 0: return
        raise XErr("parse: unbalanced `<`")

    # -- types (after `as`, in let annotations)
    def parse_type(self):
        start = self.i
        while self.at("&") or self.at("*") or self.at("mut") or self.at("const") or self.at("dyn") or self.peek().k == "life":
            self.i += 1
        if self.at("("): self.skip_balanced()
        elif self.at("["): self.skip_balanced()
        else:
            if self.peek().k != "id": raise XErr(f"parse: type expected, found `{self.peek().t}`")
            self.i += 1
            while True:
                if self.at("::"):
                    self.i += 1
                    if self.at("<"): self.skip_angles()
                    else: self.i += 1
                elif self.at("<"): self.skip_angles()
                else: break
        return "".join(x.t for x in self.t[start:self.i])

    # -- expressions
    def parse_expr(self, minp=0, nostruct=False):
        lhs = self.parse_unary(nostruct)
        while True:
            t = self.peek()
            if t.k == "id" and t.t == "as" and AS_PREC >= minp:
                self.i += 1
                lhs = ("cast", lhs, self.parse_type()); continue
            if t.k == "p" and t.t in BINPREC and BINPREC[t.t] >= minp:
                op, p = t.t, BINPREC[t.t]
                self.i += 1
                if op in ("..", "..="):
                    nt = self.peek()
                    if nt.k == "eof" or (nt.k == "p" and nt.t in (")", "]", "}", ";", ",", "{")):
                        lhs = ("range", lhs, None, op); continue
                    rhs = self.parse_expr(p + 1, nostruct)
                    lhs = ("range", lhs, rhs, op); continue
                rhs = self.parse_expr(p + 1, nostruct)
                lhs = ("bin", op, lhs, rhs); continue
            return lhs

    def parse_unary(self, nostruct):
        t = self.peek()
        if t.k == "p" and t.t in ("-", "!", "*"):
            self.i += 1
            return ("un", t.t, self.parse_unary(nostruct))
        if t.k == "p" and t.t in ("&", "&&"):
            self.i += 1
            if self.at("mut"): self.i += 1
            return ("un", "&", self.parse_unary(nostruct))
        if t.k == "p" and t.t == "..":
            self.i += 1
            nt = self.peek()
            if nt.k == "eof" or (nt.k == "p" and nt.t in (")", "]", "}", ";", ",")): return ("range", None, None, "..")
            return ("range", None, self.parse_expr(3, nostruct), "..")
        if t.k == "id" and t.t == "let":
            self.i += 1
            pat = self.parse_pattern_until({"="})
            self.eat("=")
            e = self.parse_expr(5, True)     # the scrutinee of a let-chain link cannot contain && / ||
            return ("letcond", pat, e)
        return self.parse_postfix(self.parse_primary(nostruct), nostruct)

    def parse_pattern_until(self, stops):
        """raw pattern: tokens up to one of `stops` at bracket depth 0; returns (text, binders-or-None)"""
        start = self.i
        depth = 0
        while self.i < self.end:
            t = self.peek()
            if t.k == "p" and t.t in OPEN: depth += 1
            elif t.k == "p" and t.t in CLOSE: depth -= 1
            elif depth == 0 and ((t.k == "p" and t.t in stops) or (t.k == "id" and t.t in stops)): break
            self.i += 1
        toks = self.t[start:self.i]
        return ("pat", pretty(toks), [x.t for x in toks])

    def parse_args(self):
        self.eat("(")
        args = []
        while not self.at(")"):
            args.append(self.parse_expr())
            if self.at(","): self.i += 1
            elif not self.at(")"): raise XErr(f"parse: `,` or `)` expected in call, found `{self.peek().t}`")
        self.eat(")")
        return args

    def parse_block(self):
        self.eat("{")
        stmts, tail = [], None
        while not self.at("}"):
            if self.peek().k == "eof": raise XErr("parse: unterminated block")
            if self.at(";"): self.i += 1; continue
            t = self.peek()
            if t.k == "id" and t.t in ITEM_KW and not (t.t == "const" and self.at("{", 1)):
                self.skip_item(); stmts.append(("item", t.t)); continue
            if t.k == "id" and t.t == "let":
                self.i += 1
                pat = self.parse_pattern_until({"=", ";", ":"})
                if self.at(":"):
                    self.i += 1
                    self.parse_type()
                e = None
                if self.at("="):
                    self.i += 1
                    e = self.parse_expr()
                    if self.at("else"):
                        self.i += 1
                        self.skip_balanced()
                        e = ("opaque", "let-else")
                self.eat(";")
                ptoks = [x for x in pat[2] if x != "mut"]
                name = ptoks[0] if len(ptoks) == 1 and re.match(r"[a-z_][A-Za-z0-9_]*$", ptoks[0]) else None
                stmts.append(("let", name, pat[1], e)); continue
            s0 = self.i
            e = self.parse_expr()
            if self.peek().k == "p" and self.peek().t in ASSIGN_OPS:
                op = self.peek().t
                self.i += 1
                rhs = self.parse_expr()
                if self.at(";"): self.i += 1
                elif not self.at("}"): raise XErr("parse: `;` expected after assignment")
                stmts.append(("assign", e, op, rhs)); continue
            if self.at(";"):
                self.i += 1
                stmts.append(("expr", e)); continue
            if self.at("}"):
                tail = e
                self.tail_range = (s0, self.i)
                break
            if e[0] in ("if", "match", "block", "opaque"):
                stmts.append(("expr", e)); continue
            raise XErr(f"parse: `;` or `}}` expected after expression, found `{self.peek().t}`")
        self.eat("}")
        return ("block", stmts, tail)

    def skip_item(self):
        depth = 0
        while self.i < self.end:
            t = self.peek()
            if t.k == "p" and t.t in ("(", "["):
                self.skip_balanced(); continue
            if t.k == "p" and t.t == "{":
                self.skip_balanced(); return
            if t.k == "p" and t.t == ";":
                self.i += 1; return
            self.i += 1

    def parse_if(self):
        self.eat("if")
        cond = self.parse_expr(0, True)
        then = self.parse_block()
        els = None
        if self.at("else"):
            self.i += 1
            els = self.parse_if() if self.at("if") else self.parse_block()
        return ("if", cond, then, els)

    def parse_match(self):
        self.eat("match")
        scrut = self.parse_expr(0, True)
        self.eat("{")
        arms = []
        while not self.at("}"):
            pat = self.parse_pattern_until({"=>", "if"})
            guard = None
            if self.at("if"):
                self.i += 1
                guard = self.parse_expr(0, True)
            self.eat("=>")
            e = self.parse_expr()
            arms.append((pat, guard, e))
            if self.at(","): self.i += 1
        self.eat("}")
        return ("match", scrut, arms)

    def parse_primary(self, nostruct):
        t = self.peek()
        if t.k == "int":
            self.i += 1
            v, suf = int_value(t.t)
            return ("int", v, suf, t.t.replace("_", "")[:len(t.t.replace("_", "")) - len(suf)] if suf else t.t.replace("_", ""))
        if t.k == "float":
            self.i += 1; return ("float", t.t)
        if t.k in ("str", "char"):
            self.i += 1; return ("str", t.t)
        if t.k == "p" and t.t == "(":
            self.i += 1
            if self.at(")"): self.i += 1; return ("tuple", [])
            e = self.parse_expr()
            if self.at(","):
                items = [e]
                while self.at(","):
                    self.i += 1
                    if self.at(")"): break
                    items.append(self.parse_expr())
                self.eat(")")
                return ("tuple", items)
            self.eat(")")
            return ("paren", e)
        if t.k == "p" and t.t == "[":
            self.skip_balanced(); return ("opaque", "array literal")
        if t.k == "p" and t.t == "{":
            return self.parse_block()
        if t.k == "p" and t.t in ("|", "||"):
            return self.parse_closure()
        if t.k == "id":
            if t.t == "if": return self.parse_if()
            if t.t == "match": return self.parse_match()
            if t.t == "move" and self.peek(1).t in ("|", "||"):
                self.i += 1; return self.parse_closure()
            if t.t in ("loop", "while", "for", "unsafe"):
                self.i += 1
                while not self.at("{"):
                    if self.peek().k == "eof": raise XErr("parse: loop without body")
                    if self.peek().t in ("(", "["): self.skip_balanced()
                    else: self.i += 1
                self.skip_balanced()
                return ("opaque", f"`{t.t}` expression")
            if t.t in ("return", "break", "continue"):
                self.i += 1
                nt = self.peek()
                e = None
                if not (nt.k == "eof" or (nt.k == "p" and nt.t in (";", "}", ",", ")"))):
                    e = self.parse_expr()
                return ("opaque", f"`{t.t}`")
            if t.t in ("true", "false"):
                self.i += 1; return ("bool", t.t == "true")
            return self.parse_path(nostruct)
        raise XErr(f"parse: unexpected `{t.t}`")

    def parse_closure(self):
        params = []
        if self.at("||"): self.i += 1
        else:
            self.eat("|")
            while not self.at("|"):
                if self.peek().k == "eof": raise XErr("parse: unterminated closure parameters")
                params.append(self.peek().t); self.i += 1
            self.eat("|")
        if self.at("->"):
            self.i += 1
            self.parse_type()
            body = self.parse_block()
        else:
            body = self.parse_expr()
        return ("closure", params, body)

    def parse_path(self, nostruct):
        segs = [self.peek().t]; self.i += 1
        while self.at("::"):
            self.i += 1
            if self.at("<"): self.skip_angles(); continue
            if self.peek().k != "id": raise XErr("parse: path segment expected")
            segs.append(self.peek().t); self.i += 1
        name = "::".join(segs)
        if self.at("!") and self.peek(1).k == "p" and self.peek(1).t in ("(", "[", "{"):
            self.i += 1
            if name in ("debug_assert", "assert") and self.at("("):
                j = match_close(self.t, self.i)
                sub = Parser(self.t, self.i + 1, j)
                arg = sub.parse_expr()
                self.i = j + 1
                return ("macro", name, [arg])
            self.skip_balanced()
            return ("macro", name, None)
        if self.at("("):
            return ("call", name, self.parse_args())
        if self.at("{") and not nostruct and (segs[-1][:1].isupper()):
            self.i += 1
            fields = []
            while not self.at("}"):
                if self.at(".."):
                    self.i += 1
                    self.parse_expr()
                    fields.append(("..", ("opaque", "struct update syntax")))
                else:
                    f = self.peek().t; self.i += 1
                    if self.at(":"):
                        self.i += 1
                        fields.append((f, self.parse_expr()))
                    else:
                        fields.append((f, ("var", f)))
                if self.at(","): self.i += 1
                elif not self.at("}"): raise XErr("parse: `,` or `}` expected in struct literal")
            self.eat("}")
            return ("struct", name, fields)
        if len(segs) == 1:
            return ("var", name)
        return ("path", name)

    def parse_postfix(self, e, nostruct):
        while True:
            if self.at("."):
                nt = self.peek(1)
                if nt.k == "int":
                    self.i += 2
                    e = ("field", e, nt.t); continue
                if nt.k == "id":
                    self.i += 2
                    if self.at("::") and self.at("<", 1):
                        self.i += 1
                        self.skip_angles()
                    if self.at("("):
                        e = ("mcall", e, nt.t, self.parse_args())
                    else:
                        e = ("field", e, nt.t)
                    continue
                raise XErr("parse: field or method expected after `.`")
            if self.at("?"):
                self.i += 1
                e = ("try", e); continue
            if self.at("["):
                j = match_close(self.t, self.i)
                sub = Parser(self.t, self.i + 1, j)
                idx = sub.parse_expr()
                self.i = j + 1
                e = ("index", e, idx); continue
            if self.at("(") and e[0] in ("paren", "field"):
                e = ("callx", e, self.parse_args()); continue
            return e


def show(e):
    """canonical text of an expression (keys of the `atoms` table are written in this form)"""
    k = e[0]
    if k == "int": return e[3] + e[2]
    if k == "float": return e[1]
    if k == "bool": return "true" if e[1] else "false"
    if k in ("var", "path"): return e[1]
    if k == "str": return e[1]
    if k == "paren": return "(" + show(e[1]) + ")"
    if k == "un": return e[1] + show(e[2])
    if k == "bin": return f"{show(e[2])} {e[1]} {show(e[3])}"
    if k == "cast": return f"{show(e[1])} as {e[2]}"
    if k == "field": return f"{show(e[1])}.{e[2]}"
    if k == "mcall": return f"{show(e[1])}.{e[2]}(" + ", ".join(show(a) for a in e[3]) + ")"
    if k == "call": return f"{e[1]}(" + ", ".join(show(a) for a in e[2]) + ")"
    if k == "tuple": return "(" + ", ".join(show(a) for a in e[1]) + ")"
    if k == "closure": return "|" + " ".join(e[1]) + "| " + show(e[2])
    if k == "index": return f"{show(e[1])}[{show(e[2])}]"
    if k == "try": return show(e[1]) + "?"
    if k == "range": return f"{show(e[1]) if e[1] else ''}{e[3]}{show(e[2]) if e[2] else ''}"
    if k == "macro": return e[1] + "!(..)"
    if k == "letcond": return f"let {e[1][1]} = {show(e[2])}"
    return f"<{k}>"


# ----------------------------------------------------------------------------------------------------
# 5. selecting the expression an entry names
# ----------------------------------------------------------------------------------------------------

def select(toks, span, entry):
    """-> (ast, source_tokens, line, label).  `span` = (fn_idx, body_open, body_close)."""
    what = entry["what"]
    lo, hi = span[1] + 1, span[2]
    own = own_indices(toks, lo, hi)
    occ = what.get("occurrence", entry.get("occurrence", 0))

    def pick(cands, label):
        if occ >= len(cands):
            raise XErr(f"{label}: occurrence {occ} not found in fn {entry['function']} ({len(cands)} candidates)")
        return cands[occ]

    if "let" in what:
        var, cands = what["let"], []
        for i in own:
            if toks[i].k == "id" and toks[i].t == "let":
                j = i + 1
                if toks[j].t == "mut": j += 1
                if toks[j].k == "id" and toks[j].t == var and toks[j + 1].k == "p" and toks[j + 1].t in ("=", ":"):
                    cands.append((i, j + 1))
        i, j = pick(cands, f"let {var}")
        p = Parser(toks, j, hi)
        if p.at(":"):
            p.i += 1
            p.parse_type()
        p.eat("=")
        e = p.parse_expr()
        if not p.at(";"):
            raise XErr(f"let {var}: `;` expected after the expression, found `{p.peek().t}`")
        return e, toks[i:p.i + 1], toks[i].line, f"let {var}"
    if "guard" in what:
        sub, kws, cands = nows(what["guard"]), what.get("kw", ["if", "while"]), []
        if isinstance(kws, str): kws = [kws]
        for i in own:
            if toks[i].k == "id" and toks[i].t in kws:
                p = Parser(toks, i + 1, hi)
                try:
                    e = p.parse_expr(0, True)
                except XErr:
                    continue
                if not p.at("{"): continue
                if sub in nows(pretty(toks[i + 1:p.i])):
                    cands.append((i, p.i, e))
        i, j, e = pick(cands, f"guard containing `{what['guard']}`")
        return e, toks[i:j], toks[i].line, f"{toks[i].t}-condition containing `{what['guard']}`"
    if "ret" in what or "body" in what:
        p = Parser(toks, span[1], span[2] + 1)
        blk = p.parse_block()
        if "body" in what:
            return blk, toks[span[0]:span[2] + 1], toks[span[0]].line, "whole body"
        if blk[2] is None:
            raise XErr("ret: the function has no tail expression")
        a, b = p.tail_range
        return blk[2], toks[a:b], toks[a].line, "tail expression"
    if "arm" in what:
        sub, cands = nows(what["arm"]), []
        for i in own:
            if toks[i].k == "p" and toks[i].t == "=>":
                j, depth = i - 1, 0
                while j >= lo:
                    t = toks[j]
                    if t.k == "p" and t.t in CLOSE:
                        # a `}` whose right neighbour starts a pattern closes the PREVIOUS arm's block
                        if depth == 0 and t.t == "}" and toks[j + 1].k in ("id", "int", "str", "char"): break
                        depth += 1
                    elif t.k == "p" and t.t in OPEN:
                        if depth == 0: break
                        depth -= 1
                    elif depth == 0 and t.k == "p" and t.t == ",": break
                    j -= 1
                if sub in nows(pretty(toks[j + 1:i])):
                    cands.append((j + 1, i))
        j, i = pick(cands, f"match arm `{what['arm']}`")
        p = Parser(toks, i + 1, hi)
        e = p.parse_expr()
        return e, toks[j:p.i], toks[j].line, f"match arm `{what['arm']}`"
    if "call_arg" in what:
        name, cands = what["call_arg"], []
        segs = name.split("::")
        for i in own:
            if toks[i].k == "id" and toks[i].t == segs[-1] and toks[i + 1].k == "p" and toks[i + 1].t == "(":
                ok = True
                for k, s in enumerate(reversed(segs[:-1])):
                    if not (toks[i - 2 * k - 1].t == "::" and toks[i - 2 * k - 2].t == s): ok = False
                if ok: cands.append(i)
        i = pick(cands, f"call of `{name}`")
        p = Parser(toks, i + 1, hi)
        args = p.parse_args()
        k = what.get("index", 0)
        if k >= len(args): raise XErr(f"call of `{name}` has no argument {k}")
        return args[k], toks[i - 2 * (len(segs) - 1):p.i], toks[i].line, f"argument {k} of `{name}(..)`"
    if "assign" in what:
        path = [x.t for x in tokenize(what["assign"])]
        cands = []
        for n_, i in enumerate(own):
            if [toks[x].t for x in own[n_:n_ + len(path)]] == path and own[n_ + len(path) - 1] == i + len(path) - 1:
                prev, nxt = toks[i - 1], toks[i + len(path)]
                if prev.k == "p" and prev.t in (";", "{", "}") and nxt.k == "p" and nxt.t in ASSIGN_OPS:
                    cands.append(i)
        i = pick(cands, f"assignment to `{what['assign']}`")
        p = Parser(toks, i, hi)
        lhs = p.parse_expr()
        op = p.peek().t
        p.i += 1
        rhs = p.parse_expr()
        if not p.at(";"): raise XErr("assignment: `;` expected")
        e = rhs if op == "=" else ("bin", op[:-1], lhs, rhs)
        return e, toks[i:p.i + 1], toks[i].line, f"assignment to `{what['assign']}`"
    if "field" in what:
        f, cands = what["field"], []
        for i in own:
            if toks[i].k == "id" and toks[i].t == f and toks[i + 1].k == "p" and toks[i + 1].t == ":" \
                    and toks[i - 1].k == "p" and toks[i - 1].t in ("{", ","):
                cands.append(i)
        i = pick(cands, f"struct field `{f}:`")
        p = Parser(toks, i + 2, hi)
        e = p.parse_expr()
        return e, toks[i:p.i], toks[i].line, f"struct-literal field `{f}`"
    raise XErr(f"unknown selector {what}")


def focus(e, f):
    """first sub-expression (pre-order) that is a binary `op` node / a call of method `method`"""
    def walk(x):
        if not isinstance(x, tuple): return None
        if "op" in f and x[0] == "bin" and x[1] == f["op"]: return x
        if "method" in f and x[0] == "mcall" and x[2] == f["method"]: return x
        for y in x[1:]:
            if isinstance(y, tuple) and y and isinstance(y[0], str):
                r = walk(y)
                if r: return r
            elif isinstance(y, list):
                for z in y:
                    r = walk(z) if isinstance(z, tuple) else None
                    if r: return r
        return None
    r = walk(e)
    if r is None: raise XErr(f"focus {f}: no such sub-expression")
    return r


# ----------------------------------------------------------------------------------------------------
# 6. typed translation to Lean
# ----------------------------------------------------------------------------------------------------

LEAN_KW = {"end", "from", "at", "do", "then", "fun", "open", "in", "instance", "section", "namespace", "show", "have",
           "by", "with", "deriving", "local", "prefix", "meta", "if", "else", "let", "match", "where", "this", "using",
           "calc", "at", "export", "import", "variable", "universe", "theorem", "def", "example", "structure",
           "class", "inductive", "mutual", "private", "protected", "partial", "unsafe", "macro", "syntax", "notation",
           "infix", "infixl", "infixr", "postfix", "attribute", "set_option", "return", "for", "unless", "try",
           "catch", "finally", "mut", "nomatch", "nofun", "suffices", "obtain", "from", "max", "min", "some", "none",
           "true", "false", "Type", "Prop", "Sort", "pure", "not", "and", "or"}


def lean_name(path):
    n = re.sub(r"[^A-Za-z0-9_]", "_", path.replace("::", "_").replace(".", "_"))
    if n in LEAN_KW or n[:1].isdigit(): n += "_"
    return n


def flat(e):
    """`a`, `a.b`, `self.0`, `(a).b` -> dotted path, else None"""
    if e[0] == "paren": return flat(e[1])
    if e[0] == "un" and e[1] in ("&", "*"): return flat(e[2])
    if e[0] == "var": return e[1]
    if e[0] == "field":
        b = flat(e[1])
        return None if b is None else b + "." + e[2]
    return None


def ty_str(t, top=True):
    if isinstance(t, str): return t
    if t[0] == "opt": return ("Option " + ty_str(t[1], False)) if top else ("(Option " + ty_str(t[1], False) + ")")
    if t[0] == "tuple":
        s = " × ".join(ty_str(x, False) for x in t[1])
        return s if top else "(" + s + ")"
    raise XErr(f"internal: type {t}")


def parse_ty(s):
    s = s.strip()
    if s in ("Nat", "Bool", "UInt64", "Unit"): return s
    if s.startswith("Option "): return ("opt", parse_ty(s[7:].strip().strip("()")))
    if "×" in s: return ("tuple", [parse_ty(x.strip().strip("()")) for x in s.split("×")])
    raise XErr(f"spec: unsupported Lean type `{s}`")


INT_CAST_ID = {"usize", "u64", "u128"}
CHECKED_OPS = {"+": "K.cadd", "-": "K.csub", "*": "K.cmul", "/": "K.cdiv", "%": "K.cmod"}
IDENT_METHODS = {"clone", "copied", "cloned", "to_owned"}


class Tr:
    def __init__(self, entry, registry):
        self.mode = entry.get("mode", "nat")
        if self.mode not in ("nat", "checked64", "wrap64"): raise XErr(f"spec: unknown mode {self.mode}")
        self.INT = "UInt64" if self.mode == "wrap64" else "Nat"
        self.atoms = {k: lean_name(v) for k, v in entry.get("atoms", {}).items()}
        self.calls = entry.get("calls", {})
        self.registry = registry
        self.sat = entry.get("sat_bits", 64)
        self.n = 0
        self.params = []
        for p in entry.get("params", []):
            nm, _, ty = p.partition(":")
            self.params.append((lean_name(nm.strip()), parse_ty(ty) if ty.strip() else self.INT))

    def fresh(self):
        self.n += 1
        return f"t{self.n}"

    def isint(self, t): return t == self.INT

    # -- variables
    def var(self, e, env):
        f = flat(e)
        if f is None: return None
        ln = lean_name(f)
        if ln in env: return ln, env[ln]
        # projection out of a tuple-typed variable
        if e[0] == "field" and e[2].isdigit():
            b = self.var(e[1], env)
            if b and not isinstance(b[1], str) and b[1][0] == "tuple" and int(e[2]) < len(b[1][1]):
                k, n = int(e[2]), len(b[1][1])
                proj = ".2" * k + (".1" if k < n - 1 else "")
                return f"{b[0]}{proj}", b[1][1][k]
        raise XErr(f"free variable `{f}` is not a declared parameter of the entry")

    # -- expressions: returns (lean term, type); monadic binds / lets are appended to `lines`
    def tr(self, e, env, lines):
        k = e[0]
        key = show(e[1] if k == "paren" else e)
        if key in self.atoms:
            ln = self.atoms[key]
            if ln not in env: raise XErr(f"atom `{key}` maps to `{ln}` which is not a declared parameter")
            return ln, env[ln]
        if k == "paren": return self.tr(e[1], env, lines)
        if k == "int":
            if e[2] in ("f32", "f64"): raise XErr("float literal")
            return e[3], self.INT
        if k == "float": raise XErr(f"float literal `{e[1]}` (floats are not translated; make the comparison an atom)")
        if k == "bool": return ("true" if e[1] else "false"), "Bool"
        if k == "str": raise XErr("string/char literal")
        if k == "var" and e[1] == "None": return "none", ("opt", self.INT)
        if k in ("var", "field"):
            v = self.var(e, env)
            if v is None:
                raise XErr(f"field access on a computed value: `{show(e)}`")
            return v
        if k == "path":
            if e[1] in ("usize::MAX", "u64::MAX", "u32::MAX"):
                nm = {"usize::MAX": "K.usizeMax", "u64::MAX": "K.u64Max", "u32::MAX": "K.u32Max"}[e[1]]
                if self.mode == "wrap64":
                    if e[1] == "u32::MAX": return "(4294967295 : UInt64)", "UInt64"
                    return "(18446744073709551615 : UInt64)", "UInt64"
                return nm, "Nat"
            raise XErr(f"path `{e[1]}`")
        if k == "un":
            if e[1] in ("&", "*"): return self.tr(e[2], env, lines)
            a, ta = self.tr(e[2], env, lines)
            if e[1] == "!":
                if ta != "Bool": raise XErr("`!` on a non-bool (bitwise not)")
                return f"(!{a})", "Bool"
            raise XErr("unary minus")
        if k == "cast":
            a, ta = self.tr(e[1], env, lines)
            if e[2] in INT_CAST_ID or (self.mode == "wrap64" and e[2] == "u64"):
                if ta == "Bool": return f"(if {a} then 1 else 0)", self.INT
                if self.isint(ta): return a, ta
                raise XErr(f"cast of a {ty_str(ta)} to {e[2]}")
            raise XErr(f"cast `as {e[2]}` (narrowing / signed / float casts are not translated)")
        if k == "bin": return self.tr_bin(e, env, lines)
        if k == "mcall": return self.tr_mcall(e, env, lines)
        if k == "call": return self.tr_call(e, env, lines)
        if k == "if": return self.tr_if(e, env, lines)
        if k == "block":
            txt, ty = self.inline_block(e, env)
            if self.mode == "checked64" and txt[1]:
                t = self.fresh()
                lines.append(f"let {t} ← {txt[0]}")
                return t, ty
            return txt[0], ty
        if k == "tuple":
            if not e[1]: return "()", "Unit"
            parts = [self.tr(x, env, lines) for x in e[1]]
            return "(" + ", ".join(p[0] for p in parts) + ")", ("tuple", [p[1] for p in parts])
        if k == "struct":
            parts = []
            for f, x in e[2]:
                if f == "..": raise XErr("struct update syntax")
                parts.append(self.tr(x, env, lines))
            if len(parts) == 1: return parts[0]
            return "(" + ", ".join(p[0] for p in parts) + ")", ("tuple", [p[1] for p in parts])
        if k == "match": return self.tr_match(e, env, lines)
        if k == "letcond": return self.tr_and([e], env, lines)
        if k == "macro": raise XErr(f"macro `{e[1]}!`")
        if k == "opaque": raise XErr(e[1])
        if k == "closure": raise XErr("closure outside unwrap_or_else")
        if k == "try": raise XErr("`?` operator")
        if k == "index": raise XErr("indexing")
        if k == "range": raise XErr("range expression")
        raise XErr(f"expression kind `{k}`")

    def tr_bin(self, e, env, lines):
        op = e[1]
        if op == "&&": return self.tr_and(self.flatten(e, "&&"), env, lines)
        if op == "||":
            a, ta = self.tr(e[2], env, lines)
            sub = []
            b, tb = self.tr(e[3], env, sub)
            if ta != "Bool" or tb != "Bool": raise XErr("`||` on non-bools")
            if sub:
                t = self.fresh()
                lines.append(f"let {t} ← (if {a} then pure true else {self.render_inline(sub, b, True)})")
                return t, "Bool"
            return f"({a} || {b})", "Bool"
        a, ta = self.tr(e[2], env, lines)
        b, tb = self.tr(e[3], env, lines)
        if op in ("+", "-", "*", "/", "%"):
            if not (self.isint(ta) and self.isint(tb)): raise XErr(f"`{op}` on {ty_str(ta)} and {ty_str(tb)}")
            if self.mode == "checked64":
                t = self.fresh()
                lines.append(f"let {t} ← {CHECKED_OPS[op]} {a} {b}")
                return t, "Nat"
            return f"({a} {op} {b})", ta
        if op in ("<<", ">>"):
            if not (self.isint(ta) and self.isint(tb)): raise XErr(f"`{op}` on non-integers")
            if self.mode == "checked64" and op == "<<": raise XErr("`<<` in checked64 mode")
            return f"({a} {'<<<' if op == '<<' else '>>>'} {b})", ta
        if op in ("^", "&", "|"):
            if ta == "Bool" and tb == "Bool":
                return {"^": f"({a} != {b})", "&": f"({a} && {b})", "|": f"({a} || {b})"}[op], "Bool"
            if self.isint(ta) and self.isint(tb):
                lop = {"^": "^^^", "&": "&&&", "|": "|||"}[op]
                return f"({a} {lop} {b})", ta
            raise XErr(f"`{op}` on {ty_str(ta)} and {ty_str(tb)}")
        if op in ("<", "<=", ">", ">="):
            if not (self.isint(ta) and self.isint(tb)): raise XErr(f"`{op}` on {ty_str(ta)} and {ty_str(tb)}")
            lop = {"<": "<", "<=": "≤", ">": ">", ">=": "≥"}[op]
            return f"(decide ({a} {lop} {b}))", "Bool"
        if op in ("==", "!="):
            if ta != tb or not isinstance(ta, str): raise XErr(f"`{op}` on {ty_str(ta)} and {ty_str(tb)}")
            return f"({a} {op} {b})", "Bool"
        raise XErr(f"operator `{op}`")

    @staticmethod
    def flatten(e, op):
        if e[0] == "bin" and e[1] == op: return Tr.flatten(e[2], op) + Tr.flatten(e[3], op)
        return [e]

    def tr_and(self, items, env, lines):
        """a && b && …, short-circuit, with `let Some(x) = e` links"""
        first, rest = items[0], items[1:]
        if first[0] == "letcond":
            ptoks = first[1][2]
            if not (len(ptoks) == 4 and ptoks[0] == "Some" and ptoks[1] == "(" and ptoks[3] == ")" and re.match(r"[a-z_]\w*$", ptoks[2])):
                raise XErr(f"`let {first[1][1]} = …` (only `let Some(x) = e` is translated)")
            s, ts = self.tr(first[2], env, lines)
            if isinstance(ts, str) or ts[0] != "opt": raise XErr("`let Some(..)` on a non-Option")
            x = lean_name(ptoks[2])
            env2 = dict(env); env2[x] = ts[1]
            if rest:
                sub = []
                r, tr_ = self.tr_and(rest, env2, sub)
                if sub: raise XErr("arithmetic that can panic inside a let-chain")
            else:
                r = "true"
            return f"(match {s} with | some {x} => {r} | none => false)", "Bool"
        a, ta = self.tr(first, env, lines)
        if ta != "Bool": raise XErr("`&&` on a non-bool")
        if not rest: return a, "Bool"
        sub = []
        b, _ = self.tr_and(rest, env, sub)
        if sub:
            t = self.fresh()
            lines.append(f"let {t} ← (if {a} then {self.render_inline(sub, b, True)} else pure false)")
            return t, "Bool"
        return f"({a} && {b})", "Bool"

    def satmax(self):
        return {64: "K.u64Max", 32: "K.u32Max"}[self.sat]

    def tr_mcall(self, e, env, lines):
        recv, name, args = e[1], e[2], e[3]
        # usize::try_from(x).expect("…") / .unwrap(): a u64 always fits a usize on the 64-bit target
        if name in ("expect", "unwrap") and recv[0] == "call" and recv[1] in ("usize::try_from", "u64::try_from", "u128::try_from") and len(recv[2]) == 1:
            a, ta = self.tr(recv[2][0], env, lines)
            if not self.isint(ta): raise XErr("try_from of a non-integer")
            return a, ta
        if name in ("len", "is_empty") and not args:
            f = flat(recv)
            if f is None: raise XErr(f"`.{name}()` on a computed value")
            ln = lean_name(f + ".len")
            if ln not in env: raise XErr(f"free variable `{f}.len()` (declare the parameter `{f}.len`)")
            if env[ln] != self.INT: raise XErr(f"`{ln}` must be an integer")
            return (ln, self.INT) if name == "len" else (f"({ln} == 0)", "Bool")
        a, ta = self.tr(recv, env, lines)
        if name in IDENT_METHODS and not args: return a, ta
        isopt = (not isinstance(ta, str)) and ta[0] == "opt"
        if name == "unwrap_or_else" and len(args) == 1 and args[0][0] == "closure" and not args[0][1]:
            if not isopt: raise XErr("unwrap_or_else on a non-Option")
            sub = []
            b, tb = self.tr(args[0][2], env, sub)
            if sub: raise XErr("arithmetic that can panic inside an unwrap_or_else closure")
            if tb != ta[1]: raise XErr("unwrap_or_else: type mismatch")
            return f"(Option.getD {a} {b})", tb
        xs = [self.tr(x, env, lines) for x in args]
        def need(n, *tys):
            if len(xs) != n: raise XErr(f"`.{name}` expects {n} argument(s)")
            for (term, t), want in zip(xs, tys):
                if t != want: raise XErr(f"`.{name}`: argument of type {ty_str(t)}, expected {ty_str(want)}")
        if name in ("max", "min"):
            if not self.isint(ta): raise XErr(f"`.{name}` on {ty_str(ta)}")
            need(1, ta)
            return f"({name} {a} {xs[0][0]})", ta
        if isopt:
            if name == "unwrap_or":
                need(1, ta[1]); return f"(Option.getD {a} {xs[0][0]})", ta[1]
            if name == "unwrap_or_default" and self.isint(ta[1]):
                need(0); return f"(Option.getD {a} 0)", ta[1]
            if name == "or":
                need(1, ta); return f"(Option.or {a} {xs[0][0]})", ta
            if name == "is_none": need(0); return f"(Option.isNone {a})", "Bool"
            if name == "is_some": need(0); return f"(Option.isSome {a})", "Bool"
            raise XErr(f"method `.{name}` on an Option")
        if not self.isint(ta): raise XErr(f"method `.{name}` on {ty_str(ta)}")
        if name in ("wrapping_add", "wrapping_sub", "wrapping_mul"):
            need(1, ta)
            op = {"wrapping_add": "+", "wrapping_sub": "-", "wrapping_mul": "*"}[name]
            if self.mode == "wrap64": return f"({a} {op} {xs[0][0]})", ta
            if op == "-": return f"(({a} + K.U64 - {xs[0][0]}) % K.U64)", ta
            return f"(({a} {op} {xs[0][0]}) % K.U64)", ta
        if self.mode == "wrap64": raise XErr(f"method `.{name}` in wrap64 mode")
        if name == "clamp": need(2, "Nat", "Nat"); return f"(K.clamp {a} {xs[0][0]} {xs[1][0]})", "Nat"
        if name == "div_ceil":
            need(1, "Nat")
            if self.mode == "checked64":
                t = self.fresh()
                lines.append(f"let {t} ← K.cdivCeil {a} {xs[0][0]}")
                return t, "Nat"
            return f"(K.divCeil {a} {xs[0][0]})", "Nat"
        if name == "saturating_sub": need(1, "Nat"); return f"({a} - {xs[0][0]})", "Nat"
        if name == "saturating_add": need(1, "Nat"); return f"(min ({a} + {xs[0][0]}) {self.satmax()})", "Nat"
        if name == "saturating_mul": need(1, "Nat"); return f"(min ({a} * {xs[0][0]}) {self.satmax()})", "Nat"
        if name == "is_multiple_of": need(1, "Nat"); return f"({a} % {xs[0][0]} == 0)", "Bool"
        if name == "abs_diff": need(1, "Nat"); return f"(if {a} ≤ {xs[0][0]} then {xs[0][0]} - {a} else {a} - {xs[0][0]})", "Nat"
        if name in ("checked_add", "checked_sub", "checked_mul", "checked_div", "checked_rem"):
            need(1, "Nat")
            return f"({CHECKED_OPS[{'add': '+', 'sub': '-', 'mul': '*', 'div': '/', 'rem': '%'}[name[8:]]]} {a} {xs[0][0]})", ("opt", "Nat")
        raise XErr(f"method `.{name}` is outside the translated subset")

    def tr_call(self, e, env, lines):
        name, args = e[1], e[2]
        if name == "Some" and len(args) == 1:
            a, ta = self.tr(args[0], env, lines)
            return f"(some {a})", ("opt", ta)
        if name in ("usize::from", "u64::from", "u128::from") and len(args) == 1:
            a, ta = self.tr(args[0], env, lines)
            if ta == "Bool": return f"(if {a} then 1 else 0)", self.INT
            if self.isint(ta): return a, ta
            raise XErr(f"`{name}` of a {ty_str(ta)}")
        if name in ("min", "max", "std::cmp::min", "std::cmp::max", "cmp::min", "cmp::max") and len(args) == 2:
            a, ta = self.tr(args[0], env, lines)
            b, tb = self.tr(args[1], env, lines)
            if not (self.isint(ta) and ta == tb): raise XErr(f"`{name}` on non-integers")
            return f"({name.split('::')[-1]} {a} {b})", ta
        if name in self.calls:
            cid = self.calls[name]
            if cid not in self.registry: raise XErr(f"callee `{name}` -> `{cid}` is not (yet) translated")
            ptys, rty, cmode = self.registry[cid]
            if len(args) != len(ptys): raise XErr(f"call of `{name}`: {len(args)} arguments, the translated callee takes {len(ptys)}")
            xs = [self.tr(x, env, lines) for x in args]
            for (term, t), want in zip(xs, ptys):
                if t != want: raise XErr(f"call of `{name}`: argument type {ty_str(t)}, expected {ty_str(want)}")
            app = f"K.{cid} " + " ".join(x[0] for x in xs)
            if cmode == "checked64":
                if self.mode != "checked64": raise XErr(f"call of checked64 kernel `{cid}` from mode {self.mode}")
                t = self.fresh()
                lines.append(f"let {t} ← {app}")
                return t, rty
            return f"({app})", rty
        raise XErr(f"call of `{name}` (not a translated local function; declare it in `calls` or make it an atom)")

    def tr_if(self, e, env, lines):
        c, tc = self.tr(e[1], env, lines)
        if tc != "Bool": raise XErr("`if` condition is not a bool")
        if e[3] is None: raise XErr("`if` without `else` used as a value")
        (a, am), ta = self.inline_block(e[2], env)
        if e[3][0] == "if":
            sub = []
            b0, tb = self.tr_if(e[3], env, sub)
            b, bm = (self.render_inline(sub, b0, True), True) if sub else (b0, False)
        else:
            (b, bm), tb = self.inline_block(e[3], env)
        if ta != tb: raise XErr(f"`if` branches have types {ty_str(ta)} and {ty_str(tb)}")
        if am or bm:
            if not am: a = f"(pure {a})"
            if not bm: b = f"(pure {b})"
            t = self.fresh()
            lines.append(f"let {t} ← (if {c} then {a} else {b})")
            return t, ta
        return f"(if {c} then {a} else {b})", ta

    def tr_match(self, e, env, lines):
        s, ts = self.tr(e[1], env, lines)
        if isinstance(ts, str) or ts[0] != "opt": raise XErr("`match` on a non-Option scrutinee")
        arms, rty = [], None
        seen = set()
        for pat, guard, body in e[2]:
            if guard is not None: raise XErr("match guard")
            pt = pat[2]
            env2 = dict(env)
            if len(pt) == 4 and pt[0] == "Some" and pt[1] == "(" and pt[3] == ")" and re.match(r"[a-z_]\w*$", pt[2]):
                x = lean_name(pt[2]); env2[x] = ts[1]; lp = f"some {x}"; seen.add("some")
            elif pt == ["None"]: lp = "none"; seen.add("none")
            elif pt == ["_"]: lp = "_"; seen |= {"some", "none"}
            else: raise XErr(f"match pattern `{pat[1]}`")
            sub = []
            b, tb = self.tr(body, env2, sub)
            if sub: raise XErr("arithmetic that can panic inside a match arm")
            if rty is not None and tb != rty: raise XErr("match arms of different types")
            rty = tb
            arms.append(f"| {lp} => {b}")
        if seen != {"some", "none"}: raise XErr("non-exhaustive match")
        return f"(match {s} with " + " ".join(arms) + ")", rty

    # -- blocks
    def stmts(self, blk, env, lines):
        """translate the statements of a block into `lines` (env is updated in place); returns (tail term, type)"""
        for st in blk[1]:
            k = st[0]
            if k == "item": continue
            if k == "let":
                if st[1] is None: raise XErr(f"destructuring `let {st[2]}`")
                if st[3] is None: raise XErr("`let` without initialiser")
                rhs = st[3]
                if rhs[0] == "block" and not any(x[0] == "let" for x in rhs[1]):
                    a, ta = self.stmts(rhs, env, lines)          # `let z = { self.state = …; self.state };`
                else:
                    a, ta = self.tr(rhs, env, lines)
                ln = lean_name(st[1])
                lines.append(f"let {ln} : {ty_str(ta)} := {a}")
                env[ln] = ta
                continue
            if k == "assign":
                f = flat(st[1])
                if f is None: raise XErr(f"assignment to `{show(st[1])}`")
                ln = lean_name(f)
                if ln not in env: raise XErr(f"assignment to undeclared `{f}`")
                rhs = st[3] if st[2] == "=" else ("bin", st[2][:-1], st[1], st[3])
                a, ta = self.tr(rhs, env, lines)
                if ta != env[ln]: raise XErr(f"assignment changes the type of `{f}`")
                lines.append(f"let {ln} : {ty_str(ta)} := {a}")
                continue
            if k == "expr" and st[1][0] == "macro" and st[1][1] == "debug_assert" and st[1][2]:
                if self.mode == "checked64":
                    c, tc = self.tr(st[1][2][0], env, lines)
                    if tc != "Bool": raise XErr("debug_assert! of a non-bool")
                    lines.append(f"K.dbgAssert {c}")
                continue
            raise XErr(f"statement `{show(st[1]) if k == 'expr' else k}` (only let / assignment / debug_assert! are translated)")
        if blk[2] is None: raise XErr("block without a value")
        return self.tr(blk[2], env, lines)

    def render_inline(self, lines, tail, monadic):
        if monadic:
            if lines and lines[-1].startswith(f"let {tail} ← "):
                body = lines[:-1] + [lines[-1][len(f"let {tail} ← "):]]
            else:
                body = lines + [f"pure {tail}"]
            return "(do " + "; ".join(body) + ")" if len(body) > 1 else "(" + body[0] + ")"
        return "(" + "; ".join(lines + [tail]) + ")" if lines else tail

    def inline_block(self, blk, env):
        """-> ((text, is_monadic), type)"""
        if blk[0] != "block": raise XErr("block expected")
        env2, lines = dict(env), []
        a, ta = self.stmts(blk, env2, lines)
        mon = self.mode == "checked64" and any("←" in l or l.startswith("K.dbgAssert") for l in lines)
        return (self.render_inline(lines, a, mon), mon), ta


# ----------------------------------------------------------------------------------------------------
# 7. entries -> Lean file
# ----------------------------------------------------------------------------------------------------

PRELUDE = '''/-- an entry the translator could not translate: no tie theorem can be stated about it -/
structure Untranslatable where
  reason : String

/-- `usize::MAX` / `u64::MAX` on the 64-bit target, `u32::MAX` -/
def usizeMax : Nat := 18446744073709551615
def u64Max : Nat := 18446744073709551615
def u32Max : Nat := 4294967295
/-- `2^64` -/
def U64 : Nat := 18446744073709551616

/-- `usize::div_ceil` as std writes it: `let d = a / b; let r = a % b; if r > 0 { d + 1 } else { d }` -/
def divCeil (a b : Nat) : Nat := if a % b > 0 then a / b + 1 else a / b
/-- `Ord::clamp`: `if self < lo { lo } else if self > hi { hi } else { self }` -/
def clamp (x lo hi : Nat) : Nat := if x < lo then lo else if x > hi then hi else x

/-! checked `u64` arithmetic (`none` = the panic of a build with overflow checks) -/
def cadd (a b : Nat) : Option Nat := if a + b < U64 then some (a + b) else none
def csub (a b : Nat) : Option Nat := if b ≤ a then some (a - b) else none
def cmul (a b : Nat) : Option Nat := if a * b < U64 then some (a * b) else none
def cdiv (a b : Nat) : Option Nat := if b = 0 then none else some (a / b)
def cmod (a b : Nat) : Option Nat := if b = 0 then none else some (a % b)
def cdivCeil (a b : Nat) : Option Nat := if b = 0 then none else some (divCeil a b)
/-- `debug_assert!(c)` in a build with debug assertions -/
def dbgAssert (c : Bool) : Option Unit := if c then some () else none
'''


def lean_comment_safe(s):
    return s.replace("/-", "/ -").replace("-/", "- /")


class Repo:
    def __init__(self, root):
        self.root, self.cache = root, {}

    def tokens(self, rel):
        if rel not in self.cache:
            path = os.path.join(self.root, rel)
            if not os.path.isfile(path):
                self.cache[rel] = None
            else:
                with open(path, encoding="utf-8") as f:
                    self.cache[rel] = tokenize(strip_rust(f.read()))
        if self.cache[rel] is None:
            raise XErr(f"file {rel} not found in the repo")
        return self.cache[rel]


def translate_entry(entry, repo, registry):
    """-> (lean_text, site_dict).  Never raises XErr: an untranslatable entry becomes an `Untranslatable` def."""
    eid = entry["id"]
    head = f"{entry.get('property', '?')} · {eid} · {entry.get('file', '?')} · fn {entry.get('function', '?')}"
    site = {"id": eid, "property": entry.get("property"), "file": entry.get("file"), "function": entry.get("function"),
            "line": None, "status": "ok"}
    src_text, label = None, json.dumps(entry.get("what", {}), sort_keys=True)
    try:
        if not re.match(r"[a-z][A-Za-z0-9_]*$", eid): raise XErr("spec: bad id")
        toks = repo.tokens(entry["file"])
        span = locate_function(toks, entry)
        e, stoks, line, label = select(toks, span, entry)
        site["line"] = line
        src_text = pretty(stoks) if stoks else show(e)
        if "focus" in entry:
            e = focus(e, entry["focus"])
            src_text = show(e)
            label += f", sub-expression {json.dumps(entry['focus'], sort_keys=True)}"
        tr = Tr(entry, registry)
        env, lines = dict(tr.params), []
        if len(env) != len(tr.params): raise XErr("spec: duplicate parameter")
        for v in tr.atoms.values():
            if v not in env: raise XErr(f"spec: atom parameter `{v}` is not declared in params")
        if e[0] == "block" and "body" in entry["what"]:
            term, ty = tr.stmts(e, env, lines)
        else:
            term, ty = tr.tr(e, env, lines)
        for extra in entry.get("also_return", []):
            ln = lean_name(extra)
            if ln not in env: raise XErr(f"also_return: `{extra}` is not a variable of the body")
            ty = ("tuple", [ty, env[ln]])
            term = f"({term}, {ln})"
        if "type" in entry and parse_ty(entry["type"]) != ty:
            raise XErr(f"result type {ty_str(ty)} differs from the type the spec declares ({entry['type']})")
        sig = "".join(f" ({n} : {ty_str(t)})" for n, t in tr.params)
        if tr.mode == "checked64":
            if lines and lines[-1].startswith(f"let {term} ← "):
                body = lines[:-1] + [lines[-1][len(f"let {term} ← "):]]
            else:
                body = lines + [f"pure {term}"]
            text = f"def {eid}{sig} : Option {ty_str(ty, False)} := do\n" + "".join(f"  {l}\n" for l in body)
        else:
            text = f"def {eid}{sig} : {ty_str(ty)} :=\n" + "".join(f"  {l}\n" for l in lines) + f"  {term}\n"
        registry[eid] = ([t for _, t in tr.params], ty, tr.mode)
        comment = f"/- {head} · {label} · mode {tr.mode}\n   Rust: {lean_comment_safe(src_text)} -/\n"
        return comment + text, site
    except XErr as x:
        reason = str(x)
    except Exception as x:        # a region of the source the translator trips over: the ENTRY fails closed, the run goes on
        reason = f"internal {type(x).__name__}: {x}"
    for w in ("unsafe", "sorry", "admit", "native_decide", "bv_decide", "implemented_by", "axiom", "maxHeartbeats"):
        reason = reason.replace(w, w[:2] + "-" + w[2:])      # the reason is a Lean string; keep ibcheck's token grep quiet
    site["status"] = "untranslatable: " + reason
    comment = f"/- {head} · {label}\n   UNTRANSLATABLE: {lean_comment_safe(reason)}"
    if src_text: comment += f"\n   Rust: {lean_comment_safe(src_text)}"
    comment += " -/\n"
    return comment + f"def {eid} : Untranslatable := ⟨{json.dumps(reason, ensure_ascii=False)}⟩\n", site


def generate(repo_root, spec):
    repo, registry, out, sites = Repo(repo_root), {}, [], []
    seen = set()
    for entry in spec:
        if entry["id"] in seen: raise SystemExit(f"spec: duplicate id {entry['id']}")
        seen.add(entry["id"])
        text, site = translate_entry(entry, repo, registry)
        out.append(text); sites.append(site)
    body = ("-- GENERATED by bin/rs2lean.py from the Rust SOURCE TEXT of the repo the harness links. Do not edit.\n"
            "-- One definition per entry of bin/kernels.json; the tie theorems are in IbModel/Props/CxxK.lean.\n"
            "set_option linter.unusedVariables false\n"
            "namespace IB.Generated.K\n\n" + PRELUDE + "\n" + "\n".join(out) + "\nend IB.Generated.K\n")
    return body, sites


def write_if_changed(path, content):
    old = None
    if os.path.exists(path):
        with open(path, encoding="utf-8") as f: old = f.read()
    if old == content: return False
    os.makedirs(os.path.dirname(path), exist_ok=True)
    with open(path, "w", encoding="utf-8") as f: f.write(content)
    return True


# ----------------------------------------------------------------------------------------------------
# 8. self-test
# ----------------------------------------------------------------------------------------------------

def _snippet(src, entry):
    class R:
        def tokens(self, rel): return tokenize(strip_rust(src))
    entry = dict({"id": "t", "property": "T", "file": "x.rs"}, **entry)
    text, site = translate_entry(entry, R(), entry.pop("_registry", {}))
    return [l for l in text.split("\n") if l and not l.startswith(("/-", "   "))], site


def selftest():
    fails = []

    def ok(name, src, entry, want):
        got, site = _snippet(src, entry)
        body = " ".join(x.strip() for x in got[1:]) if len(got) > 1 else got[0]
        if got[0].startswith("def t : Untranslatable") or nows(body) != nows(want):
            fails.append(f"{name}: got {got} ({site['status']}), want {want}")

    def bad(name, src, entry, frag):
        got, site = _snippet(src, entry)
        if not got[0].startswith("def t : Untranslatable") or frag not in site["status"]:
            fails.append(f"{name}: expected untranslatable containing `{frag}`, got {got} ({site['status']})")

    F = "fn f(a: usize, b: usize) -> usize { %s }"
    ok("clamp-chain", F % "let parts = a.max(1).min(b.max(1)); parts", {"function": "f", "what": {"let": "parts"}, "params": ["a", "b"]},
       "(min (max a 1) (max b 1))")
    ok("comments-attrs", "fn f(a: usize) -> usize { // x\n #[cfg(x)] /* y /* z */ */ let p = a /* q */ .max( 0x1_0usize ) ; p }",
       {"function": "f", "what": {"let": "p"}, "params": ["a"]}, "(max a 0x10)")
    ok("precedence", F % "let x = a + b * 2 - (a - b) / 3 % 4; x", {"function": "f", "what": {"let": "x"}, "params": ["a", "b"]},
       "((a + (b * 2)) - (((a - b) / 3) % 4))")
    ok("cast+cmp", F % "if (a as u64) <= b as u64 || a == 0 && !(b != 1) { a } else { b }",
       {"function": "f", "what": {"guard": "as u64"}, "params": ["a", "b"]},
       "((decide (a ≤ b)) || ((a == 0) && (!(b != 1))))")
    ok("option", "fn f(o: Option<usize>, n: usize) -> usize { let s = o.unwrap_or_else(|| cpus().max(2)).clamp(1, n); s }",
       {"function": "f", "what": {"let": "s"}, "params": ["o: Option Nat", "n", "c"], "atoms": {"cpus()": "c"}},
       "(K.clamp (Option.getD o (max c 2)) 1 n)")
    ok("usize-max", "fn f(o: Option<usize>) -> usize { let f = o.unwrap_or(usize::MAX).max(2); f }",
       {"function": "f", "what": {"let": "f"}, "params": ["o: Option Nat"]}, "(max (Option.getD o K.usizeMax) 2)")
    ok("if-else-chain", F % "if a < b { a } else if a == b { 0 } else { a - b }", {"function": "f", "what": {"ret": True}, "params": ["a", "b"]},
       "(if (decide (a < b)) then a else (if (a == b) then 0 else (a - b)))")
    ok("block+shadow", F % "let x = { let y = a.div_ceil(b); y * 2 }; let x = x + 1; x", {"function": "f", "what": {"body": True}, "params": ["a", "b"]},
       "let x : Nat := (let y : Nat := (K.divCeil a b); (y * 2)) let x : Nat := (x + 1) x")
    ok("checked", "fn f(a: u64, b: u64) -> u64 { debug_assert!(b > 0); let q = a / b; if q != 0 { q - 1 } else { q } }",
       {"function": "f", "what": {"body": True}, "params": ["a", "b"], "mode": "checked64"},
       "K.dbgAssert (decide (b > 0)) let t1 ← K.cdiv a b let q : Nat := t1 (if (q != 0) then (K.csub q 1) else (pure q))")
    ok("wrap64", "fn f(&mut self) -> u64 { let mut z = { self.s = self.s.wrapping_add(0x9E37_79B9); self.s }; z = (z ^ (z >> 30)).wrapping_mul(3); z ^ (z >> 31) }",
       {"function": "f", "what": {"body": True}, "params": ["self.s"], "mode": "wrap64", "also_return": ["self.s"]},
       "let self_s : UInt64 := (self_s + 0x9E3779B9) let z : UInt64 := self_s let z : UInt64 := ((z ^^^ (z >>> 30)) * 3) ((z ^^^ (z >>> 31)), self_s)")
    ok("let-chain", "fn f(c: &C, page: u32) { loop { if let Some(m) = c.max_pages && page >= m { break; } } }",
       {"function": "f", "what": {"guard": "max_pages"}, "params": ["c.max_pages: Option Nat", "page"]},
       "(match c_max_pages with | some m => (decide (page ≥ m)) | none => false)")
    ok("struct+nested-fn+keyword", "fn g(ts: u64, s: u64) -> W { fn f(x: u64) -> u64 { let end = 7; end } let end = ts + s; W { start: ts, end } }",
       {"function": "g", "what": {"body": True}, "params": ["ts", "s"]}, "let end_ : Nat := (ts + s) (ts, end_)")
    ok("arm+len+float-atom", "fn f(&self, v: &[u8]) -> bool { match self.p { P::A(n) => v.len() > 0 && v.len().is_multiple_of(n), P::B => self.m >= 2.0 } }",
       {"function": "f", "what": {"arm": "P::A"}, "params": ["v.len", "n"]}, "((decide (v_len > 0)) && (v_len % n == 0))")
    ok("float-atom", "fn f(m: f64, d: u64) -> u64 { let nd = if m >= 2.0 { d.saturating_mul(2) } else { d }; nd }",
       {"function": "f", "what": {"let": "nd"}, "params": ["ge2: Bool", "d"], "atoms": {"m >= 2.0": "ge2"}},
       "(if ge2 then (min (d * 2) K.u64Max) else d)")
    ok("call_arg+assign", "fn f(a: &mut A, n: usize) { for c in a.items.chunks(n.max(1)) { a.k = a.k.max(c.len()); a.t += 1; } }",
       {"function": "f", "what": {"assign": "a.t"}, "params": ["a.t"]}, "(a_t + 1)")
    reg = {}
    _snippet("const fn div_floor(a: u64, b: u64) -> u64 { a / b }", {"id": "df", "function": "div_floor", "what": {"body": True}, "params": ["a", "b"], "mode": "checked64", "_registry": reg})
    ok("local-call", "fn f(a: u64, b: u64) -> u64 { let k = div_floor(a, b); k * b }",
       {"function": "f", "what": {"body": True}, "params": ["a", "b"], "mode": "checked64", "calls": {"div_floor": "df"}, "_registry": reg},
       "let t1 ← K.df a b let k : Nat := t1 K.cmul k b")
    # error cases: never silently skipped
    bad("float", F % "let x = a as f64 * 2.0; 1", {"function": "f", "what": {"let": "x"}, "params": ["a"]}, "cast `as f64`")
    bad("free-var", F % "let x = a + c; x", {"function": "f", "what": {"let": "x"}, "params": ["a"]}, "free variable `c`")
    bad("unknown-method", F % "let x = a.pow(2); x", {"function": "f", "what": {"let": "x"}, "params": ["a"]}, "method `.pow`")
    bad("no-such-let", F % "a", {"function": "f", "what": {"let": "x"}, "params": ["a"]}, "occurrence 0 not found")
    bad("no-such-fn", F % "a", {"function": "g", "what": {"ret": True}, "params": ["a"]}, "function `g` not found")
    bad("ambiguous-fn", "impl A { fn f(&self) -> usize { 1 } } impl B { fn f(&self) -> usize { 2 } }", {"function": "f", "what": {"ret": True}}, "ambiguous")
    bad("type-error", "fn f(o: Option<usize>) -> usize { let x = o.max(2); x }", {"function": "f", "what": {"let": "x"}, "params": ["o: Option Nat"]}, "`.max` on Option Nat")
    bad("side-effect", F % "let x = a; foo(x); x", {"function": "f", "what": {"body": True}, "params": ["a"]}, "statement")
    bad("narrowing", F % "let x = a as u8; 1", {"function": "f", "what": {"let": "x"}, "params": ["a"]}, "cast `as u8`")
    ok("impl-hint", "impl A { fn f(&self) -> usize { 1 } } impl<T> Op for B<T> { fn f(&self) -> usize { self.0.max(2) } }",
       {"function": "f", "impl_hint": "for B<", "what": {"ret": True}, "params": ["self.0"]}, "(max self_0 2)")
    # white-space / comment invariance and determinism of a whole file
    a, _ = generate_from_sources({"x.rs": "fn f(a: usize) -> usize { let p = a.max(1); p }"})
    b, _ = generate_from_sources({"x.rs": "// c\nfn f( a : usize )\n -> usize {\n /* k */ let p =\n a . max ( 1 ) ; // t\n p }"})
    if a != b: fails.append("whitespace/comment invariance")
    for f in fails: print("SELFTEST FAIL:", f)
    print(f"selftest: {'FAILED ' + str(len(fails)) if fails else 'ok'}")
    return 1 if fails else 0


def generate_from_sources(files):
    import tempfile
    with tempfile.TemporaryDirectory() as d:
        for k, v in files.items():
            with open(os.path.join(d, k), "w") as f: f.write(v)
        return generate(d, [{"id": "p", "property": "T", "file": "x.rs", "function": "f", "what": {"let": "p"}, "params": ["a"]}])


def main():
    ap = argparse.ArgumentParser()
    ap.add_argument("--repo"); ap.add_argument("--spec"); ap.add_argument("--out")
    ap.add_argument("--selftest", action="store_true")
    a = ap.parse_args()
    if a.selftest: return selftest()
    if not (a.repo and a.spec and a.out):
        ap.error("--repo, --spec and --out are required")
    with open(a.spec, encoding="utf-8") as f: spec = json.load(f)
    body, sites = generate(a.repo, spec)
    changed = write_if_changed(a.out, body)
    write_if_changed(re.sub(r"\.lean$", "", a.out) + ".sites.json", json.dumps(sites, indent=1, sort_keys=True) + "\n")
    bad_ = [s for s in sites if s["status"] != "ok"]
    print(f"rs2lean: {'changed' if changed else 'unchanged'}; {len(sites) - len(bad_)} translated, {len(bad_)} untranslatable")
    for s in bad_: print(f"  {s['id']} ({s['property']}, {s['file']} fn {s['function']}): {s['status']}")
    return 0


if __name__ == "__main__":
    sys.exit(main())
